"""C13 — distributed vectors, operators and solves (kernel/global on the MPI-enabled parse).

Everything here is decided on code the baseline build never compiles: the driver tu/c13_global_mpi.cpp is parsed with
-DFEAT_HAVE_MPI against the OpenMPI headers (front end only).  Clauses (DESIGN §4 C13):
  1. E0   the distributed classes instantiate with MPI on
  2. E14  every posted request is completed before its buffer dies (typestate of request holders, ticket protocol)
  3. E14  per-neighbour coherence of ranks / mirrors / buffers / request slots inside one loop iteration
  4. E5   arrival order cannot matter: completion handler = scatter_axpy(buffer idx, mirror idx); kernels only do v[..] += ..
  5. E7   type-0 / type-1 discipline of Gate, Global::Vector, Global::Matrix
"""
import re

import featlib
from featlib import Check, walk, render, is_call, rel
import dfl
import norm_c13 as norm
from dfl import Resolver, short, strip_targs, last_comp, callee_name, is_nonconst_ref

R = featlib.repo_path
POST_RE = re.compile(r"^FEAT::Dist::Comm::(irecv|isend|iallreduce|ibcast|igather|iscatter|iallgather|ireduce|ibarrier)$")
BUF_PARAMS = ("buffer", "sendbuf", "recvbuf")


def ckey(cls):
    c = cls or ""
    for a, b in (("VecS", "DenseVector"), ("VecB", "DenseVectorBlocked<2>"), ("MatS", "CSR"), ("MatB", "BCSR<2,2>"), ("Mir", "VectorMirror")):
        c = re.sub(r"\b%s\b" % a, b, c)
    c = short(c)
    c = re.sub(r"LAFEM::DenseVectorBlocked<(double|float), (u64|u32), (\d)>", r"DenseVectorBlocked<\3>", c)
    c = re.sub(r"LAFEM::DenseVector<(double|float)(, (u64|u32))?>", "DenseVector", c)
    c = re.sub(r"LAFEM::SparseMatrixBCSR<(double|float), (u64|u32), (\d), (\d)>", r"BCSR<\3,\4>", c)
    c = re.sub(r"LAFEM::SparseMatrixCSR<(double|float)(, (u64|u32))?>", "CSR", c)
    c = re.sub(r"LAFEM::VectorMirror<(DT|double|float), (IT|u64|u32)>", "VectorMirror", c)
    c = re.sub(r"<(double|float)>", "<DT>", c)
    return c


def fkey(fn, suffix=""):
    kind = ""
    if fn.d.get("ctor") or fn.name == "operator=":
        pts = [fn.type(p["t"]) for p in fn.params]
        if len(pts) == 1 and pts[0].rstrip().endswith("&&"):
            kind = "/move"
        elif fn.d.get("ctor"):
            kind = "/%d" % len(pts)
    elif sum(1 for g in fn.facts.functions if g.cls == fn.cls and g.name == fn.name and g.tk != "pattern") > 1:
        kind = "/%d" % len(fn.params) + ("c" if fn.d.get("const") else "")
    return "%s::%s%s%s" % (ckey(fn.cls), fn.name, kind, suffix)


def calls_of(fn):
    return [n for n in dfl.own_nodes(fn) if is_call(n)]


# =====================================================================================================
# clause 1: E0
# =====================================================================================================

CURATED = {
    # class template -> the members the property statement needs (synchronisation, reductions, distributed products, transfer,
    # mirror packing).  Every entry is one E0 instance whether or not it type-checks, so the count does not depend on defects.
    "FEAT::Global::SynchVectorTicket": ["SynchVectorTicket", "SynchVectorTicket/move", "operator=/move", "wait", "~SynchVectorTicket"],
    "FEAT::Global::SynchScalarTicket": ["SynchScalarTicket", "SynchScalarTicket/move", "operator=/move", "wait", "~SynchScalarTicket", "_wait_function"],
    "FEAT::Global::SynchMatrix": ["SynchMatrix", "init", "exec"],
    "FEAT::Global::Gate": ["push", "compile", "from_1_to_0", "sync_0", "sync_0_async", "sync_1", "sync_1_async", "dot", "dot_async", "sum", "sum_async",
                           "min", "min_async", "max", "max_async", "norm2", "norm2_async"],
    "FEAT::Global::Muxer": ["compile", "join_send", "join", "split_recv", "split"],
    "FEAT::Global::Splitter": ["compile", "join", "split"],
    "FEAT::Global::Vector": ["from_1_to_0", "sync_0", "sync_0_async", "sync_1", "sync_1_async", "dot", "dot_async", "norm2sqr", "norm2sqr_async", "norm2", "norm2_async",
                             "max_abs_element", "max_abs_element_async", "min_abs_element", "min_abs_element_async", "max_element", "max_element_async",
                             "min_element", "min_element_async"],
    "FEAT::Global::Matrix": ["apply", "apply_transposed", "apply_async", "apply_transposed_async", "lump_rows", "convert_to_1", "extract_diag"],
    "FEAT::Global::Filter": ["filter_rhs", "filter_sol", "filter_def", "filter_cor"],
    "FEAT::Global::Transfer": ["trunc", "trunc_send", "rest", "rest_send", "prol", "prol_recv"],
    "FEAT::LAFEM::VectorMirror": ["buffer_size", "create_buffer", "gather", "scatter_axpy"],
    "FEAT::LAFEM::MatrixMirror": ["create_buffer", "gather", "scatter_axpy"],
}


def member_key(qn_stripped, is_move):
    return qn_stripped.replace("FEAT::", "") + ("/move" if is_move else "")


def check_e0(ck, facts, label):
    errs = facts.errors_in_repo()
    for e in facts.errors_outside_repo():
        ck.incomplete("E0.instantiate-mpi", "driver tu/c13_global_mpi.cpp no longer matches the API: %s:%s %s" % (e["file"], e["line"], e["msg"]))
    by_member = {}
    for e in errs:
        owner = None
        for fn in facts.functions:
            if fn.file == e["file"] and fn.line <= e["line"] <= max(fn.end, fn.line):
                if owner is None or fn.line >= owner.line:
                    owner = fn
        if owner is not None:
            k = member_key(strip_targs(owner.qn), fkey(owner).endswith("/move"))
        else:
            # functions whose body is invalid are not dumped: take the member from the instantiation stack of the diagnostic
            m = None
            for nt in e.get("notes", []):
                m = re.search(r"in instantiation of (?:member )?function(?: template specialization)? '([^']+)'", nt["msg"])
                if m:
                    break
            if m is None:
                ck.incomplete("E0.instantiate-mpi", "front-end error outside any dumped function: %s:%d %s" % (rel(e["file"]), e["line"], e["msg"]))
                continue
            k = member_key(strip_targs(m.group(1)), False)
        by_member.setdefault(k, []).append(e)
    present = {}
    for fn in facts.functions:
        if fn.tk != "pattern" and strip_targs(fn.cls) in CURATED:
            present.setdefault(member_key(strip_targs(fn.qn), fkey(fn).endswith("/move")), []).append(fn)
    curated_keys = set()
    for cls, members in CURATED.items():
        for mname in members:
            k = "%s::%s" % (cls.replace("FEAT::", ""), mname)
            curated_keys.add(k)
            es = by_member.get(k, [])
            fns = present.get(k, [])
            if es:
                ck.ob("E0.instantiate-mpi", k, False,
                      "%d front-end error(s) when the member is instantiated with -DFEAT_HAVE_MPI (%s), first: %s:%d: %s" % (len(es), label, rel(es[0]["file"]), es[0]["line"], es[0]["msg"]),
                      es[0]["file"], es[0]["line"])
            elif fns:
                ck.ob("E0.instantiate-mpi", k, True, "%d instantiation(s) type-check with MPI on (%s)" % (len(fns), label), fns[0].file, fns[0].line)
            else:
                ck.incomplete("E0.instantiate-mpi", "%s is neither instantiated by the driver nor diagnosed (member vanished or renamed?)" % k)
    for k, es in sorted(by_member.items()):
        if k not in curated_keys:
            ck.note("E0: front-end errors in %s (not on the curated member list): %s:%d %s" % (k, rel(es[0]["file"]), es[0]["line"], es[0]["msg"]))


# =====================================================================================================
# clause 2: every posted request is completed before its buffer dies
# =====================================================================================================

def post_sites(fn, rs, par):
    """[(post call, holder path | None, how, slot index node | None, buffer args)]"""
    out = []
    for c in calls_of(fn):
        if not POST_RE.match(strip_targs(c.get("callee", ""))):
            continue
        holder, how, slot = None, None, None
        cur = c
        for _ in range(6):
            pr = par.get(id(cur))
            if pr is None:
                break
            pn, sl = pr
            k = pn.get("k")
            if k == "Call" and pn.get("callee") in dfl.MOVE_FNS:
                cur = pn
                continue
            if k in ("Construct", "TempObj") and strip_targs(pn.get("ccls", "")) == "FEAT::Dist::Request":
                cur = pn
                continue
            if k == "MCall" and callee_name(pn) == "push_back" and sl == ("a", 0):
                holder, how = rs.path(pn.get("obj")), "push_back"
            elif k in ("OpCall", "Assign") and pn.get("op") == "=" and (sl == ("a", 1) or sl == "rhs"):
                lhs = pn["a"][0] if k == "OpCall" else pn["lhs"]
                if lhs.get("k") == "MCall" and callee_name(lhs) == "get_request":
                    holder, how, slot = rs.path(lhs.get("obj")), "slot", lhs["a"][0]
                elif lhs.get("k") == "OpCall" and lhs.get("op") == "[]":
                    holder, how, slot = rs.path(lhs["a"][0]), "slot", lhs["a"][1]
                else:
                    holder, how = rs.path(lhs), "single"
            elif k == "Var":
                holder, how = dfl.Path((("local", pn["d"]),), text=pn["n"]), "single"
            break
        bufs = [(a, p) for a, p, t in dfl.call_args_with_params(c, fn) if p in BUF_PARAMS]
        out.append((c, holder, how, slot, bufs))
    return out


def buffer_root(rs, a):
    """('field', name, inline) | ('local', d) | ('param', d) | None for a buffer pointer argument"""
    inline = False
    n = a
    if n.get("k") == "Un" and n.get("op") == "&":
        inline = True
        n = n["e"]
    p = rs.path(n)
    st = p.steps
    if not st:
        return None
    if st[0] == ("this",) and len(st) > 1 and st[1][0] == "field":
        return ("field", st[1][1], inline and len(st) == 2)
    if st[0][0] in ("local", "param"):
        return (st[0][0], st[0][1], False)
    return None


def branch_wait_any(fn, cfg, bid):
    """(wait_any call | None, flag decl | None, negated) for the condition that ends block bid"""
    b = cfg.blocks[bid]
    if b.get("cond") is None or len(b.get("succ", [])) != 2:
        return None, None, False
    c = fn.by_id(b["cond"])
    neg = False
    while c is not None and c.get("k") == "Un" and c.get("op") == "!":
        c = c["e"]
        neg = not neg
    if c is not None and c.get("k") == "MCall" and callee_name(c) == "wait_any" and strip_targs(c.get("ccls", "")) == "FEAT::Dist::RequestVector":
        return c, None, neg
    if c is not None and c.get("k") == "Ref" and c.get("dk") == "local":
        return None, c.get("d"), neg
    return None, None, False


class ReqClass:
    """request typestate of the member functions of one class, with summaries of member helpers"""

    def __init__(self, fns):
        self.fns = [f for f in fns if f.cfg is not None]
        self.by_name = {}
        for f in self.fns:
            self.by_name.setdefault(f.name, []).append(f)
        self.rs = {id(f): Resolver(f) for f in self.fns}
        self.par = {id(f): dfl.parents(f) for f in self.fns}
        self.sites = {id(f): post_sites(f, self.rs[id(f)], self.par[id(f)]) for f in self.fns}
        self._summary = {}
        self.called = set()
        for f in self.fns:
            for c in calls_of(f):
                g = self.helper(c)
                if g is not None:
                    self.called.add(id(g))

    def helper(self, c):
        """member function of the same class called on this (overloads: by arity)"""
        if c.get("k") != "MCall" or (c.get("obj") is not None and c["obj"].get("k") != "This"):
            return None
        cand = [g for g in self.by_name.get(callee_name(c), []) if len(g.params) == len(c.get("a", []))]
        return cand[0] if len(cand) == 1 else None

    def holders_of(self, f, seen=None):
        seen = seen or set()
        if id(f) in seen:
            return set()
        seen.add(id(f))
        hs = {h for c, h, how, slot, bufs in self.sites[id(f)] if h is not None}
        rs = self.rs[id(f)]
        for c in calls_of(f):
            nm = callee_name(c)
            recv = dfl.receiver(c)
            if recv is not None and nm in ("wait_all", "wait_any", "wait") and strip_targs(c.get("ccls", "")).startswith("FEAT::Dist::Request"):
                hs.add(rs.path(recv))
            g = self.helper(c)
            if g is not None:
                hs |= {h for h in self.holders_of(g, seen) if h.steps and h.steps[0] == ("this",)}
        return hs

    def summary(self, g, H, depth=0):
        """(exit tags from idle, exit tags from posted) of member helper g for the member holder H"""
        k = (id(g), H)
        if k in self._summary:
            return self._summary[k]
        self._summary[k] = ({"idle"}, {"posted"})        # recursion guard: identity
        if depth > 4:
            return self._summary[k]
        r0 = self.run(g, H, ("idle",), depth + 1)[1]
        r1 = self.run(g, H, ("posted", -1, g.line, None), depth + 1)[1]
        self._summary[k] = (r0, r1)
        return self._summary[k]

    def run(self, fn, H, init, depth=0):
        """-> (problems, exit tags, doubts, exit states)"""
        cfg = fn.cfg
        rs = self.rs[id(fn)]
        site_of = {c["i"]: h for c, h, how, slot, bufs in self.sites[id(fn)] if h is not None}
        problems, doubts = [], []

        def wait_any_of(n):
            """the call H.wait_any(..) whose result statement n stores in a flag: returns the flag decl"""
            if n.get("k") == "Decl":
                for v in n.get("vars", []):
                    i = v.get("init")
                    if i is not None and i.get("k") == "MCall" and callee_name(i) == "wait_any" and rs.path(i.get("obj")) == H:
                        return v["d"]
            if n.get("k") == "Assign" and n.get("op") == "=" and n["lhs"].get("k") == "Ref":
                i = n["rhs"]
                if i.get("k") == "MCall" and callee_name(i) == "wait_any" and rs.path(i.get("obj")) == H:
                    return n["lhs"].get("d")
            return None

        def step(bid, st):
            for e in cfg.blocks[bid]["el"]:
                n = fn.by_id(e)
                if n is None:
                    continue
                d = wait_any_of(n)
                if d is not None and st[0] == "posted":
                    st = ("posted", st[1], st[2], d)
                    continue
                if not is_call(n):
                    continue
                if n["i"] in site_of and site_of[n["i"]] == H:
                    if st[0] == "posted" and st[1] != n["i"]:
                        problems.append((n.get("l"), "requests of %s are re-posted while those posted at line %s may still be pending" % (H, st[2])))
                    st = ("posted", n["i"], n.get("l"), None)
                    continue
                g = self.helper(n)
                if g is not None and H.steps and H.steps[0] == ("this",):
                    ex0, ex1 = self.summary(g, H, depth)
                    if st[0] == "idle" and "posted" in ex0:
                        st = ("posted", n["i"], n.get("l"), None)
                    elif st[0] == "posted" and ex1 == {"idle"}:
                        st = ("idle",)
                    elif st[0] == "posted" and "posted" in self.summary(g, H, depth)[0] and n["i"] != st[1]:
                        problems.append((n.get("l"), "requests of %s are re-posted by %s while those posted at line %s may still be pending" % (H, callee_name(n), st[2])))
                    continue
                nm = callee_name(n)
                recv = dfl.receiver(n)
                if recv is not None and rs.path(recv) == H:
                    if nm in ("wait_all", "wait") and len(n.get("a", [])) == 0:
                        st = ("idle",)
                    elif nm in ("clear", "resize", "free", "cancel") and st[0] == "posted":
                        problems.append((n.get("l"), "%s.%s() while requests posted at line %s may still be pending" % (H, nm, st[2])))
                    elif nm not in ("wait_any", "push_back", "reserve", "get_request", "operator[]", "size", "get_status", "operator=",
                                    "test_for", "test_any", "test_all", "test", "is_null", "empty") and st[0] == "posted":
                        # (test_* are non-blocking probes: they may complete single requests but never guarantee completion -> state stays 'posted')
                        doubts.append((n.get("l"), "%s.%s(...) is not modelled and may complete the requests" % (H, nm)))
                    continue
                for a, pn_, pt_ in dfl.call_args_with_params(n, fn):
                    if a is not recv and pt_ is not None and is_nonconst_ref(pt_) and rs.path(a) == H and st[0] == "posted" and n.get("callee") not in dfl.MOVE_FNS:
                        doubts.append((n.get("l"), "%s is handed to %s, which is not modelled and may complete the requests" % (H, render(n)[:50])))
            return st

        def edge(bid, k, st):
            if st[0] != "posted":
                return st
            w, flag, neg = branch_wait_any(fn, cfg, bid)
            false_edge = 0 if neg else 1
            if w is not None and rs.path(w.get("obj")) == H and k == false_edge:
                return ("idle",)        # wait_any returned false: no active request left (dist.hpp)
            if flag is not None and flag == st[3] and k == false_edge:
                return ("idle",)        # the flag holds the result of the last wait_any
            return st

        inn, out = dfl.propagate(fn, init, step, edge)
        tags = set()
        states = set()
        for b in cfg.normal_exit_preds():
            for st, facts in out.to_exit.get(b, ()):
                tags.add(st[0])
                states.add(st)
        return (problems, tags, doubts, states)


def request_typestate(ck, rc, fn, key, initial=None, allow_pending_exit=False, rule="E14.requests-completed"):
    """typestate idle/posted of every request holder touched in fn (helpers of the class through summaries)"""
    holders = set(rc.holders_of(fn)) | set(initial or {})
    results = {}
    nsites = {}
    for c, h, how, slot, bufs in rc.sites[id(fn)]:
        if h is not None:
            nsites[h] = nsites.get(h, 0) + 1
    for H in sorted(holders, key=repr):
        init = (initial or {}).get(H, ("idle",))
        problems, tags, doubts, states = rc.run(fn, H, init)
        if "posted" in tags and not allow_pending_exit:
            if id(fn) in rc.called and H.steps and H.steps[0] == ("this",):
                pass          # a helper: the calling member function accounts for the pending requests (summary)
            else:
                ln = [st[2] for st in states if st[0] == "posted"]
                problems.append((fn.end, "a path returns while the requests of %s posted at line %s have not been completed (wait_all / exhaustive wait_any loop)" % (H, ln[0] if ln else "?")))
        uniq = []
        for pr in problems:
            if pr[1] not in [u[1] for u in uniq]:
                uniq.append(pr)
        results[H] = (uniq, tags)
        if doubts and [u for u in uniq if "have not been completed" in u[1]] == uniq:
            ck.incomplete(rule, "%s/%s: %s" % (key, H, "; ".join(sorted({"line %s: %s" % d for d in doubts}))[:400]))
            continue
        if init[0] == "idle" and not nsites.get(H) and not uniq and tags <= {"idle"} and not any(rc.helper(c) is not None for c in calls_of(fn)):
            continue          # the function only waits on a holder it never posts into (nothing to decide here)
        ck.ob(rule, "%s/%s" % (key, H), not uniq, "; ".join("line %s: %s" % pr for pr in uniq) or
              (("%d post site(s); " % nsites[H]) if nsites.get(H) else ("requests posted by the constructor; " if init[0] == "posted" else "requests posted through member helpers; ")) +
              "every path %s" % ("leaves the requests to %s" % ("the ticket's wait()" if allow_pending_exit else "the calling member function") if "posted" in tags else "completes them before returning"),
              fn.file, uniq[0][0] if uniq else fn.line)
    return results


def check_requests(ck, facts):
    by_cls = {}
    for fn in facts.functions:
        if fn.tk == "pattern" or not fn.file.startswith(R("kernel/global/")):
            continue
        by_cls.setdefault(fn.cls, []).append(fn)
    for cls, fns in sorted(by_cls.items()):
        if not any(POST_RE.match(strip_targs(c.get("callee", ""))) for fn in fns if fn.cfg is not None for c in calls_of(fn)):
            continue
        rc = ReqClass(fns)
        posting = [(fn, rc.rs[id(fn)], rc.par[id(fn)], rc.sites[id(fn)]) for fn in rc.fns if rc.sites[id(fn)]]
        # member functions that post directly or through a member helper
        involved = [fn for fn in rc.fns if rc.sites[id(fn)] or any(rc.helper(c) is not None and rc.holders_of(rc.helper(c)) for c in calls_of(fn))]
        waits = [f for f in fns if f.name == "wait"]
        dtors = [f for f in fns if f.d.get("dtor")]
        is_ticket = bool(waits) and any(fn.d.get("ctor") for fn in involved)
        field_holders = {}
        inline_bufs = []
        results = {}
        for fn in involved:
            if fn.name == "wait" and is_ticket:
                continue
            key = fkey(fn)
            for c, h, how, slot, bufs in rc.sites[id(fn)]:
                if h is None:
                    ck.incomplete("E14.requests-completed", "%s: the request returned by %s is not stored in a recognisable holder" % (key, render(c)[:60]))
            in_ctor = bool(fn.d.get("ctor")) and is_ticket
            results[id(fn)] = request_typestate(ck, rc, fn, key, allow_pending_exit=in_ctor)
            if in_ctor:
                for h, (pr, tags) in results[id(fn)].items():
                    if "posted" in tags and h.steps and h.steps[0] == ("this",):
                        field_holders[h] = ("posted", -1, fn.line, None)
        for fn, rs, par, sites in posting:
            key = fkey(fn)
            res = results.get(id(fn), {})
            for c, h, how, slot, bufs in sites:
                for a, pname in bufs:
                    br = buffer_root(rs, a)
                    pend = h is not None and h in res and "posted" in res[h][1]
                    if br is None:
                        ck.incomplete("E14.buffers-outlive-requests", "%s: buffer %s of %s not understood" % (key, render(a)[:60], render(c)[:40]))
                        continue
                    if br[0] == "local" and pend:
                        ck.ob("E14.buffers-outlive-requests", "%s/%s" % (key, render(a)[:50]), False,
                              "buffer %s is a local of the function but the request may still be pending when the function returns" % render(a)[:60], fn.file, c.get("l"))
                    else:
                        ck.ob("E14.buffers-outlive-requests", "%s/%s:%s" % (key, callee_name(c), render(a)[:50]), True,
                              "buffer lives in %s; requests %s" % ({"field": "a member of the object", "local": "a local", "param": "caller storage"}[br[0]],
                                                                   "are completed later by the object (wait / calling member function)" if pend else "are completed before the function returns"), fn.file, c.get("l"))
                    if br[0] == "field" and br[2]:
                        inline_bufs.append((br[1], h))
        if not is_ticket:
            continue
        # ---- ticket protocol: wait() completes what the constructor posted, and sets the finished flag ----------
        clsk = ckey(cls)
        if len(waits) != 1 or len(dtors) != 1:
            ck.incomplete("E14.ticket-protocol", "%s: %d wait() / %d destructor definitions" % (clsk, len(waits), len(dtors)))
            continue
        w = waits[0]
        res = request_typestate(ck, rc, w, fkey(w), initial=field_holders, rule="E14.ticket-protocol")
        # finished flag: the bool field the destructor asserts
        d = dtors[0]
        flag = None
        how = None
        for c in calls_of(d):
            if c.get("callee") == "FEAT::assertion" and c.get("a"):
                e = c["a"][0]
                if e.get("k") == "Member" and e.get("field"):
                    flag, how = e["n"], "asserts"
        for n in dfl.own_walk(d.body):
            if n.get("k") == "If":
                cnd = n["c"]
                if cnd.get("k") == "Un" and cnd.get("op") == "!" and cnd["e"].get("k") == "Member" and any(is_call(x) and callee_name(x) == "wait" for x in walk(n["then"])):
                    flag, how = cnd["e"]["n"], "waits"
        if flag is None and [c for c in calls_of(d) if not c.get("cconst") or c.get("callee") == "FEAT::assertion"]:
            ck.incomplete("E14.ticket-protocol", "%s::~dtor: the destructor calls %s; whether that guards against pending requests is not modelled" % (clsk, render(calls_of(d)[0])[:60]))
        else:
            ck.ob("E14.ticket-protocol", "%s::~dtor" % clsk, flag is not None,
                  ("the destructor %s on the completion flag '%s': an unfinished ticket cannot be destroyed silently" % (how, flag)) if flag else
                  "the destructor is empty: it neither asserts the completion flag nor waits, buffers of pending requests are freed", d.file, d.line)
        if flag is not None:
            def sets_flag(n, flag=flag):
                return n.get("k") == "Assign" and n.get("op") == "=" and n["lhs"].get("k") == "Member" and n["lhs"].get("n") == flag and n["rhs"].get("k") == "Bool" and n["rhs"].get("v")
            mp, bad = w.cfg.must_pass(sets_flag)
            if not mp and any(rc.helper(c) is not None for c in calls_of(w)):
                ck.incomplete("E14.ticket-protocol", "%s::wait: %s is not set directly; a member helper called by wait() may set it (not modelled)" % (clsk, flag))
            else:
                ck.ob("E14.ticket-protocol", "%s::wait/sets-%s" % (clsk, flag), mp, "every normal return of wait() sets %s = true" % flag if mp else
                      "a path returns from wait() without setting %s" % flag, w.file, w.line)
            # the flag is set only after completion: state at the assignment must be idle (checked through the exit states:
            # nothing re-posts after it) -> covered by the typestate above
        # ---- move operations: requests travel together with their buffers, the source is marked finished ----------
        ctor_sites = [(c, h, bufs, rs_) for fn_, rs_, par_, sites_ in posting if fn_.d.get("ctor") or id(fn_) in rc.called for c, h, how, slot, bufs in sites_]
        req_fields = sorted({h.steps[1][1] for c, h, bufs, rs_ in ctor_sites if h is not None and len(h.steps) > 1 and h.steps[0] == ("this",)})
        buf_fields = sorted({br[1] for c, h, bufs, rs_ in ctor_sites for a, pn in bufs for br in [buffer_root(rs_, a)] if br is not None and br[0] == "field" and not br[2]})
        for f in fns:
            if not ((f.d.get("ctor") or f.name == "operator=") and len(f.params) == 1 and f.type(f.params[0]["t"]).rstrip().endswith("&&")):
                continue
            od = f.params[0]["d"]
            taken = {}        # own field <- field of other
            for ini in (f.d.get("inits") or []):
                src = [x for x in walk(ini.get("init")) if x.get("k") == "Member" and x.get("b") is not None and x["b"].get("k") == "Ref" and x["b"].get("d") == od]
                if src:
                    taken[ini.get("member")] = src[0]["n"]
            src_set = {}
            for n in dfl.own_walk(f.body):
                if n.get("k") in ("Assign", "OpCall") and n.get("op") == "=":
                    lhs = n.get("lhs") if n.get("k") == "Assign" else n["a"][0]
                    rhs = n.get("rhs") if n.get("k") == "Assign" else n["a"][1]
                    if lhs.get("k") == "Member" and (lhs.get("b") is None or lhs["b"].get("k") == "This"):
                        src = [x for x in walk(rhs) if x.get("k") == "Member" and x.get("b") is not None and x["b"].get("k") == "Ref" and x["b"].get("d") == od]
                        if src:
                            taken[lhs["n"]] = src[0]["n"]
                    elif lhs.get("k") == "Member" and lhs.get("b") is not None and lhs["b"].get("k") == "Ref" and lhs["b"].get("d") == od:
                        src_set[lhs["n"]] = rhs
            unmod = [c for c in calls_of(f) if c.get("callee") not in dfl.MOVE_FNS and any(
                x.get("k") == "Ref" and x.get("d") == od for a_ in c.get("a", []) for x in ([a_] if a_.get("k") == "Ref" else [])) and
                c.get("k") not in ("Construct", "TempObj")]
            if unmod:
                ck.incomplete("E14.buffers-outlive-requests", "%s: the source object is handed as a whole to %s, which is not modelled" % (fkey(f), render(unmod[0])[:60]))
                continue
            if buf_fields:
                need = req_fields + buf_fields
                wrong = [x for x in need if taken.get(x) != x]
                ck.ob("E14.buffers-outlive-requests", "%s/requests-move-with-buffers" % fkey(f), not wrong,
                      ("request holders %s and message buffers %s must all be taken over from the same members of the source; not so: %s" % (
                          req_fields, buf_fields, ", ".join("%s <- %s" % (x, taken.get(x, "(not moved)")) for x in wrong))) if wrong else
                      "request holders %s and their message buffers %s are moved together" % (req_fields, buf_fields), f.file, f.line)
            if flag is not None:
                v = src_set.get(flag)
                ok = taken.get(flag) == flag and v is not None and v.get("k") == "Bool" and bool(v.get("v"))
                ck.ob("E14.ticket-protocol", "%s/marks-source-finished" % fkey(f), ok,
                      "the new ticket inherits %s and the moved-from ticket is marked finished (its destructor must not assert, nobody waits twice)" % flag if ok else
                      "move operation must copy %s from the source and then set other.%s = true (found: own %s <- %s, other.%s = %s)" % (
                          flag, flag, flag, taken.get(flag), flag, render(v) if v is not None else "not set"), f.file, f.line)
        # ---- inline buffers and move operations ---------------------------------------------------------
        for f in fns:
            if not ((f.d.get("ctor") or f.name == "operator=") and len(f.params) == 1 and f.type(f.params[0]["t"]).rstrip().endswith("&&")):
                continue
            moved = set()
            srcs = [i.get("init") for i in (f.d.get("inits") or [])] + [f.body]
            for ini in (f.d.get("inits") or []):
                if any(x.get("k") == "Member" and x.get("n") == ini.get("member") and x.get("b") is not None and x["b"].get("k") != "This" for x in walk(ini.get("init"))):
                    moved.add(ini.get("member"))
            for n in dfl.own_walk(f.body):
                if n.get("k") in ("Assign", "OpCall") and n.get("op") == "=":
                    lhs = n.get("lhs") if n.get("k") == "Assign" else n["a"][0]
                    if lhs.get("k") == "Member" and (lhs.get("b") is None or lhs["b"].get("k") == "This"):
                        moved.add(lhs["n"])
            waits_first = any(is_call(x) and callee_name(x) in ("wait", "wait_all") for x in dfl.own_walk(f.body))
            hs = {}
            for bname, h in inline_bufs:
                hname = h.steps[1][1] if h is not None and len(h.steps) > 1 else None
                hs.setdefault(hname, []).append(bname)
            for hname, bnames in hs.items():
                bad = hname in moved and not waits_first
                ck.ob("E14.buffers-outlive-requests", "%s/pending-request-moved" % fkey(f), not bad,
                      ("the request %s is posted with the addresses of the by-value members %s; the move operation transfers the pending request to another object without "
                       "completing it, but the MPI library keeps reading / writing the moved-from object's members: the new ticket's wait() returns the value copied at "
                       "move time, and the moved-from storage may be dead when the reduction completes" % (hname, ", ".join(sorted(set(bnames))))) if bad else
                      "request holder is not transferred while pending", f.file, f.line)


# =====================================================================================================
# clause 3 + 4a: per-neighbour coherence, completion handler
# =====================================================================================================

def index_exprs(body):
    """(container expr, index expr, node) of every subscripting of a container object inside body"""
    out = []
    for n in walk(body):
        if n.get("k") == "MCall" and callee_name(n) in ("at", "get_request", "get_status") and len(n.get("a", [])) == 1:
            out.append((n.get("obj"), n["a"][0], n))
        elif n.get("k") == "OpCall" and n.get("op") == "[]" and len(n.get("a", [])) == 2:
            out.append((n["a"][0], n["a"][1], n))
        elif n.get("k") == "Index":
            out.append((n["b"], n["idx"], n))
    return out


def index_exprs_nodes(nodes):
    out = []
    for n in nodes:
        if n.get("k") == "MCall" and callee_name(n) in ("at", "get_request", "get_status") and len(n.get("a", [])) == 1:
            out.append((n.get("obj"), n["a"][0], n))
        elif n.get("k") == "OpCall" and n.get("op") == "[]" and len(n.get("a", [])) == 2:
            out.append((n["a"][0], n["a"][1], n))
        elif n.get("k") == "Index":
            out.append((n["b"], n["idx"], n))
    return out


def strip_casts(rs, x):
    x = rs.value(x)
    while x is not None and (x.get("k") == "Cast" or (x.get("k") in ("Construct", "TempObj") and len(x.get("a", [])) == 1)):
        x = rs.value(x.get("e") if x.get("k") == "Cast" else x["a"][0])
    return x


def check_coherence(ck, facts):
    irecv_fields = {}
    for fn in facts.functions:
        if fn.tk == "pattern" or not fn.file.startswith(R("kernel/global/synch")):
            continue
        rs = Resolver(fn)
        for c in calls_of(fn):
            if strip_targs(c.get("callee", "")) == "FEAT::Dist::Comm::irecv":
                for a, pn, pt in dfl.call_args_with_params(c, fn):
                    if pn == "buffer":
                        br = buffer_root(rs, a)
                        if br and br[0] == "field":
                            irecv_fields.setdefault(fn.cls, set()).add(br[1])
    for fn in facts.functions:
        if fn.tk == "pattern" or not fn.file.startswith(R("kernel/global/synch")) or fn.cfg is None:
            continue
        rs = Resolver(fn)
        par = dfl.parents(fn)
        cfg = fn.cfg
        loops = [n for n in dfl.own_nodes(fn) if n.get("k") in ("For", "While", "Do", "ForRange")]
        ordinal = {}
        has_gather = any(c.get("k") == "MCall" and callee_name(c) == "gather" for c in calls_of(fn))
        # flags that hold the result of wait_any:  bool f = H.wait_any(idx); ... f = H.wait_any(idx);
        flag_calls = {}
        for n in dfl.own_nodes(fn):
            if n.get("k") == "Var" and (n.get("init") or {}).get("k") == "MCall" and callee_name(n["init"]) == "wait_any":
                flag_calls.setdefault(n["d"], []).append(n["init"])
            elif n.get("k") == "Assign" and n.get("op") == "=" and n["lhs"].get("k") == "Ref" and n["rhs"].get("k") == "MCall" and callee_name(n["rhs"]) == "wait_any":
                flag_calls.setdefault(n["lhs"]["d"], []).append(n["rhs"])
        scopes = [(L, [x for x in walk(L.get("body"))]) for L in loops]
        outside = [x for x in dfl.own_nodes(fn) if not dfl.enclosing_loops(fn, par, x) and x.get("k") not in ("For", "While", "Do", "ForRange")]
        scopes.append((None, outside))
        for L, nodes in scopes:
            posts = [c for c in nodes if is_call(c) and POST_RE.match(strip_targs(c.get("callee", "")))]
            mirror_ops = [c for c in nodes if c.get("k") == "MCall" and callee_name(c) in ("gather", "scatter_axpy", "buffer_size", "create_buffer")
                          and strip_targs(c.get("ccls", "")).startswith("FEAT::LAFEM::")]
            cond = L.get("c") if L is not None else None
            wa_calls = []
            if cond is not None and cond.get("k") == "MCall" and callee_name(cond) == "wait_any":
                wa_calls = [cond]
            elif cond is not None and cond.get("k") == "Ref" and cond.get("d") in flag_calls:
                wa_calls = flag_calls[cond["d"]]
            elif L is not None and (cond is None or (cond.get("k") == "Bool" and cond.get("v"))) and L.get("k") in ("For", "While"):
                # for(;;) { if(!H.wait_any(idx)) break; ... }
                body = L.get("body") or {}
                stmts_ = [x for x in (body.get("s") or [body]) if x.get("k") != "Decl"] if body else []
                first = stmts_[0] if stmts_ else None
                if first is not None and first.get("k") == "If" and first.get("else") is None:
                    c0 = first["c"]
                    if c0.get("k") == "Un" and c0.get("op") == "!" and c0["e"].get("k") == "MCall" and callee_name(c0["e"]) == "wait_any" \
                            and [x.get("k") for x in walk(first["then"]) if x.get("k") not in ("Block",)] == ["Break"]:
                        wa_calls = [c0["e"]]
            is_wait_any = bool(wa_calls)
            if L is None:
                posts = [c for c in posts if callee_name(c) in ("irecv", "isend")]      # collectives have no neighbour
                if not posts and not [c for c in mirror_ops if callee_name(c) in ("gather", "scatter_axpy") and index_exprs_nodes(list(walk(c)))]:
                    continue
            if not posts and not mirror_ops and not is_wait_any:
                continue
            # index variable of the iteration
            ivar = None
            if is_wait_any:
                ds = set()
                for w in wa_calls:
                    a = dfl.arg_by_param(w, "idx") or (w["a"][0] if w.get("a") else None)
                    ds.add(a.get("d") if a is not None and a.get("k") == "Ref" else None)
                ivar = ds.pop() if len(ds) == 1 else None
            elif L is None:
                # a helper that handles one neighbour: the neighbour index is a parameter
                cands = set()
                for cont, ix, node in index_exprs_nodes(nodes):
                    v = strip_casts(rs, ix)
                    if v.get("k") == "Ref" and v.get("dk") == "param":
                        cands.add(v["d"])
                ivar = cands.pop() if len(cands) == 1 else None
            elif L.get("k") == "ForRange":
                # range-for over one per-neighbour array with a running index for the others:  std::size_t i(0); for(auto& m : mirrors) { ... at(i) ...; ++i; }
                ivar = None
                cands = {}
                for cont, ix, node in index_exprs_nodes(nodes):
                    v = strip_casts(rs, ix)
                    if v is not None and v.get("k") == "Ref" and v.get("dk") == "local":
                        cands.setdefault(v["d"], []).append(node)
                if len(cands) == 1:
                    d_, uses_ = next(iter(cands.items()))
                    rcs = [norm.running_counter(fn, par, L, d_, u_) for u_ in uses_]
                    if all(r_ is not None and r_["phase"] == 0 and r_["step"] is None or (r_ is not None and r_["phase"] == 0 and (strip_casts(rs, r_["step"]) or {}).get("v") in ("1", 1)) for r_ in rcs):
                        ivar = d_
            else:
                ini = L.get("init")
                if ini is not None and ini.get("k") == "Decl" and len(ini.get("vars", [])) == 1:
                    ivar = ini["vars"][0]["d"]
                elif L.get("k") in ("While", "Do") and cond is not None and cond.get("k") == "Bin" and strip_casts(rs, cond["lhs"]).get("k") == "Ref":
                    ivar = strip_casts(rs, cond["lhs"]).get("d")
            # one instance per neighbour action (post / mirror gather / completion), so that merging or splitting loops keeps the count
            actions = ["complete"] if is_wait_any else (sorted(callee_name(c) for c in posts) + ["gather"] * sum(1 for c in mirror_ops if callee_name(c) == "gather")) or ["mirrors"]
            keys = []
            for act in actions:
                ordinal[act] = ordinal.get(act, 0) + 1
                keys.append("%s/loop:%s#%d" % (fkey(fn), act, ordinal[act]))
            key = keys[0]
            where_l = L.get("l") if L is not None else fn.line
            if ivar is None:
                ck.incomplete("E14.neighbour-coherence", key + ": neighbour index of the iteration / helper not recognised")
                continue
            problems = []
            doubts = []
            nidx = 0
            forms = {}
            for cont, ix, node in index_exprs_nodes(nodes):
                v = strip_casts(rs, ix)
                if v.get("k") == "Int":
                    continue
                nidx += 1
                forms.setdefault(render(v), []).append((cont, ix, node, v))
            if len(forms) > 1 or (forms and not all(any(x.get("k") == "Ref" and x.get("d") == ivar for x in walk(v)) for f_ in forms.values() for (_, _, _, v) in f_)):
                for form, lst in forms.items():
                    cont, ix, node, v = lst[0]
                    if v.get("k") == "Ref" and v.get("d") == ivar:
                        continue
                    simple = all(x.get("k") in ("Ref", "Int", "Bin", "Cast", "Un") for x in walk(v))
                    msg = "%s is subscripted with %s, every per-neighbour object in this iteration must use the same neighbour index" % (render(cont)[:40], render(ix))
                    (problems if simple else doubts).append((node.get("l"), msg))
            for c in posts:
                buf = cnt = None
                for a, pn, pt in dfl.call_args_with_params(c, fn):
                    if pn in BUF_PARAMS:
                        buf = a
                    elif pn == "count":
                        cnt = a
                bufv = rs.value(buf) if buf is not None else None
                if bufv is not None and cnt is not None and bufv.get("k") == "MCall":
                    bobj = rs.path(bufv.get("obj"))
                    cobjs = [rs.path(x.get("obj")) for x in walk(rs.value(cnt)) if x.get("k") == "MCall" and x.get("obj") is not None and not rs.path(x.get("obj")).opaque()
                             and callee_name(x) not in ("at",)]
                    if cobjs and any(co != bobj for co in cobjs):
                        problems.append((c.get("l"), "message length %s is taken from another object than the buffer %s" % (render(cnt)[:60], render(buf)[:60])))
                if callee_name(c) == "isend" and has_gather and bufv is not None and bufv.get("k") == "MCall":
                    bobj = rs.path(bufv.get("obj"))
                    ok = False
                    for g in mirror_ops:
                        if callee_name(g) == "gather":
                            ga = dfl.arg_by_param(g, "buffer") or (g["a"][0] if g.get("a") else None)
                            if ga is not None and rs.path(ga) == bobj and cfg.stmt_dominates(g["i"], c["i"]):
                                ok = True
                    if not ok:
                        # the gather may sit in an earlier loop over the same neighbours (loop split): same buffer array, same extent, loop header dominates
                        cont = bobj.steps[:-1] if bobj.steps and bobj.steps[-1][0] in ("call", "index") else None
                        for g in calls_of(fn):
                            if g.get("k") == "MCall" and callee_name(g) == "gather" and "Mirror" in (g.get("ccls") or "") and cont is not None:
                                ga = dfl.arg_by_param(g, "buffer") or (g["a"][0] if g.get("a") else None)
                                gp = rs.path(ga).steps if ga is not None else ()
                                gl = dfl.enclosing_loops(fn, par, g)
                                if gp[:-1] == cont and gl and L is not None and gl[-1] is not L:
                                    hdr = [b_["id"] for b_ in cfg.blocks.values() if b_.get("term_id") == gl[-1].get("i")]
                                    wc = cfg.block_of(c["i"])
                                    same_extent = gl[-1].get("c") is not None and L.get("c") is not None and render(strip_casts(rs, gl[-1]["c"].get("rhs") or {})) == render(strip_casts(rs, L["c"].get("rhs") or {}))
                                    if hdr and wc is not None and hdr[0] in cfg.dom.get(wc[0], ()):
                                        if same_extent:
                                            ok = True
                                        else:
                                            doubts.append((c.get("l"), "send buffers are gathered in another loop with a different extent expression"))
                                            ok = True
                    if not ok:
                        # the buffer may be filled by a construct that is not a direct mirror gather in this scope
                        filled = [x for x in nodes if is_call(x) and x is not c and x.get("callee") not in dfl.MOVE_FNS and callee_name(x) != "gather" and any(
                            pt_ is not None and is_nonconst_ref(pt_) and rs.path(a_).related(bobj) for a_, pn_, pt_ in dfl.call_args_with_params(x, fn) if a_ is not dfl.receiver(x))]
                        msg = "the send buffer %s is not filled by a mirror gather into the same buffer on every path before isend" % render(bufv.get("obj"))[:60]
                        (doubts if filled else problems).append((c.get("l"), msg + (" (it is handed to %s, which is not modelled)" % render(filled[0])[:50] if filled else "")))
                # push_back keeps slot == neighbour index only if executed exactly once per iteration
                pr = par.get(id(c))
                if L is not None and pr and pr[0].get("k") == "MCall" and callee_name(pr[0]) == "push_back":
                    cur = pr[0]
                    while id(cur) in par and par[id(cur)][0] is not L:
                        cur = par[id(cur)][0]
                        if cur.get("k") in ("If", "Cond", "Switch", "While", "For"):
                            problems.append((c.get("l"), "the request is appended conditionally: request slot and neighbour index no longer coincide"))
                            break
            if is_wait_any:
                # completion handler: exactly scatter_axpy(mirror[idx], buffer[idx]) into the target
                flagd = cond.get("d") if cond is not None and cond.get("k") == "Ref" else None
                effects = []
                for c in nodes:
                    if not is_call(c) or c.get("callee") in dfl.MOVE_FNS or c in wa_calls or callee_name(c) == "wait_any":
                        continue
                    writes_arg = any(pt is not None and is_nonconst_ref(pt) for a, pn, pt in dfl.call_args_with_params(c, fn) if a is not dfl.receiver(c))
                    pr = par.get(id(c))
                    stmt_pos = pr is not None and pr[0].get("k") in ("Block", "For", "While", "If") and pr[1] != "c"
                    if writes_arg or (c.get("k") in ("MCall", "OpCall") and not c.get("cconst") and stmt_pos):
                        effects.append(c)
                hs = [c for c in effects if callee_name(c) == "scatter_axpy"]
                others = [c for c in effects if callee_name(c) != "scatter_axpy"]
                if others or len(hs) != 1:
                    # other work in the completion loop (timing, statistics, helper functions ...): whether it commutes is not modelled
                    doubts.append((where_l, "completion loop executes %s besides / instead of a single mirror scatter_axpy" % (", ".join(render(c)[:40] for c in others) or "%d handlers" % len(hs))))
                for h in hs:
                    b = dfl.arg_by_param(h, "buffer")
                    br = buffer_root(rs, b) if b is not None else None
                    if br is None:
                        doubts.append((h.get("l"), "handler buffer %s not understood" % render(b)))
                    elif br[0] != "field" or br[1] not in irecv_fields.get(fn.cls, set()):
                        problems.append((h.get("l"), "handler scatters %s, which is not a buffer that irecv was posted on (%s)" % (render(b), sorted(irecv_fields.get(fn.cls, [])))))
                    al = dfl.arg_by_param(h, "alpha")
                    if al is not None:
                        v = strip_casts(rs, al)
                        if v.get("k") in ("Int", "Float"):
                            if float(v.get("text") or v.get("v")) != 1.0:
                                problems.append((h.get("l"), "received contribution scaled by alpha=%s" % render(al)))
                        else:
                            doubts.append((h.get("l"), "scaling %s of the received contribution not understood" % render(al)))
                    mo = h.get("obj")
                    mst = rs.path(mo).steps if mo is not None else ()
                    if not (mst and mst[-1][0] == "call" and mst[-1][1] == "at"):
                        doubts.append((h.get("l"), "handler mirror %s is not recognised as an element of the per-neighbour mirror array" % render(mo)))
            rule = "E14.neighbour-coherence" if not is_wait_any else "E5.handler-commutes"
            if doubts and not problems:
                ck.incomplete(rule, "%s: %s" % (key, "; ".join(sorted({"line %s: %s" % d for d in doubts}))[:400]))
                continue
            for key in keys:
                ck.ob(rule, key, not problems,
                      "; ".join("line %s: %s" % p for p in problems) or ("%d subscripts in the %s, all with the same neighbour index%s" % (
                          nidx, "loop" if L is not None else "helper", "; handler = mirror[idx].scatter_axpy(target, recv_buffer[idx], 1)" if is_wait_any else "")), fn.file, problems[0][0] if problems else where_l)


# =====================================================================================================
# clause 4b: mirror kernels only add; gather and scatter address the same (buffer, vector) cells
# =====================================================================================================

def kernel_accesses(fn):
    """(KernelModel, [(array param name, normal form of the element offset, 'store'|'load', assignment op, node, rhs)]) of a mirror kernel.
    Offsets are polynomials over the parameters and loop counters named after their extents; hoisted base pointers, running cursors,
    const locals, for / while / pointer-range loops and std::fill / copy are resolved by norm_c13.KernelModel."""
    km = norm.KernelModel(fn)
    return km, km.accesses()


def check_kernels(ck, facts):
    gens = {}
    for fn in facts.functions:
        m = re.match(r"FEAT::LAFEM::Arch::Mirror::(gather|scatter)_(dv|dvb|sv|svb)_generic$", strip_targs(fn.qn))
        if m and fn.tk != "pattern":
            gens.setdefault((m.group(1), m.group(2)), fn)
    def roles(fn):
        """parameter roles of a mirror kernel by type: out (written value array), val (read value arrays), scal (value-typed scalars)"""
        ptr = [(p, fn.type(p["t"]).strip()) for p in fn.params]
        outs = [p["n"] for p, t in ptr if t.endswith("*") and not t.startswith("const ")]
        vt = None
        if len(outs) == 1:
            vt = [t for p, t in ptr if p["n"] == outs[0]][0].rstrip("*").strip()
        vals = [p["n"] for p, t in ptr if vt and t.endswith("*") and t.startswith("const ") and t[len("const "):].rstrip("*").strip() == vt]
        scal = [p["n"] for p, t in ptr if vt and not t.endswith("*") and t.replace("const ", "").strip() == vt]
        return outs, vals, scal

    for kind in ("dv", "dvb", "sv", "svb"):
        g, sc = gens.get(("gather", kind)), gens.get(("scatter", kind))
        if g is None or sc is None:
            ck.incomplete("E5.scatter-kernel-additive", "mirror kernel pair %s not instantiated" % kind)
            continue
        outs, vals, scal = roles(sc)
        if len(outs) != 1 or len(vals) != 1:
            ck.incomplete("E5.scatter-kernel-additive", "scatter_%s_generic: parameter roles not recognised from the types (written arrays %s, read value arrays %s)" % (kind, outs, vals))
            continue
        out_arr, buf_arr = outs[0], vals[0]
        km, acc = kernel_accesses(sc)
        problems, unknown = [], []
        stores = [a for a in acc if a[2] == "store"]
        covered = set()
        if not stores:
            unknown.append((sc.line, "no element store found (the kernel writes through a construct that is not modelled)"))

        def named_value(x):
            """look through casts and named temporaries (never-modified scalar locals)"""
            for _ in range(8):
                x = norm._strip(x)
                if x is not None and x.get("k") == "Ref" and x.get("dk") == "local":
                    v = km.vars.get(x["d"])
                    if v is not None and v.get("init") is not None and not km.mods.get(x["d"]) and x["d"] not in km.ind and x["d"] not in km.addr_taken \
                            and not sc.type(v.get("t")).strip().endswith("*"):
                        x = v["init"]
                        continue
                break
            return x

        def opaque_locals(nodes):
            """locals in an expanded expression whose value this rule does not know (assigned more than once, address taken ...)"""
            return [x for x in nodes if x.get("k") == "Ref" and x.get("dk") == "local" and x["d"] not in km.ind and (km.mods.get(x["d"]) or x["d"] in km.addr_taken or
                                                                                                                   (km.vars.get(x["d"]) or {}).get("init") is None)]
        for arr, ix, _, op, node, rhs in stores:
            if arr != out_arr:
                problems.append((node.get("l"), "scatter kernel writes array '%s' (only the vector values '%s' may be written)" % (arr, out_arr)))
                continue
            contrib = None
            if op == "+=":
                contrib = rhs
            elif op == "=":
                r_ = named_value(rhs)
                if r_ is not None and r_.get("k") == "Bin" and r_.get("op") == "+":
                    for x_, y_ in ((r_["lhs"], r_["rhs"]), (r_["rhs"], r_["lhs"])):
                        x_ = named_value(x_)
                        ad = km.addr(x_) if x_ is not None and (x_.get("k") == "Index" or (x_.get("k") == "Un" and x_.get("op") == "*")) else None
                        if ad is not None and ad[0] == out_arr and ad[1].key() == ix:
                            contrib = y_                      # v = v + c  ==  v += c
                            covered.add(id(x_))
                            break
                if contrib is None:
                    msg = "store %s is a plain assignment: the value depends on the order in which neighbour buffers arrive" % render(node)[:70]
                    if rhs is not None and opaque_locals(km.expand(rhs)):
                        unknown.append((node.get("l"), "store %s assigns a local that is computed by statements this rule does not model" % render(node)[:60]))
                    else:
                        problems.append((node.get("l"), msg))
                    continue
            else:
                problems.append((node.get("l"), "store %s uses '%s' instead of an addition" % (render(node)[:60], op)))
                continue
            cn = km.expand(contrib)
            read_arrays = set()
            for x in cn:
                if x.get("k") == "Index" or (x.get("k") == "Un" and x.get("op") == "*"):
                    ad = km.addr(x)
                    if ad is not None:
                        read_arrays.add(ad[0])
            names_ = {x.get("n") for x in cn if x.get("k") == "Ref" and x.get("dk") == "param"}
            if out_arr in read_arrays:
                unknown.append((node.get("l"), "the added contribution %s reads the output array" % render(contrib)[:60]))
            if buf_arr not in read_arrays or not (set(scal) & names_) or opaque_locals(cn):
                unknown.append((node.get("l"), "contribution %s is not recognised as alpha*%s[...]" % (render(contrib)[:60], buf_arr)))
        for arr, ix, what, op, node, rhs in acc:
            if what == "load" and arr == out_arr and id(node) not in covered:
                unknown.append((node.get("l"), "scatter kernel reads %s[%s] outside an addition into the same cell" % (arr, ix)))
        if "?" in "".join(a_[1] for a_ in acc):
            unknown.append((sc.line, "an element address of the kernel is not understood (%s)" % ", ".join(sorted({"%s[%s]" % (a_[0], a_[1]) for a_ in acc if "?" in a_[1]}))[:120]))
        unknown += km.notes
        if unknown and not problems:
            ck.incomplete("E5.scatter-kernel-additive", "scatter_%s_generic: %s" % (kind, "; ".join("line %s: %s" % u for u in unknown)[:400]))
        else:
            ck.ob("E5.scatter-kernel-additive", "Arch::Mirror::scatter_%s_generic" % kind, not problems,
                  "; ".join("line %s: %s" % p for p in problems) or "all %d stores add alpha*%s[...] into %s[...]; %s is not read otherwise" % (len(stores), buf_arr, out_arr, out_arr),
                  sc.file, problems[0][0] if problems else sc.line)
        # gather: only buf is written, by plain assignment
        gkm, gacc = kernel_accesses(g)
        gouts, gvals, gscal = roles(g)
        gp = []
        for arr, ix, what, op, node, rhs in gacc:
            if what == "store" and gouts and arr != gouts[0]:
                gp.append((node.get("l"), "gather kernel writes array '%s'" % arr))
        # pair agreement: same buffer cells, same vector cells
        def cells(acc, arr):
            return sorted({a_[1] for a_ in acc if a_[0] == arr})
        allforms = "".join(a_[1] for a_ in acc + gacc)
        if "?" in allforms or km.notes or gkm.notes or len(gouts) != 1 or not gvals or gouts[0] != buf_arr or out_arr not in gvals:
            why = ["line %s: %s" % nt for nt in (km.notes + gkm.notes)] + sorted({"address %s[%s] not understood" % (a_[0], a_[1]) for a_ in acc + gacc if "?" in a_[1]})
            ck.incomplete("E2.gather-scatter-agree", "{gather,scatter}_%s_generic: loop structure / parameter roles of the kernels not recognised%s" % (kind, (": " + "; ".join(why)[:300]) if why else ""))
            continue
        idx_arrays = sorted({a_[0] for a_ in acc + gacc} - {buf_arr, out_arr})
        for arr in [buf_arr, out_arr] + idx_arrays:
            if cells(gacc, arr) != cells(acc, arr):
                gp.append((g.line, "gather addresses %s[%s] but scatter addresses %s[%s]: what one side packs is not what the other side unpacks" % (
                    arr, ", ".join(cells(gacc, arr)), arr, ", ".join(cells(acc, arr)))))
        ck.ob("E2.gather-scatter-agree", "Arch::Mirror::{gather,scatter}_%s_generic" % kind, not gp,
              "; ".join("line %s: %s" % p for p in gp) or "buffer cells %s and vector cells %s agree between gather and scatter" % (cells(acc, buf_arr), cells(acc, out_arr)),
              g.file, gp[0][0] if gp else g.line)
    # dispatchers forward to the generic kernel of the same name with identical argument order
    seen = set()
    agg = {}
    for fn in facts.functions:
        m = re.match(r"FEAT::LAFEM::Arch::Mirror::((gather|scatter)_(dv|dvb|sv|svb))$", strip_targs(fn.qn))
        if not m or fn.tk == "pattern":
            continue
        sig = (m.group(1), dfl_hash(fn))
        if sig in seen:
            continue
        seen.add(sig)
        cs = [c for c in calls_of(fn) if strip_targs(c.get("callee", "")).startswith("FEAT::LAFEM::Arch::Mirror::")]
        ok = bool(cs)
        detail = []
        rsd = Resolver(fn)
        unk_d = []
        for c in cs:
            if not re.match(r"FEAT::LAFEM::Arch::Mirror::%s_(generic|cuda|mkl)$" % m.group(1), strip_targs(c.get("callee", ""))):
                ok = False
                detail.append("forwards to %s" % c.get("callee"))
            # every kernel parameter receives the dispatcher parameter of the same name (named temporaries / casts looked through)
            for j, (a, pn_, pt_) in enumerate(dfl.call_args_with_params(c, fn)):
                v = strip_casts(rsd, a)
                if v is not None and v.get("k") == "Ref" and v.get("dk") == "param":
                    # same position, or (declaration order changed consistently) the kernel parameter of the same name
                    if not ((j < len(fn.params) and v.get("d") == fn.params[j]["d"]) or v.get("n") == pn_):
                        ok = False
                        detail.append("kernel parameter '%s' of %s receives the dispatcher parameter '%s'" % (pn_, callee_name(c), v.get("n")))
                else:
                    unk_d.append("argument %s for kernel parameter '%s' not understood" % (render(a)[:40], pn_))
            if len(c.get("a", [])) != len(fn.params):
                unk_d.append("%s does not receive all %d dispatcher parameters" % (callee_name(c), len(fn.params)))
        if unk_d and ok:
            ck.incomplete("E1.mirror-dispatch", "Arch::Mirror::%s: %s" % (m.group(1), "; ".join(unk_d)[:300]))
            continue
        agg.setdefault(m.group(1), []).append((ok, "; ".join(detail), fn))
    for name, res in sorted(agg.items()):
        bad = [r_ for r_ in res if not r_[0]]
        ck.ob("E1.mirror-dispatch", "Arch::Mirror::%s" % name, not bad, bad[0][1] if bad else "%d overload(s) forward their parameters unchanged to %s_generic" % (len(res), name),
              res[0][2].file, (bad[0][2] if bad else res[0][2]).line)
    # VectorMirror call sites
    for fn in facts.functions:
        if fn.tk == "pattern" or strip_targs(fn.cls) != "FEAT::LAFEM::VectorMirror" or fn.name not in ("gather", "scatter_axpy"):
            continue
        cs = [c for c in calls_of(fn) if re.match(r"FEAT::LAFEM::Arch::Mirror::(gather|scatter)_", strip_targs(c.get("callee", "")))]
        vecp = [p for p in fn.params if re.search(r"(Dense|Sparse)Vector(Blocked)?<", fn.type(p["t"]))]
        key = "VectorMirror::%s(%s)" % (fn.name, ",".join(re.sub(r".*?((Dense|Sparse)Vector(Blocked)?).*", r"\1", fn.type(p["t"])) for p in vecp))
        if len(cs) != 1 or len(vecp) != 2:
            ck.incomplete("E1.mirror-roles", "%s: %d kernel calls, %d vector parameters" % (key, len(cs), len(vecp)))
            continue
        c = cs[0]
        written = [p for p in vecp if is_nonconst_ref(fn.type(p["t"]))]
        readonly = [p for p in vecp if not is_nonconst_ref(fn.type(p["t"]))]
        problems = []
        if len(written) != 1 or len(readonly) != 1:
            ck.incomplete("E1.mirror-roles", key + ": cannot tell the written from the read vector")
            continue
        is_gather = fn.name == "gather"
        bufp, vecpar = (written[0], readonly[0]) if is_gather else (readonly[0], written[0])
        vt = fn.type(vecpar["t"])
        suffix = {"DenseVector": "dv", "DenseVectorBlocked": "dvb", "SparseVector": "sv", "SparseVectorBlocked": "svb"}.get(re.sub(r".*?((Dense|Sparse)Vector(Blocked)?)<.*", r"\1", vt))
        want = "%s_%s" % ("gather" if is_gather else "scatter", suffix)
        if callee_name(c) != want:
            problems.append("calls kernel %s, expected %s for %s" % (callee_name(c), want, vt[:50]))

        rsm = Resolver(fn)
        unknown = []

        def acc_of(a):
            """('param', decl, accessor) | ('this', accessor) | ('ref', decl) | None for a kernel argument"""
            a = strip_casts(rsm, a) if a is not None else None
            if a is None:
                return None
            if a.get("k") == "MCall" and not a.get("a"):
                o = a.get("obj")
                if o is None or o.get("k") == "This":
                    return ("this", callee_name(a))
                po = rsm.path(o).steps
                if len(po) == 1 and po[0][0] == "param":
                    return ("param", po[0][1], callee_name(a))
            if a.get("k") == "Ref" and a.get("dk") == "param":
                return ("ref", a.get("d"))
            return None

        def expect(slot, want, text):
            got = acc_of(roles.get(slot))
            if got == want:
                return
            if got is None:
                unknown.append("slot %s <- %s not understood (expected %s)" % (slot, render(roles.get(slot)), text))
            else:
                problems.append("slot %s <- %s, expected %s" % (slot, render(roles.get(slot)), text))
        roles = {pn: a for a, pn, pt in dfl.call_args_with_params(c, fn)}
        expect("buf", ("param", bufp["d"], "elements"), "%s.elements() (the %s DenseVector parameter)" % (bufp["n"], "written" if is_gather else "read-only"))
        vslot = "vec" if suffix in ("dv", "dvb") else "vval"
        expect(vslot, ("param", vecpar["d"], "elements"), "%s.elements()" % vecpar["n"])
        if suffix in ("sv", "svb"):
            expect("vidx", ("param", vecpar["d"], "indices"), "%s.indices()" % vecpar["n"])
            expect("nvec", ("param", vecpar["d"], "used_elements"), "%s.used_elements()" % vecpar["n"])
        expect("idx", ("this", "indices"), "this->indices()")
        expect("nidx", ("this", "num_indices"), "this->num_indices()")
        offp = [p for p in fn.params if p not in vecp and ("Index" in fn.type(p["t"]) or fn.type(p["t"]).replace("const ", "").strip() in ("unsigned long", "unsigned int"))]
        if len(offp) == 1:
            expect("boff", ("ref", offp[0]["d"]), "the buffer offset parameter")
        else:
            unknown.append("buffer offset parameter not recognised")
        if not is_gather:
            alp = [p for p in fn.params if p not in vecp and p not in offp]
            if len(alp) == 1:
                expect("alpha", ("ref", alp[0]["d"]), "the scaling parameter")
            else:
                unknown.append("scaling parameter not recognised")
        if suffix in ("dvb", "svb"):
            bsz = re.search(r", (\d+)>\s*&?$", vt.strip())
            bs = strip_casts(rsm, roles.get("bs")) if roles.get("bs") is not None else None
            if bsz is None or bs is None or bs.get("k") != "Int":
                unknown.append("block size argument %s not understood" % render(roles.get("bs")))
            elif str(bs.get("v")) != bsz.group(1):
                problems.append("slot bs <- %s, expected the block size of %s" % (render(roles.get("bs")), vt[:60]))
        if unknown and not problems:
            ck.incomplete("E1.mirror-roles", "%s: %s" % (key, "; ".join(unknown)[:300]))
            continue
        ck.ob("E1.mirror-roles", key, not problems, "; ".join(problems) or "kernel %s with buf <- %s.elements(), %s <- %s.elements(), idx/nidx of this mirror, boff, %s" % (
            want, bufp["n"], vslot, vecpar["n"], "alpha" if not is_gather else "no scaling"), fn.file, c.get("l"))


def dfl_hash(fn):
    import hashlib
    h = hashlib.sha1()
    for n in dfl.own_nodes(fn):
        h.update(("%s|%s|%s|%s;" % (n.get("k"), strip_targs(n.get("callee", "") or ""), n.get("n", ""), n.get("op", ""))).encode())
    return h.hexdigest()


# =====================================================================================================
# clause 5: type-0 / type-1 discipline
# =====================================================================================================

def unwrap_val(rs, n):
    n = rs.value(n)
    while n is not None and n.get("k") in ("Construct", "TempObj", "Cast") and len(n.get("a", []) or ([n["e"]] if n.get("e") else [])) == 1:
        n = rs.value((n.get("a") or [n.get("e")])[0])
    return n


def is_lit_one(rs, n):
    n = unwrap_val(rs, n)
    if n is None:
        return False
    try:
        return n.get("k") in ("Int", "Float") and float(n.get("text") or n.get("v")) == 1.0
    except ValueError:
        return False


def enclosing_conds(par, n):
    """[(condition node, branch 'then'|'else')] of the if statements around n (innermost first)"""
    out = []
    cur = n
    while id(cur) in par:
        p, slot = par[id(cur)]
        if p.get("k") == "If" and slot in ("then", "else"):
            out.append((p["c"], slot))
        cur = p
    return out


def field_of(rs, n):
    """name of the member of *this an expression denotes (through reference aliases), else None"""
    if n is None:
        return None
    st = rs.path(n).steps
    return st[1][1] if len(st) == 2 and st[0] == ("this",) and st[1][0] == "field" else None


def this_field(n):
    if n is not None and n.get("k") == "Member" and n.get("field") and (n.get("b") is None or n["b"].get("k") == "This"):
        return n["n"]
    return None


def param_local(n, d, rs=None):
    """n is P.local() of the parameter with decl d (reference locals resolved when a resolver is given)"""
    if n is None:
        return False
    if rs is not None:
        st = rs.path(n).steps
        return len(st) == 2 and st[0] == ("param", d) and st[1][0] == "call" and st[1][1] == "local"
    return n.get("k") == "MCall" and callee_name(n) == "local" and (n.get("obj") or {}).get("k") == "Ref" and n["obj"].get("d") == d


def check_global_matrix(ck, facts):
    for fn in facts.functions:
        if fn.tk == "pattern" or strip_targs(fn.cls) != "FEAT::Global::Matrix" or fn.name not in ("apply", "apply_transposed", "apply_async", "apply_transposed_async"):
            continue
        if len(fn.params) not in (2, 4) or fn.cfg is None:
            continue
        key = "%s::%s/%d" % (ckey(fn.cls), fn.name, len(fn.params))
        rs = Resolver(fn)
        want = "apply_transposed" if "transposed" in fn.name else "apply"
        is_async = fn.name.endswith("_async")
        pr, px = fn.params[0], fn.params[1]

        def is_par(n_, d_, rs=rs):
            """n_ denotes the parameter with decl d_ itself (through reference aliases / the bound parameters of inlined helpers)"""
            return n_ is not None and rs.path(n_).steps == (("param", d_),)
        locs = [c for c in calls_of(fn) if c.get("k") == "MCall" and field_of(rs, c.get("obj")) is not None and callee_name(c).startswith("apply")]
        problems = []
        unknown = []
        if len(locs) != 1:
            unknown.append("%d direct applications of the local matrix (expected exactly one); the product may be delegated to a construct that is not modelled" % len(locs))
        for c in locs:
            if callee_name(c) != want:
                problems.append("calls local %s, method parity requires %s" % (callee_name(c), want))
            a = {pn: x for x, pn, pt in dfl.call_args_with_params(c, fn)}
            def slot(name, want_d, text):
                v = a.get(name)
                if param_local(v, want_d, rs):
                    return
                st_ = rs.path(v).steps if v is not None else ()
                known = len(st_) == 2 and st_[0][0] == "param" and st_[1][0] == "call" and st_[1][1] == "local"
                (problems if known else unknown).append("slot %s <- %s, expected %s" % (name, render(v), text))
            slot("r", pr["d"], "%s.local()" % pr["n"])
            slot("x", px["d"], "%s.local()" % px["n"])
            if len(fn.params) == 4:
                py, pa = fn.params[2], fn.params[3]
                slot("y", pr["d"], "%s.local() (the type-0 copy of %s)" % (pr["n"], py["n"]))
                al = rs.value(a.get("alpha")) if a.get("alpha") is not None else None
                if not (al is not None and al.get("k") == "Ref" and al.get("d") == pa["d"]):
                    (problems if al is not None and al.get("k") in ("Ref", "Int", "Float") else unknown).append("slot alpha <- %s" % render(al))
                # r.copy(y); r.from_1_to_0() dominate the local product, exactly once each
                cps = [m for m in calls_of(fn) if m.get("k") == "MCall" and callee_name(m) == "copy" and is_par(m.get("obj"), pr["d"])
                       and m.get("a") and is_par(m["a"][0], py["d"])]
                f10 = [m for m in calls_of(fn) if m.get("k") == "MCall" and callee_name(m) == "from_1_to_0" and is_par(m.get("obj"), pr["d"])]
                before = [u for u in dfl.unmodelled_mutable_uses(fn, rs, dfl.Path((("param", pr["d"]),)), modelled=("copy", "from_1_to_0", "local", "sync_0", "sync_0_async"))
                          if u is not c and not fn.cfg.stmt_dominates(c["i"], u["i"])]
                if len(f10) > 1 or len(cps) > 1:
                    problems.append("%d copies of y and %d type-1 -> type-0 conversions of r before the product: the summand is scaled by the frequencies more than once" % (len(cps), len(f10)))
                elif len(cps) != 1 or len(f10) != 1:
                    if before:
                        unknown.append("r is prepared by %s, which is not modelled" % render(before[0])[:60])
                    else:
                        problems.append("expected exactly one %s.copy(%s) and one %s.from_1_to_0() (found %d, %d): the type-1 summand y must be converted to type-0 once before the local product is added" % (
                            pr["n"], py["n"], pr["n"], len(cps), len(f10)))
                elif not (fn.cfg.stmt_dominates(cps[0]["i"], f10[0]["i"]) and fn.cfg.stmt_dominates(f10[0]["i"], c["i"])):
                    if fn.cfg.stmt_dominates(f10[0]["i"], cps[0]["i"]) and fn.cfg.stmt_dominates(cps[0]["i"], c["i"]):
                        problems.append("from_1_to_0() is applied before copy(y): the converted values are overwritten by the type-1 summand")
                    elif not fn.cfg.stmt_dominates(f10[0]["i"], c["i"]):
                        problems.append("a path reaches the local product without r.from_1_to_0(): for the inputs that take it the type-1 summand is added unconverted (shared dofs counted once per sharing process)")
                    else:
                        unknown.append("copy(y) is conditional (control flow not modelled)")
            else:
                extra = [m for m in calls_of(fn) if m.get("k") == "MCall" and callee_name(m) in ("from_1_to_0", "sync_1") and is_par(m.get("obj"), pr["d"])]
                if extra:
                    problems.append("2-operand product must not rescale the result (%s)" % render(extra[0]))
            syncname = "sync_0_async" if is_async else "sync_0"

            def is_sync(m, syncname=syncname):
                return m.get("k") == "MCall" and callee_name(m) == syncname and is_par(m.get("obj"), pr["d"])
            if not dfl.after_on_all_paths(fn, c, is_sync):
                other = dfl.unmodelled_mutable_uses(fn, rs, dfl.Path((("param", pr["d"]),)), after=c, modelled=("local", "copy", "from_1_to_0"))
                if other:
                    unknown.append("no %s.%s() after the product, but r is handed to %s, which is not modelled" % (pr["n"], syncname, render(other[0])[:60]))
                else:
                    problems.append("the type-0 result of the local product is not synchronised by %s.%s() on every path afterwards" % (pr["n"], syncname))
            if is_async:
                rets = [n for n in dfl.own_walk(fn.body) if n.get("k") == "Return"]
                assigned_ = dfl.assigned_decls(fn)
                for r_ in rets:
                    nodes_ = list(walk(r_.get("e")))
                    for x_ in list(nodes_):
                        # a named ticket: T t = r.sync_0_async(); ...; return t;
                        if x_.get("k") == "Ref" and x_.get("dk") == "local" and x_["d"] not in assigned_ and rs.var(x_["d"]) is not None and not rs.var(x_["d"]).get("ref"):
                            nodes_ += list(walk(rs.var(x_["d"]).get("init")))
                    if not any(is_sync(m) for m in nodes_):
                        opaque_ = [x_ for x_ in nodes_ if is_call(x_) and x_.get("callee") not in dfl.MOVE_FNS and x_.get("k") not in ("Construct", "TempObj")]
                        (unknown if opaque_ else problems).append("a return does not hand out the ticket of %s.sync_0_async()" % pr["n"])
        if unknown and not problems:
            ck.incomplete("E7.matrix-apply-sync", "%s: %s" % (key, "; ".join(unknown)[:300]))
            continue
        ck.ob("E7.matrix-apply-sync", key, not problems, "; ".join(problems) or "local %s on (r.local(), x.local()%s) followed by %s on every path" % (
            want, ", r.local(), alpha) after copy(y), from_1_to_0(" if len(fn.params) == 4 else "", "sync_0_async" if is_async else "sync_0"), fn.file, fn.line)


OPS = {"sum_async": ("op_sum", None), "min_async": ("op_min", False), "max_async": ("op_max", False), "norm2_async": ("op_sum", True)}


def check_gate(ck, facts, partial=False):
    classes = sorted({f.cls for f in facts.functions if strip_targs(f.cls) == "FEAT::Global::Gate" and f.tk != "pattern" and f.name == "compile"})
    for cls in classes:
        fns = {}
        for f in facts.functions:
            if f.cls == cls and f.tk != "pattern":
                fns.setdefault(f.name, []).append(f)
        ck_ = ckey(cls)

        def one(name):
            c = fns.get(name, [])
            if len(c) != 1:
                if not (partial and not c):
                    ck.incomplete("E7.gate-discipline", "%s::%s: %d definitions" % (ck_, name, len(c)))
                return None
            return c[0]
        # ---- field identities from push() and compile() ------------------------------------------------
        push, comp = one("push"), one("compile")
        if push is None or comp is None:
            continue
        ranks_f = mirrors_f = None
        for c in calls_of(push):
            if c.get("k") == "MCall" and callee_name(c) == "push_back" and this_field(c.get("obj")):
                src = [x for x in walk(c["a"][0]) if x.get("k") == "Ref" and x.get("dk") == "param"]
                if src and src[0]["d"] == push.params[0]["d"]:
                    ranks_f = this_field(c["obj"])
                elif src and src[0]["d"] == push.params[1]["d"]:
                    mirrors_f = this_field(c["obj"])
        freqs_f = None
        for g_ in fns.get("get_freqs", []):
            rets_ = [n for n in dfl.own_walk(g_.body) if n.get("k") == "Return" and n.get("e") is not None]
            if len(rets_) == 1 and this_field(rets_[0]["e"]):
                freqs_f = this_field(rets_[0]["e"])
        rs_comp = Resolver(comp)
        inv = [c for c in calls_of(comp) if c.get("k") == "MCall" and callee_name(c) == "component_invert" and field_of(rs_comp, c.get("obj")) and (freqs_f is None or field_of(rs_comp, c.get("obj")) == freqs_f)]
        if freqs_f is None:
            freqs_f = field_of(rs_comp, inv[0]["obj"]) if len(inv) == 1 else None
        def do_compile():
            # ---- compile: freqs = 1 / (1 + sum over mirrors) -----------------------------------------------
            rs = Resolver(comp)
            par = dfl.parents(comp)
            cfg = comp.cfg
            problems = []
            unknown = []
            if ranks_f is None or mirrors_f is None:
                ck.incomplete("E7.gate-freqs", ck_ + ": rank / mirror fields not recognised from push()")
                return
            def freqs_elsewhere(skip=()):
                """calls that may produce / modify the frequency vector in a way this rule does not model"""
                out_ = []
                for c in calls_of(comp):
                    if c in skip or c.get("callee") in dfl.MOVE_FNS:
                        continue
                    recv_ = dfl.receiver(c)
                    if c.get("k") == "MCall" and (c.get("obj") is None or c["obj"].get("k") == "This") and not c.get("cconst"):
                        out_.append(c)            # member helper
                    elif recv_ is not None and field_of(rs, recv_) == freqs_f and not c.get("cconst") and callee_name(c) not in ("format", "component_invert", "operator="):
                        out_.append(c)
                    elif any(a_ is not recv_ and pt_ is not None and is_nonconst_ref(pt_) and field_of(rs, a_) == freqs_f for a_, pn_, pt_ in dfl.call_args_with_params(c, comp)) \
                            and callee_name(c) != "scatter_axpy":
                        out_.append(c)
                return out_
            if freqs_f is None:
                ck.incomplete("E7.gate-freqs", ck_ + ": the frequency vector member is not recognised (get_freqs() / component_invert)")
                return
            if len(inv) != 1:
                if freqs_elsewhere() or len(inv) > 1:
                    ck.incomplete("E7.gate-freqs", "%s::compile: %d direct component_invert calls on %s; the inversion may be done by %s (not modelled)" % (
                        ck_, len(inv), freqs_f, render((freqs_elsewhere() or inv)[0])[:60]))
                else:
                    ck.ob("E7.gate-freqs", ck_ + "::compile", False, "%s is never inverted (no component_invert, no helper that could do it): the frequencies stay the "
                          "multiplicities instead of their reciprocals" % freqs_f, comp.file, comp.line)
                return
            if True:
                iv = inv[0]
                x = dfl.arg_by_param(iv, "x")
                if field_of(rs, x) != freqs_f:
                    (problems if field_of(rs, x) is not None else unknown).append((iv.get("l"), "component_invert(%s) does not invert %s itself" % (render(x), freqs_f)))
                al = dfl.arg_by_param(iv, "alpha")
                if al is not None and not is_lit_one(rs, al):
                    (problems if unwrap_val(rs, al).get("k") in ("Int", "Float") else unknown).append((iv.get("l"), "reciprocal taken with numerator %s" % render(al)))
                if dfl.enclosing_loops(comp, par, iv):
                    problems.append((iv.get("l"), "the inversion is inside a loop"))
                mp, bad = cfg.must_pass(lambda n: n.get("i") == iv["i"])
                if not mp:
                    problems.append((iv.get("l"), "a path leaves compile() without inverting the multiplicities"))
                fm = [c for c in calls_of(comp) if c.get("k") == "MCall" and callee_name(c) == "format" and field_of(rs, c.get("obj")) == freqs_f]
                if not (len(fm) == 1 and fm[0].get("a") and not dfl.enclosing_loops(comp, par, fm[0])):
                    unknown.append((comp.line, "%s is not initialised by exactly one format(value) call outside loops" % freqs_f))
                    fm = fm[:1]
                elif not is_lit_one(rs, fm[0]["a"][0]):
                    (problems if unwrap_val(rs, fm[0]["a"][0]).get("k") in ("Int", "Float") else unknown).append(
                        (fm[0].get("l"), "%s is initialised to %s instead of 1 (own contribution of this process)" % (freqs_f, render(fm[0]["a"][0]))))
                scs = [c for c in calls_of(comp) if c.get("k") == "MCall" and callee_name(c) == "scatter_axpy"]
                if len(scs) == 0 and not freqs_elsewhere(skip=[iv] + fm):
                    problems.append((comp.line, "no mirror contribution is added to %s: every shared dof keeps multiplicity 1" % freqs_f))
                if len(scs) != 1 and not (len(scs) == 0 and problems):
                    unknown.append((comp.line, "%d scatter_axpy calls (expected one, in the loop over all mirrors)" % len(scs)))
                for sc in scs:
                    loops = dfl.enclosing_loops(comp, par, sc)
                    tgt, buf, al = dfl.arg_by_param(sc, "vector"), dfl.arg_by_param(sc, "buffer"), dfl.arg_by_param(sc, "alpha")
                    if field_of(rs, tgt) != freqs_f:
                        (problems if field_of(rs, tgt) is not None else unknown).append((sc.get("l"), "mirror contributions are added to %s instead of %s" % (render(tgt), freqs_f)))
                    if al is not None and not is_lit_one(rs, al):
                        (problems if (unwrap_val(rs, al) or {}).get("k") in ("Int", "Float") else unknown).append((sc.get("l"), "mirror contribution scaled by %s" % render(al)))
                    if fm and not cfg.stmt_dominates(fm[0]["i"], sc["i"]):
                        problems.append((sc.get("l"), "contributions are added before %s is formatted" % freqs_f))
                    mo = sc.get("obj")
                    mst = rs.path(mo).steps if mo is not None else ()
                    if len(loops) != 1:
                        unknown.append("scatter_axpy is not inside exactly one loop over the mirrors (loop structure not modelled)")
                    elif loops[0].get("k") == "ForRange":
                        L = loops[0]
                        lv = (L.get("var") or {}).get("d")
                        if field_of(rs, L.get("range")) != mirrors_f:
                            unknown.append("range-for over %s instead of the mirror array %s" % (render(L.get("range")), mirrors_f))
                        elif mst != (("local", lv),):
                            problems.append((sc.get("l"), "contribution scattered by %s, not by the mirror of the iteration" % render(mo)))
                    else:
                        # counting loop in any spelling (for / while, < / !=, hoisted bound): must run over 0 .. mirrors.size()
                        L = loops[0]
                        lr = norm.loop_range(comp, L, par)
                        if lr is None or lr["sign"] < 0:
                            unknown.append((L.get("l"), "the loop around scatter_axpy is not a recognised ascending counting loop"))
                        else:
                            bnd = unwrap_val(rs, lr["bound"])
                            st0 = unwrap_val(rs, lr["start"])
                            bound_ok = bnd is not None and bnd.get("k") == "MCall" and callee_name(bnd) == "size" and field_of(rs, bnd.get("obj")) == mirrors_f and lr["cmp"] in ("<", "!=")
                            zero = st0 is not None and st0.get("k") == "Int" and str(st0.get("v")) == "0"
                            if not (bound_ok and zero):
                                understood = st0 is not None and st0.get("k") == "Int" and bnd is not None and (
                                    bnd.get("k") in ("Int", "Bin") or (bnd.get("k") == "MCall" and callee_name(bnd) == "size" and field_of(rs, bnd.get("obj")) == mirrors_f))
                                (problems if understood else unknown).append((L.get("l"), "the loop does not range over all mirrors 0 .. %s.size() (start %s, bound %s %s)" % (
                                    mirrors_f, render(lr["start"]), lr["cmp"], render(lr["bound"])[:40])))
                            if not (len(mst) == 3 and mst[0] == ("this",) and mst[1] == ("field", mirrors_f) and mst[2][0] in ("call", "index")):
                                (problems if (mst and mst[0] == ("this",)) else unknown).append((sc.get("l"), "contribution scattered by %s, not by a mirror of %s" % (render(mo), mirrors_f)))
                            else:
                                # the subscript as the resolver normalised it (aliases of the mirror and const copies of the index are looked through)
                                ixtext = mst[2][2] if mst[2][0] == "call" else mst[2][1]
                                ivn = (rs.var(lr["var"]) or {}).get("n")
                                if ixtext != ivn and re.sub(r"^[\w:<> ]+\((\w+)\)$", r"\1", str(ixtext)) != ivn:
                                    (problems if re.match(r"^[\w\s+\-*()%:<>]+$", str(ixtext)) else unknown).append((sc.get("l"), "mirror subscript %s is not the loop index %s" % (ixtext, ivn)))
                    # buffer: created by the same mirror for the frequency vector and filled with ones
                    if len(loops) == 1:
                        if buf is None or buf.get("k") != "Ref" or buf.get("dk") != "local":
                            unknown.append("buffer %s is not a local buffer" % render(buf))
                        else:
                            v = rs.var(buf["d"])
                            ini = v.get("init") if v else None
                            while ini is not None and ini.get("k") in ("Construct", "TempObj") and len(ini.get("a", [])) == 1:
                                ini = ini["a"][0]
                            if not (ini is not None and ini.get("k") == "MCall" and callee_name(ini) == "create_buffer"):
                                unknown.append("creation of the buffer %s not understood" % render(buf))
                            elif rs.path(ini.get("obj")) != rs.path(mo):
                                problems.append((sc.get("l"), "buffer %s is not created by the mirror that scatters it" % render(buf)))
                            wr = [m for m in calls_of(comp) if m.get("k") == "MCall" and rs.path(m.get("obj")) == rs.path(buf) and not m.get("cconst") and cfg.stmt_dominates(m["i"], sc["i"])]
                            # a mirror gather INTO the buffer is a writer as well: the buffer then holds the values of the gathered vector at the mirror's dofs
                            gw = [m for m in calls_of(comp) if m.get("k") == "MCall" and callee_name(m) == "gather" and "Mirror" in (m.get("ccls") or "") and cfg.stmt_dominates(m["i"], sc["i"])
                                  and (dfl.arg_by_param(m, "buffer") if dfl.arg_by_param(m, "buffer") is not None else (m.get("a") or [None])[0]) is not None
                                  and rs.path(dfl.arg_by_param(m, "buffer") if dfl.arg_by_param(m, "buffer") is not None else m["a"][0]) == rs.path(buf)]
                            last_w = None
                            for m in wr + gw:
                                if last_w is None or cfg.stmt_dominates(last_w["i"], m["i"]):
                                    last_w = m
                            if last_w is not None and last_w in gw:
                                src = dfl.arg_by_param(last_w, "vector") if dfl.arg_by_param(last_w, "vector") is not None else (last_w["a"][1] if len(last_w.get("a", [])) > 1 else None)
                                sp_ = rs.path(src) if src is not None else None
                                if src is not None and field_of(rs, src) == freqs_f:
                                    problems.append((last_w.get("l"), "the buffer %s that is added to %s is gathered from %s itself (%s): the contribution of a mirror then contains what the mirrors "
                                                     "processed before it have already added — a dof shared by m >= 3 patches gets multiplicity 2^(m-1) instead of m" % (
                                                         render(buf), freqs_f, freqs_f, render(last_w)[:60])))
                                elif sp_ is not None and len(sp_.steps) == 1 and sp_.steps[0][0] == "local":
                                    # gathered from a local vector: all ones iff that vector is formatted to 1 and never modified afterwards
                                    lw = [m for m in calls_of(comp) if m.get("k") == "MCall" and rs.path(m.get("obj")) == sp_ and not m.get("cconst")]
                                    others_ = [u for u in dfl.unmodelled_mutable_uses(comp, rs, sp_, modelled=("format",))]
                                    if len(lw) == 1 and callee_name(lw[0]) == "format" and lw[0].get("a") and is_lit_one(rs, lw[0]["a"][0]) and cfg.stmt_dominates(lw[0]["i"], last_w["i"]) \
                                            and not others_ and not dfl.enclosing_loops(comp, par, lw[0]):
                                        pass
                                    else:
                                        unknown.append("buffer %s is gathered from %s, whose contents are not understood" % (render(buf), render(src)))
                                else:
                                    unknown.append("buffer %s is gathered from %s, whose contents are not understood" % (render(buf), render(src)))
                            elif not wr:
                                unknown.append("buffer %s is not filled by a member call before it is scattered" % render(buf))
                            elif not (callee_name(wr[-1]) == "format" and wr[-1].get("a")):
                                unknown.append("buffer %s is filled by %s, which is not modelled" % (render(buf), render(wr[-1])[:40]))
                            elif not is_lit_one(rs, wr[-1]["a"][0]):
                                (problems if (unwrap_val(rs, wr[-1]["a"][0]) or {}).get("k") in ("Int", "Float") else unknown).append(
                                    (sc.get("l"), "buffer %s is formatted to %s instead of ones before it is scattered" % (render(buf), render(wr[-1]["a"][0]))))
                # nothing touches the frequencies after the inversion
                for c in calls_of(comp):
                    if c.get("k") == "MCall" and field_of(rs, c.get("obj")) == freqs_f and not c.get("cconst") and c is not iv and cfg.stmt_dominates(iv["i"], c["i"]):
                        (problems if callee_name(c) in ("format", "scale", "component_invert", "component_product", "axpy", "copy", "clear") else unknown).append(
                            (c.get("l"), "%s modified after the inversion by %s" % (freqs_f, callee_name(c))))
                if scs and dfl.enclosing_loops(comp, par, scs[0]):
                    # inversion after the loop: the loop header dominates it and it is not in the loop (checked above)
                    pass
            unknown = [u if isinstance(u, tuple) else (comp.line, u) for u in unknown]
            if unknown and not problems:
                ck.incomplete("E7.gate-freqs", "%s::compile: %s" % (ck_, "; ".join(sorted({"line %s: %s" % u for u in unknown}))[:400]))
                return
            ck.ob("E7.gate-freqs", ck_ + "::compile", not problems, "; ".join("line %s: %s" % p for p in problems) or
                  "%s := 1; += 1 from every mirror of %s; component_invert once, last" % (freqs_f, mirrors_f), comp.file, problems[0][0] if problems else comp.line)

        do_compile()
        if freqs_f is None:
            continue
        # ---- dot -----------------------------------------------------------------------------------
        def gate_atom(f_, rs_):
            """atom valuation for path conditions of a Gate member: E = no neighbours, N = no communicator, S = single process"""
            is_comm = lambda x: x is not None and x.get("k") == "Member" and x.get("field") and "Comm" in f_.ntype(x)

            def atom(c, env):
                val = lambda n_: norm.env_value(rs_, env, n_)
                c = val(c)
                if c is None:
                    return None
                if c.get("k") == "MCall" and callee_name(c) == "empty" and field_of(rs_, val(c.get("obj"))) == ranks_f:
                    return ("E", True)
                if is_comm(c):
                    return ("N", False)
                if c.get("k") == "Bin" and c.get("op") in ("==", "!="):
                    l, r = val(c["lhs"]), val(c["rhs"])
                    for u, v in ((l, r), (r, l)):
                        if is_comm(u) and v is not None and v.get("k") == "Null":
                            return ("N", c["op"] == "==")
                if c.get("k") == "Bin" and c.get("op") in ("==", "!=", "<=", "<", ">", ">="):
                    l, r = unwrap_val(rs_, val(c["lhs"])), unwrap_val(rs_, val(c["rhs"]))
                    op = c["op"]
                    if r is not None and r.get("k") == "MCall" and l is not None and l.get("k") == "Int":
                        l, r, op = r, l, {"<": ">", ">": "<", "<=": ">=", ">=": "<="}.get(op, op)
                    if l is not None and l.get("k") == "MCall" and callee_name(l) == "size" and r is not None and r.get("k") == "Int":
                        k_ = int(r["v"])
                        if is_comm(val(l.get("obj"))):
                            single = {("==", 1): True, ("!=", 1): False, ("<=", 1): True, ("<", 2): True, (">", 1): False, (">=", 2): False}.get((op, k_))
                            if single is not None:
                                return ("S", single)
                        elif field_of(rs_, val(l.get("obj"))) == ranks_f:
                            empty = {("==", 0): True, ("!=", 0): False, ("<=", 0): True, ("<", 1): True, (">", 0): False, (">=", 1): False}.get((op, k_))
                            if empty is not None:
                                return ("E", empty)
                return None
            return atom

        d = one("dot")
        if d is not None and d.cfg is not None:
            rs = Resolver(d)
            px, py = d.params[0]["d"], d.params[1]["d"]
            atom = gate_atom(d, rs)
            resolve = lambda n_, env: norm.env_value(rs, env, n_)

            def is_xy(a, b, env):
                a, b = resolve(a, env), resolve(b, env)
                return a is not None and b is not None and a.get("k") == "Ref" and b.get("k") == "Ref" and {a.get("d"), b.get("d")} == {px, py}

            def leaves(e, cons, unk, env, summed=False, depth=0):
                """[(cons, unknown-conditions, kind)] of a returned expression: conditional expressions are split by their atoms, sum(v) / sum_async(v).wait()
                mark the value as globally summed; kind 'weighted' | 'summed' (global sum of the unweighted local dot) | 'local' (unweighted, no sum) | None"""
                e = resolve(e, env) if e is not None else None
                if e is None or depth > 12:
                    return [(cons, unk, None)]
                if e.get("k") == "Cond":
                    f = norm.cond_formula(e["c"], atom, env, resolve)
                    out_ = []
                    if f is None:
                        return leaves(e["then"], cons, True, env, summed, depth + 1) + leaves(e["else"], cons, True, env, summed, depth + 1)
                    import itertools
                    names = norm.formula_atoms(f)
                    free = [a_ for a_ in names if a_ not in cons]
                    seen_ = set()
                    for vals in itertools.product((True, False), repeat=len(free)):
                        val = dict(cons)
                        val.update(zip(free, vals))
                        br = "then" if norm.formula_eval(f, val) else "else"
                        c2 = dict(cons, **{a_: val[a_] for a_ in names})
                        k2 = (br, tuple(sorted(c2.items())))
                        if k2 not in seen_:
                            seen_.add(k2)
                            out_ += leaves(e[br], c2, unk, env, summed, depth + 1)
                    return out_
                if e.get("k") == "MCall" and (e.get("obj") is None or e["obj"].get("k") == "This") and callee_name(e) == "sum" and len(e.get("a", [])) == 1 and not summed:
                    return leaves(e["a"][0], cons, unk, env, True, depth + 1)
                if e.get("k") == "MCall" and callee_name(e) == "wait" and not e.get("a") and not summed:
                    o = resolve(e.get("obj"), env)
                    if o is not None and o.get("k") == "MCall" and (o.get("obj") is None or o["obj"].get("k") == "This") and callee_name(o) == "sum_async" and o.get("a"):
                        sq = unwrap_val(rs, o["a"][1]) if len(o["a"]) > 1 else None
                        if sq is None or (sq.get("k") == "Bool" and not sq.get("v")):
                            return leaves(o["a"][0], cons, unk, env, True, depth + 1)      # sum(v) is sum_async(v).wait() (E4.gate-reduction-op)
                if e.get("k") == "MCall" and callee_name(e) == "triple_dot" and field_of(rs, resolve(e.get("obj"), env)) == freqs_f and len(e.get("a", [])) == 2 and is_xy(e["a"][0], e["a"][1], env):
                    return [(cons, unk, "weighted" if summed else None)]
                if e.get("k") == "MCall" and callee_name(e) == "dot" and len(e.get("a", [])) == 1 and is_xy(e.get("obj") or {}, e["a"][0], env):
                    return [(cons, unk, "summed" if summed else "local")]
                return [(cons, unk, None)]

            problems, unknown = [], []
            weighted = 0
            for kind_, rn, cons0, unk0, env, state in norm.path_exits(d, atom, resolve=resolve):
                if kind_ != "return":
                    unknown.append("control flow of dot() not understood (%s)" % kind_)
                    continue
                for cons, unk, kind in leaves(rn.get("e"), cons0, unk0, env):
                    forced = lambda a_: cons.get(a_) is True
                    if kind is None:
                        unknown.append("return value %s not understood" % render(rn.get("e"))[:70])
                    elif kind == "weighted":
                        weighted += 1
                    else:
                        ok_ = forced("N") or forced("S") or (kind == "summed" and forced("E"))
                        if not ok_:
                            msg = "returns the %s %s on a path where the process may have %s%s" % (
                                "unweighted" if kind == "summed" else "purely local", render(rn.get("e"))[:50],
                                "neighbours: shared dofs are counted once per sharing process" if kind == "summed" or not forced("E") else "other processes: no global sum",
                                " (path conditions: %s)" % ", ".join("%s=%s" % kv for kv in sorted(cons.items())) if cons else "")
                            (unknown if unk else problems).append(msg if unk else (rn.get("l"), msg))
            problems = list({p_[1]: p_ for p_ in problems}.values())
            if unknown and not problems:
                ck.incomplete("E7.gate-dot", "%s::dot: %s" % (ck_, "; ".join(sorted(set(map(str, unknown))))[:400]))
            else:
                if weighted < 1 and not problems:
                    problems.append((d.line, "no return of sum(%s.triple_dot(x, y)) for the neighbour case" % freqs_f))
                ck.ob("E7.gate-dot", ck_ + "::dot", not problems, "; ".join("line %s: %s" % p for p in problems) or
                      "every path that admits neighbours returns sum(%s.triple_dot(x, y)); the unweighted dot only where the path conditions force a single process / no neighbours" % freqs_f,
                      d.file, problems[0][0] if problems else d.line)
        da = one("dot_async")
        if da is not None:
            rsa = Resolver(da)
            rets = [n for n in dfl.own_walk(da.body) if n.get("k") == "Return"]
            bad, unk_ = [], []
            if len(rets) != 1:
                unk_.append("%d return statements" % len(rets))
            else:
                e = unwrap_val(rsa, rets[0].get("e"))
                if not (e is not None and e.get("k") == "MCall" and callee_name(e) == "sum_async" and (e.get("obj") is None or e["obj"].get("k") == "This") and len(e.get("a", [])) >= 1):
                    unk_.append("return value %s is not sum_async(...) of this gate" % render(e)[:60])
                else:
                    t = unwrap_val(rsa, e["a"][0])
                    if t is not None and t.get("k") == "MCall" and callee_name(t) == "dot" and len(t.get("a", [])) == 1:
                        bad.append("the local contribution %s is the unweighted dot product: shared dofs are counted once per sharing process" % render(t)[:50])
                    elif not (t is not None and t.get("k") == "MCall" and callee_name(t) == "triple_dot" and field_of(rsa, rsa.value(t.get("obj"))) == freqs_f and len(t["a"]) == 2):
                        unk_.append("local contribution %s not understood" % render(t)[:60])
                    else:
                        ds_ = {(rsa.value(t["a"][0]) or {}).get("d"), (rsa.value(t["a"][1]) or {}).get("d")}
                        if ds_ != {da.params[0]["d"], da.params[1]["d"]}:
                            (bad if ds_ <= {da.params[0]["d"], da.params[1]["d"]} else unk_).append("triple_dot operands %s, expected (x, y)" % render(t)[:50])
                    sq = rsa.value(e["a"][1]) if len(e["a"]) > 1 else None
                    if not (sq is not None and sq.get("k") == "Ref" and sq.get("d") == da.params[2]["d"]):
                        (bad if sq is None or sq.get("k") == "Bool" else unk_).append("sqrt flag %s is not the parameter '%s'" % (render(sq) if sq is not None else "(default)", da.params[2]["n"]))
            if unk_ and not bad:
                ck.incomplete("E7.gate-dot", "%s::dot_async: %s" % (ck_, "; ".join(unk_)[:300]))
            else:
                ck.ob("E7.gate-dot", ck_ + "::dot_async", not bad, "returns sum_async(%s.triple_dot(x, y), sqrt)" % freqs_f if not bad else
                      "dot_async does not return sum_async(%s.triple_dot(x, y), sqrt): %s" % (freqs_f, "; ".join(bad)), da.file, da.line)
        # ---- reductions: operation / sqrt parity -------------------------------------------------------
        for name, (op, sq) in OPS.items():
            f = one(name)
            if f is None:
                continue
            tr, why = reduction_of(fns, f)
            if tr is None:
                ck.incomplete("E4.gate-reduction-op", "%s::%s: %s" % (ck_, name, why))
                continue
            want = ("x*x" if name == "norm2_async" else "x", op, "param" if sq is None else sq)
            detail = []
            if tr[0] != want[0]:
                detail.append("summand %s, expected %s" % (tr[0], want[0]))
            if tr[1] != want[1]:
                detail.append("reduction operation Dist::%s, expected Dist::%s" % (tr[1], want[1]))
            if tr[2] != want[2]:
                detail.append("sqrt flag %s, expected %s" % (tr[2] if tr[2] != "param" else "passed through", "passed through from the parameter" if want[2] == "param" else want[2]))
            ck.ob("E4.gate-reduction-op", "%s::%s" % (ck_, name), not detail, "; ".join(detail) or "SynchScalarTicket(%s, comm, Dist::%s, sqrt=%s)" % want, f.file, f.line)
        # ---- from_1_to_0 and the sync functions --------------------------------------------------------
        def is_freqs(rs_, n_):
            n_ = rs_.value(n_) if n_ is not None else None
            st_ = rs_.path(n_).steps if n_ is not None else ()
            if len(st_) == 2 and st_[0] == ("this",) and st_[1] == ("field", freqs_f):
                return True
            return len(st_) == 2 and st_[0] == ("this",) and st_[1][0] == "call" and st_[1][1] == "get_freqs"

        f10 = one("from_1_to_0")
        if f10 is not None:
            rs10 = Resolver(f10)
            vp = dfl.Path((("param", f10.params[0]["d"]),))
            cps = [c for c in calls_of(f10) if c.get("k") == "MCall" and callee_name(c) == "component_product"]
            others = [u for u in dfl.unmodelled_mutable_uses(f10, rs10, vp, modelled=("component_product",))]
            bad, unk_ = [], []
            if len(cps) > 1:
                bad.append("%d component_product calls: the vector is scaled by the frequencies more than once" % len(cps))
            elif len(cps) == 0:
                (unk_ if (others or [c for c in calls_of(f10) if c.get("k") == "MCall" and (c.get("obj") is None or c["obj"].get("k") == "This") and not c.get("cconst")]) else bad).append(
                    "no component_product with the frequencies" + (" (the vector is handed to %s, which is not modelled)" % render(others[0])[:50] if others else ""))
            else:
                c = cps[0]
                if others:
                    unk_.append("the vector is also handed to %s, which is not modelled" % render(others[0])[:50])
                if rs10.path(c.get("obj")) != vp:
                    (bad if is_freqs(rs10, c.get("obj")) else unk_).append("the product is stored in %s, not in the vector parameter" % render(c.get("obj")))
                if len(c.get("a", [])) != 2:
                    unk_.append("component_product with %d arguments" % len(c.get("a", [])))
                else:
                    kinds = sorted("p" if rs10.path(x) == vp else ("f" if is_freqs(rs10, x) else "?") for x in c["a"])
                    if kinds != ["f", "p"]:
                        (unk_ if "?" in kinds else bad).append("factors %s, expected the vector and %s once each" % (render(c)[:60], freqs_f))
            if unk_ and not bad:
                ck.incomplete("E7.gate-discipline", "%s::from_1_to_0: %s" % (ck_, "; ".join(unk_)[:300]))
            else:
                ck.ob("E7.gate-discipline", ck_ + "::from_1_to_0", not bad, "vector <- vector (*) %s, once" % freqs_f if not bad else
                      "from_1_to_0 must be exactly vector.component_product(vector, %s): %s" % (freqs_f, "; ".join(bad)), f10.file, f10.line)
        SYNC = ("sync_0", "sync_1", "sync_0_async", "sync_1_async")
        for name in SYNC:
            f = one(name)
            if f is None or f.cfg is None:
                continue
            rs = Resolver(f)
            vd = f.params[0]["d"]
            vp = dfl.Path((("param", vd),))
            is_async = name.endswith("_async")
            want_scale = 1 if "sync_1" in name else 0
            atom = gate_atom(f, rs)
            resolve = lambda n_, env, rs=rs: norm.env_value(rs, env, n_)
            doubts = []
            problems = []

            def source_of(n, rs=rs, f=f, name=name):
                """('ticket'|'blocking', scaling done inside, node) if n starts an exchange of the vector parameter: a posting SynchVectorTicket built here, or the
                sibling sync_K[_async](vector) of this gate (whose own instance of this rule decides what it does); 'bad' text if it is a wrong exchange; else None"""
                if n.get("k") in ("Construct", "TempObj") and strip_targs(n.get("ccls", "")) == "FEAT::Global::SynchVectorTicket" and len(n.get("a", [])) == 4:
                    a = {pn: x for x, pn, pt in dfl.call_args_with_params(n, f)}
                    bad_, unk_ = [], []
                    tp = rs.path(a.get("target")).steps if a.get("target") is not None else ()
                    if tp != (("param", vd),):
                        (bad_ if (tp and tp[0][0] in ("param", "this")) else unk_).append("ticket target %s is not the vector parameter" % render(a.get("target")))
                    for slot_, want_ in (("ranks", ranks_f), ("mirrors", mirrors_f)):
                        sp_ = rs.path(a.get(slot_)).steps if a.get(slot_) is not None else ()
                        got_ = sp_[1][1] if len(sp_) == 2 and sp_[0] == ("this",) and sp_[1][0] == "field" else None
                        if got_ != want_:
                            (bad_ if got_ is not None else unk_).append("ticket %s %s, expected %s" % (slot_, render(a.get(slot_)), want_))
                    if bad_:
                        return ("bad", "; ".join(bad_), n)
                    if unk_:
                        return ("unknown", "; ".join(unk_), n)
                    return ("ticket", 0, n)
                if n.get("k") == "MCall" and (n.get("obj") is None or n["obj"].get("k") == "This") and callee_name(n) in SYNC and callee_name(n) != name and len(n.get("a", [])) == 1:
                    if rs.path(n["a"][0]) != vp:
                        return ("unknown", "%s is applied to %s, not to the vector parameter" % (callee_name(n), render(n["a"][0])), n)
                    sib = callee_name(n)
                    return ("ticket" if sib.endswith("_async") else "blocking", 1 if "sync_1" in sib else 0, n)
                return None

            def on_stmt(n, cons, env, st, rs=rs, f=f):
                # st = (scalings so far, exchanges [(kind, scale, node, scalings before)], waited ticket nodes, scalings after an exchange)
                st = st or (0, (), (), 0)
                if not is_call(n):
                    return st
                src = source_of(n)
                if src is not None:
                    if src[0] in ("bad", "unknown"):
                        (problems if src[0] == "bad" else doubts).append((n.get("l"), src[1]))
                        return (st[0], st[1] + (("ticket", 0, n, st[0]),), st[2], st[3])
                    return (st[0], st[1] + ((src[0], src[1], n, st[0]),), st[2], st[3])
                if n.get("k") == "MCall" and (n.get("obj") is None or n["obj"].get("k") == "This") and callee_name(n) == "from_1_to_0" and n.get("a"):
                    if rs.path(n["a"][0]) != vp:
                        doubts.append((n.get("l"), "from_1_to_0 applied to %s" % render(n["a"][0])))
                        return st
                    return (st[0] + 1, st[1], st[2], st[3] + (1 if st[1] else 0))
                if n.get("k") == "MCall" and callee_name(n) == "wait" and strip_targs(n.get("ccls", "")) == "FEAT::Global::SynchVectorTicket":
                    o = n.get("obj")
                    tgt = None
                    if o is not None and o.get("k") == "Ref" and o.get("dk") == "local":
                        tgt = norm._strip(resolve(env.get(o["d"]), env)) if o["d"] in env else None
                        while tgt is not None and tgt.get("k") in ("Construct", "TempObj") and len(tgt.get("a", [])) == 1:
                            tgt = norm._strip(resolve(tgt["a"][0], env))
                    else:
                        tgt = norm._strip(resolve(o, env)) if o is not None else None
                    hit = [x for x in st[1] if x[2] is tgt]
                    if hit:
                        return (st[0], st[1], st[2] + (tgt["i"],), st[3])
                    doubts.append((n.get("l"), "wait() on %s, which is not recognised as the ticket of the exchange" % render(o)[:40]))
                    return st
                # anything else that may touch the vector or a ticket
                lam_ = dfl.lambda_body_of(rs, n)
                if lam_ is not None:
                    doubts.append((n.get("l"), "the closure called by %s is not followed" % render(n)[:40]))
                    return st
                if n.get("callee") in dfl.MOVE_FNS or n.get("callee") == "FEAT::assertion" or n.get("cconst"):
                    return st
                if n.get("k") in ("Construct", "TempObj") and strip_targs(n.get("ccls", "")) == "FEAT::Global::SynchVectorTicket":
                    return st           # empty / moved ticket objects
                for a_, pn_, pt_ in dfl.call_args_with_params(n, f):
                    if pt_ is not None and is_nonconst_ref(pt_) and rs.path(a_).startswith(vp):
                        doubts.append((n.get("l"), "the vector is handed to %s, which is not modelled" % render(n)[:50]))
                if n.get("k") == "MCall" and (n.get("obj") is None or n["obj"].get("k") == "This") and not n.get("cconst"):
                    doubts.append((n.get("l"), "member helper %s is not modelled" % render(n)[:50]))
                return st

            n_ex = 0
            for kind_, rn, cons, unk, env, st in norm.path_exits(f, atom, on_stmt=on_stmt, resolve=resolve):
                st = st or (0, (), (), 0)
                if kind_ == "overflow":
                    doubts.append((f.line, "control flow too large"))
                    continue
                where = rn.get("l") if rn is not None else f.end
                if cons.get("E") is True:
                    continue        # no neighbours: nothing to exchange (from_1_to_0 is a no-op there as well)
                pc = " (path conditions: %s)" % ", ".join("%s=%s" % kv for kv in sorted(cons.items())) if cons else ""
                sink = doubts if unk else problems
                if len(st[1]) == 0:
                    sink.append((where, "a path on which the process may have neighbours ends without starting the exchange%s" % pc))
                    continue
                if len(st[1]) > 1:
                    sink.append((where, "%d exchanges of the vector on one path%s" % (len(st[1]), pc)))
                    continue
                n_ex += 1
                kind, inner, node, before = st[1][0]
                total = before + inner
                if st[3]:
                    sink.append((where, "the vector is scaled by the frequencies after the exchange was started"))
                if total != want_scale:
                    sink.append((where, ("a type-1 synchronisation must scale by the frequencies (from_1_to_0(vector)) exactly once before the exchange" if want_scale else
                                         "a type-0 synchronisation must not scale by the frequencies") + " (found %d scaling(s): %d here%s)%s" % (
                                             total, before, ", %d inside %s" % (inner, callee_name(node)) if node.get("k") == "MCall" else "", pc)))
                if not is_async:
                    if kind == "ticket" and node["i"] not in st[2]:
                        sink.append((where, "ticket.wait() is not called on every path after the exchange was started%s" % pc))
                else:
                    if kind != "ticket":
                        sink.append((where, "the asynchronous form completes the exchange itself (%s)" % callee_name(node)))
                    rv = norm._strip(resolve(rn.get("e"), env)) if rn is not None and rn.get("e") is not None else None
                    while rv is not None and rv is not node and rv.get("k") in ("Construct", "TempObj") and len(rv.get("a", [])) == 1:
                        rv = norm._strip(resolve(rv["a"][0], env))
                    if rv is not node:
                        doubts.append((where, "the returned ticket %s is not recognised as the ticket of the exchange" % (render(rn.get("e"))[:40] if rn is not None else "?")))
            uniq = list({p_[1]: p_ for p_ in problems}.values())
            if doubts and not uniq:
                ck.incomplete("E7.gate-discipline", "%s::%s: %s" % (ck_, name, "; ".join(sorted({"line %s: %s" % d_ for d_ in doubts}))[:400]))
                continue
            ck.ob("E7.gate-discipline", "%s::%s" % (ck_, name), not uniq, "; ".join("line %s: %s" % p_ for p_ in uniq) or
                  "whenever the process may have neighbours: %sexactly one exchange of the vector (SynchVectorTicket(vector, comm, %s, %s) or the sibling sync function)%s" % (
                      "from_1_to_0(vector) once, then " if want_scale else "no scaling, ", ranks_f, mirrors_f, "" if is_async else "; wait()"), f.file, uniq[0][0] if uniq else f.line)


def reduction_of(fns, f, depth=0):
    """((summand 'x' | 'x*x', operation name, sqrt 'param' | True | False), None) of a Gate reduction member in terms of its own first parameter, following
    sibling reductions of the same gate (one overload forwarding to another);  (None, reason) if the form is not understood.
    Forms: SynchScalarTicket(S, comm, Dist::op, sqrt) · sibling_async(S[, sqrt]) · T.wait() · sibling(S) · Math::sqrt(V)"""
    if depth > 3:
        return None, "forwarding chain too deep"
    rs = Resolver(f)
    assigned = dfl.assigned_decls(f)
    rets = [n for n in dfl.own_walk(f.body) if n.get("k") == "Return"]
    if len(rets) != 1 or rets[0].get("e") is None:
        return None, "%d return statements" % len(rets)
    xd = f.params[0]["d"]
    sqd = f.params[1]["d"] if len(f.params) > 1 else None

    def look(n):
        """through casts, single-argument copies and never-reassigned locals (named tickets / temporaries)"""
        for _ in range(12):
            n = unwrap_val(rs, n) if n is not None else None
            if n is not None and n.get("k") == "Ref" and n.get("dk") == "local" and n["d"] not in assigned:
                v = rs.var(n["d"])
                if v is not None and not v.get("ref") and v.get("init") is not None:
                    n = v["init"]
                    continue
            break
        return n

    def summand(n):
        n = look(n)
        if n is not None and n.get("k") == "Ref" and n.get("d") == xd:
            return "x"
        if n is not None and n.get("k") == "Bin" and n.get("op") == "*" and summand(n["lhs"]) == "x" and summand(n["rhs"]) == "x":
            return "x*x"
        if n is not None and n.get("k") == "Call" and strip_targs(n.get("callee", "")) in ("FEAT::Math::sqr",) and len(n.get("a", [])) == 1 and summand(n["a"][0]) == "x":
            return "x*x"
        return None

    def flag(n):
        n = look(n)
        if n is None:
            return None
        if n.get("k") == "Bool":
            return bool(n.get("v"))
        if n.get("k") == "Ref" and n.get("d") == sqd and sqd is not None:
            return "param"
        return None

    def sibling(n):
        if n.get("k") == "MCall" and (n.get("obj") is None or n["obj"].get("k") == "This") and n.get("a"):
            c = [g for g in fns.get(callee_name(n), []) if g is not f]
            if len(c) == 1 and callee_name(n) in ("sum", "min", "max", "norm2", "sum_async", "min_async", "max_async", "norm2_async"):
                return c[0]
        return None

    def compose(g, call):
        tr, why = reduction_of(fns, g, depth + 1)
        if tr is None:
            return None, "%s: %s" % (callee_name(call), why)
        s_ = summand(call["a"][0])
        if s_ is None:
            return None, "argument %s of %s not understood" % (render(call["a"][0])[:40], callee_name(call))
        if tr[0] == "x*x" and s_ != "x":
            return None, "higher powers (%s of %s)" % (callee_name(call), s_)
        sq = tr[2]
        if sq == "param":
            sq = flag(call["a"][1]) if len(call.get("a", [])) > 1 else None
            if sq is None:
                return None, "sqrt argument of %s not understood" % render(call)[:50]
        return (s_ if tr[0] == "x" else "x*x", tr[1], sq), None

    def of(n):
        n = look(n)
        if n is None:
            return None, "empty return value"
        if n.get("k") in ("Construct", "TempObj") and strip_targs(n.get("ccls", "")) == "FEAT::Global::SynchScalarTicket" and len(n.get("a", [])) == 4:
            a = {pn: x for x, pn, pt in dfl.call_args_with_params(n, f)}
            opn = look(a.get("op"))
            opname = (opn.get("qn") or opn.get("n") or "") if opn is not None and opn.get("k") == "Ref" else ""
            m = re.search(r"(op_\w+)$", opname)
            s_, sq = summand(a.get("x")), flag(a.get("sqrt"))
            if not m or s_ is None or sq is None:
                return None, "arguments of %s not understood" % render(n)[:70]
            return (s_, m.group(1), sq), None
        if n.get("k") == "MCall" and callee_name(n) == "wait" and not n.get("a") and strip_targs(n.get("ccls", "")) == "FEAT::Global::SynchScalarTicket":
            return of(n.get("obj"))
        g = sibling(n)
        if g is not None:
            return compose(g, n)
        if n.get("k") == "Call" and strip_targs(n.get("callee", "")) == "FEAT::Math::sqrt" and len(n.get("a", [])) == 1:
            tr, why = of(n["a"][0])
            if tr is None:
                return None, why
            if tr[2] is not False or tr[1] != "op_sum":
                return None, "sqrt of %s" % render(n["a"][0])[:40]
            return (tr[0], tr[1], True), None
        return None, "return value %s is not a SynchScalarTicket construction, a sibling reduction of this gate or a wait() on one (delegation not modelled)" % render(n)[:60]
    # nothing else in the function may take part in the reduction
    extra = [c for c in calls_of(f) if c.get("k") in ("Construct", "TempObj") and strip_targs(c.get("ccls", "")) == "FEAT::Global::SynchScalarTicket" and len(c.get("a", [])) == 4]
    sibs = [c for c in calls_of(f) if sibling(c) is not None]
    if len(extra) + len(sibs) != 1:
        return None, "%d ticket constructions and %d sibling reductions in one function (expected exactly one reduction)" % (len(extra), len(sibs))
    return of(rets[0]["e"])


def check_reductions(ck, facts, partial=False):
    """blocking Gate reductions wait on the async ticket of the same operation; Global::Vector::{max,min}[_abs]_element[_async]
    reduce the local value of the same name with the gate operation of the same direction"""
    for fn in facts.functions:
        if fn.tk == "pattern":
            continue
        cls = strip_targs(fn.cls)
        if cls == "FEAT::Global::Gate" and fn.name in ("sum", "min", "max", "norm2"):
            fns_ = {}
            for g_ in facts.functions:
                if g_.cls == fn.cls and g_.tk != "pattern":
                    fns_.setdefault(g_.name, []).append(g_)
            tr, why = reduction_of(fns_, fn)
            if tr is None:
                ck.incomplete("E4.gate-reduction-op", "%s::%s: %s" % (ckey(fn.cls), fn.name, why))
                continue
            want = {"sum": ("x", "op_sum", False), "min": ("x", "op_min", False), "max": ("x", "op_max", False), "norm2": ("x*x", "op_sum", True)}[fn.name]
            if tr[2] == "param":
                tr = (tr[0], tr[1], False)         # the blocking forms have no sqrt parameter: an omitted argument is the documented default (false)
            detail = [t_ % (a_, b_) for t_, a_, b_ in (("summand %s, expected %s", tr[0], want[0]), ("reduction operation Dist::%s, expected Dist::%s", tr[1], want[1]),
                                                       ("sqrt flag %s, expected %s", tr[2], want[2])) if a_ != b_]
            ck.ob("E4.gate-reduction-op", "%s::%s" % (ckey(fn.cls), fn.name), not detail, "; ".join(detail) or "waits for the reduction (%s, Dist::%s, sqrt=%s)" % want, fn.file, fn.line)
        m = re.match(r"(max|min)(_abs)?_element(_async)?$", fn.name or "")
        if cls == "FEAT::Global::Vector" and m:
            want_gate = m.group(1) + ("_async" if m.group(3) else "")
            want_local = "%s%s_element" % (m.group(1), m.group(2) or "")
            gcalls = [c for c in calls_of(fn) if c.get("k") == "MCall" and strip_targs(c.get("ccls", "")) == "FEAT::Global::Gate"]
            problems = []
            rsr = Resolver(fn)
            gcalls = [c for c in gcalls if callee_name(c) not in ("get_comm",)]
            if len(gcalls) != 1:
                ck.incomplete("E4.gate-reduction-op", "%s::%s: %d gate calls (expected one; delegation not modelled)" % (ckey(fn.cls), fn.name, len(gcalls)))
                continue
            unk = False
            for c in gcalls:
                if callee_name(c) != want_gate:
                    if re.match(r"(max|min|sum|norm2)(_async)?$", callee_name(c)):
                        problems.append("reduces with Gate::%s, expected Gate::%s" % (callee_name(c), want_gate))
                    else:
                        unk = True
                a = rsr.value(c["a"][0]) if c.get("a") else None
                if not (a is not None and a.get("k") == "MCall" and field_of(rsr, a.get("obj")) is not None):
                    unk = True
                elif callee_name(a) != want_local:
                    problems.append("reduces %s, expected the local %s() of the own vector" % (render(a), want_local))
            if unk and not problems:
                ck.incomplete("E4.gate-reduction-op", "%s::%s: reduced quantity / gate operation of %s not understood" % (ckey(fn.cls), fn.name, render(gcalls[0])[:60]))
                continue
            # the gate-less fallback returns the same local quantity
            for r_ in [n for n in dfl.own_walk(fn.body) if n.get("k") == "Return"]:
                e = r_.get("e")
                e = rsr.value(e) if e is not None else None
                if e is not None and e.get("k") == "MCall" and e not in gcalls and field_of(rsr, e.get("obj")) is not None and callee_name(e) != want_local:
                    problems.append("fallback returns local %s(), expected %s()" % (callee_name(e), want_local))
            ck.ob("E4.gate-reduction-op", "%s::%s" % (ckey(fn.cls), fn.name), not problems, "; ".join(problems) or "-> Gate::%s(local %s())" % (want_gate, want_local), fn.file, fn.line)


VEC_DELEGATE = {
    # Global::Vector method -> (gate method, arguments: 'v' = own local vector, 'x' = x.local(), True = literal true)
    "sync_0": ("sync_0", ("v",)), "sync_1": ("sync_1", ("v",)), "from_1_to_0": ("from_1_to_0", ("v",)),
    "sync_0_async": ("sync_0_async", ("v",)), "sync_1_async": ("sync_1_async", ("v",)),
    "dot": ("dot", ("v", "x")), "dot_async": ("dot_async", ("v", "x")), "norm2_async": ("dot_async", ("v", "v", True)),
}


VEC_EXPECT = dict({k: ("gate", g, a) for k, (g, a) in VEC_DELEGATE.items()},
                  norm2sqr=("gate", "dot", ("v", "v")), norm2sqr_async=("gate", "dot_async", ("v", "v")), norm2=("sqrt", ("gate", "dot", ("v", "v"))))


def vector_effect(fns, fn, depth=0):
    """(effect, None) | (None, reason) | ('bad', text): what a Global::Vector member does in terms of gate operations on (v = own local vector, x = x.local()):
    ('gate', method, args) | ('sqrt', effect).  Own members called on *this are followed (one overload / member forwarding to its sibling):
    dot(*this) == gate.dot(v, v); from_1_to_0(); sync_0() == gate.sync_1(v)."""
    if depth > 3:
        return None, "forwarding chain too deep"
    rs = Resolver(fn)
    xd = fn.params[0]["d"] if fn.params else None

    def argkind(a):
        st_ = rs.path(a).steps
        if len(st_) == 2 and st_[0] == ("this",) and st_[1][0] == "field":
            return "v"
        if xd is not None and param_local(a, xd, rs):
            return "x"
        v_ = strip_casts(rs, a)
        if v_ is not None and v_.get("k") == "Bool":
            return bool(v_.get("v"))
        if v_ is not None and v_.get("k") == "Ref" and v_.get("dk") == "param":
            return ("param", [p["d"] for p in fn.params].index(v_["d"]))
        return None

    def selfkind(a):
        """argument of a call of an own member taking `const Vector& x`:  *this -> 'v',  the own parameter x -> 'x'"""
        a = rs.value(a)
        if a is not None and ((a.get("k") == "Un" and a.get("op") == "*" and a["e"].get("k") == "This") or (a.get("k") == "OpCall" and a.get("op") == "*" and a["a"][0].get("k") == "This")):
            return "v"
        if a is not None and rs.path(a).steps == (("param", xd),):
            return "x"
        return argkind(a)
    effs = []
    for c in calls_of(fn):
        if c.get("k") != "MCall":
            continue
        if strip_targs(c.get("ccls", "")) == "FEAT::Global::Gate" and callee_name(c) not in ("get_comm",):
            ks = [argkind(a) for a in c.get("a", [])]
            if any(k_ is None for k_ in ks):
                return None, "argument list of %s not understood" % render(c)[:60]
            effs.append((c, ("gate", callee_name(c), tuple(ks))))
        elif strip_targs(c.get("ccls", "")) == "FEAT::Global::Vector" and (c.get("obj") is None or c["obj"].get("k") == "This") and callee_name(c) in VEC_EXPECT:
            g = [g_ for g_ in fns.get(callee_name(c), []) if g_ is not fn and len(g_.params) == len(c.get("a", []))]
            if len(g) != 1:
                return None, "own member %s not found" % callee_name(c)
            sub, why = vector_effect(fns, g[0], depth + 1)
            if sub is None or sub == "bad":
                return None, "own member %s: %s" % (callee_name(c), why)
            ks = [selfkind(a) for a in c.get("a", [])]
            if any(k_ is None for k_ in ks):
                return None, "argument list of %s not understood" % render(c)[:60]

            def subst(e, ks=ks):
                if e[0] == "sqrt":
                    return ("sqrt", subst(e[1]))
                out_ = []
                for k_ in e[2]:
                    if k_ == "x":
                        out_.append(ks[0] if ks else None)
                    elif isinstance(k_, tuple) and k_[0] == "param":
                        out_.append(ks[k_[1]] if k_[1] < len(ks) else None)
                    else:
                        out_.append(k_)
                return ("gate", e[1], tuple(out_))
            effs.append((c, subst(sub)))
    if not effs:
        return None, "no gate call and no call of an own member"
    # from_1_to_0 followed by a type-0 synchronisation is the type-1 synchronisation
    if len(effs) == 2 and fn.cfg is not None:
        (c1, e1), (c2, e2) = effs
        if not fn.cfg.stmt_dominates(c1["i"], c2["i"]):
            (c1, e1), (c2, e2) = (c2, e2), (c1, e1)
        if e1 == ("gate", "from_1_to_0", ("v",)) and e2[0] == "gate" and e2[1] in ("sync_0", "sync_0_async") and e2[2] == ("v",) and fn.cfg.stmt_dominates(c1["i"], c2["i"]):
            effs = [(c2, ("gate", e2[1].replace("sync_0", "sync_1"), ("v",)))]
    if len(effs) == 2 and fn.cfg is not None and all(e_[0] == "gate" for c_, e_ in effs):
        (c1, e1), (c2, e2) = effs
        if fn.cfg.stmt_dominates(c2["i"], c1["i"]):
            (c1, e1), (c2, e2) = (c2, e2), (c1, e1)
        if fn.cfg.stmt_dominates(c1["i"], c2["i"]):
            return ("seq", e1, e2), None          # two understood gate operations in sequence: not a form any member is expected to have
    if len(effs) != 1:
        return None, "%d gate / own-member calls (expected one)" % len(effs)
    c, eff = effs[0]
    # value wrappers around the call: Math::sqrt(...)
    par = dfl.parents(fn)
    cur = c
    hops = 0
    while id(cur) in par and hops < 40:
        hops += 1
        cur, slot = par[id(cur)]
        if cur.get("k") == "Call" and strip_targs(cur.get("callee", "")) == "FEAT::Math::sqrt":
            eff = ("sqrt", eff)
        elif cur.get("k") == "Var" and not cur.get("ref") and cur["d"] not in dfl.assigned_decls(fn):
            uses = [x for x in dfl.own_nodes(fn) if x.get("k") == "Ref" and x.get("d") == cur["d"]]
            if len(uses) != 1:
                break
            cur = uses[0]          # a named temporary: follow the value to its single use
        elif cur.get("k") in ("Return", "Var", "Decl", "Block", "If"):
            break
    return eff, None


def norm_effect(e):
    """drop defaulted trailing `false` arguments: dot_async(v, x, false) == dot_async(v, x)"""
    if e[0] == "sqrt":
        return ("sqrt", norm_effect(e[1]))
    if e[0] == "seq":
        return ("seq", norm_effect(e[1]), norm_effect(e[2]))
    args = list(e[2])
    while args and args[-1] is False:
        args.pop()
    return ("gate", e[1], tuple(args))


def fmt_effect(e):
    if e[0] == "sqrt":
        return "sqrt(%s)" % fmt_effect(e[1])
    if e[0] == "seq":
        return "%s; %s" % (fmt_effect(e[1]), fmt_effect(e[2]))
    return "Gate::%s(%s)" % (e[1], ", ".join(map(str, e[2])))


def check_global_vector(ck, facts):
    by_cls = {}
    for fn in facts.functions:
        if fn.tk != "pattern" and strip_targs(fn.cls) == "FEAT::Global::Vector":
            by_cls.setdefault(fn.cls, {}).setdefault(fn.name, []).append(fn)
    for fn in facts.functions:
        if fn.tk == "pattern" or strip_targs(fn.cls) != "FEAT::Global::Vector" or fn.name not in VEC_EXPECT or fn.name == "norm2sqr_async":
            continue
        key = "%s::%s" % (ckey(fn.cls), fn.name)
        want = VEC_EXPECT[fn.name]
        eff, why = vector_effect(by_cls[fn.cls], fn)
        if eff is None:
            ck.incomplete("E4.vector-delegate", "%s: %s" % (key, why))
            continue
        # a sqrt flag passed through from the own parameter list is the documented form of dot_async
        got = norm_effect(("gate", eff[1], tuple(a for a in eff[2] if not (isinstance(a, tuple) and a[0] == "param"))) if eff[0] == "gate" else eff)
        ok = got == norm_effect(want)
        ck.ob("E4.vector-delegate", key, ok, ("-> %s" % fmt_effect(got)) if ok else "does %s, expected %s" % (fmt_effect(got), fmt_effect(norm_effect(want))), fn.file, fn.line)


def check_muxer(ck, facts):
    """Muxer::join / split: child mirror i <-> slice [i*B, (i+1)*B) of the child buffer that the collective fills / sends with count B"""
    for fn in facts.functions:
        if fn.tk == "pattern" or strip_targs(fn.cls) != "FEAT::Global::Muxer" or fn.name not in ("join", "split") or fn.cfg is None:
            continue
        key = "%s::%s" % (ckey(fn.cls), fn.name)
        rs = Resolver(fn)
        par = dfl.parents(fn)
        cfg = fn.cfg
        coll_name = "gather" if fn.name == "join" else "scatter"
        colls = [c for c in calls_of(fn) if c.get("k") == "MCall" and strip_targs(c.get("ccls", "")) == "FEAT::Dist::Comm" and callee_name(c) == coll_name]
        mops = [c for c in calls_of(fn) if c.get("k") == "MCall" and strip_targs(c.get("ccls", "")) == "FEAT::LAFEM::VectorMirror" and callee_name(c) in ("gather", "scatter_axpy")
                and dfl.enclosing_loops(fn, par, c)]
        problems = []
        if len(colls) != 1 or len(mops) != 1:
            ck.incomplete("E14.muxer-slices", "%s: %d collectives, %d per-child mirror operations" % (key, len(colls), len(mops)))
            continue
        co, mo = colls[0], mops[0]
        a = {pn: x for x, pn, pt in dfl.call_args_with_params(co, fn)}
        sc, rc = field_of(rs, rs.value(a.get("sendcount"))), field_of(rs, rs.value(a.get("recvcount")))
        if sc is None or rc is None:
            ck.incomplete("E14.muxer-slices", "%s: counts (%s, %s) of the collective %s not understood" % (key, render(a.get("sendcount")), render(a.get("recvcount")), coll_name))
            continue
        if sc != rc:
            problems.append((co.get("l"), "collective %s uses counts (%s, %s): every sibling must contribute / receive the same slice length" % (coll_name, render(a.get("sendcount")), render(a.get("recvcount")))))
        B = sc
        unknown = []
        L = dfl.enclosing_loops(fn, par, mo)[-1]
        is_range = L.get("k") == "ForRange"
        lr = norm.loop_range(fn, L, par) if not is_range else None
        if (lr is None and not is_range) or (lr is not None and lr["sign"] < 0):
            ck.incomplete("E14.muxer-slices", "%s: the loop around the per-child mirror operation is neither a recognised ascending counting loop nor a range-for (%s)" % (key, render(L)[:50]))
            continue
        iv = lr["var"] if lr is not None else None
        ivn = (rs.var(iv) or {}).get("n") if iv is not None else None
        lit = lambda e_, val_: (unwrap_val(rs, e_) or {}).get("k") == "Int" and str(unwrap_val(rs, e_).get("v")) == val_

        def running(x):
            """(step node | None for 1, phase, text) of a running counter that starts at 0, else None"""
            x = unwrap_val(rs, x) if x is not None else None
            if x is None or x.get("k") != "Ref" or x.get("dk") != "local" or x["d"] not in dfl.assigned_decls(fn):
                return None
            rc_ = norm.running_counter(fn, par, L, x["d"], mo)
            if rc_ is None or not lit(rc_["start"], "0"):
                return None
            return rc_["step"], rc_["phase"], x.get("n")

        def iter_number(x):
            """x is the 0-based number of the current iteration: the index of a counting loop from 0, or a unit running counter used before its update"""
            x = unwrap_val(rs, x) if x is not None else None
            if x is not None and x.get("k") == "Ref" and iv is not None and x.get("d") == iv and lit(lr["start"], "0"):
                return True
            r_ = running(x)
            return r_ is not None and r_[1] == 0 and (r_[0] is None or lit(r_[0], "1"))
        recv = mo.get("obj")
        mst = rs.path(recv).steps
        cm = None
        if is_range:
            cm = field_of(rs, L.get("range"))
            lv_ = (L.get("var") or {}).get("d")
            if cm is None:
                unknown.append((L.get("l"), "range-for over %s, which is not a member array of child mirrors" % render(L.get("range"))))
            elif mst != (("local", lv_),):
                (problems if (mst and mst[0] == ("this",)) else unknown).append((mo.get("l"), "per-child operation executed by %s, not by the child mirror of the iteration" % render(recv)))
        elif not (len(mst) == 3 and mst[0] == ("this",) and mst[1][0] == "field" and mst[2][0] in ("call", "index") and (mst[2][0] == "index" or mst[2][1] == "at")):
            (problems if (mst and mst[0] == ("this",) and len(mst) == 2) else unknown).append((mo.get("l"), "per-child operation is not executed by an element of the child mirror array"))
        else:
            cm = mst[1][1]
            ixtext = str(mst[2][2] if mst[2][0] == "call" else mst[2][1])
            ixname = re.sub(r"^[\w:<> ]+\((\w+)\)$", r"\1", ixtext)
            ixvar = [v_ for d_, v_ in rs.vars.items() if v_.get("n") == ixname]
            if not (ixtext == ivn or ixname == ivn or (len(ixvar) == 1 and iter_number({"k": "Ref", "dk": "local", "d": ixvar[0]["d"], "n": ixname}))):
                (problems if re.match(r"^[\w\s+\-*()%:<>]+$", ixtext) else unknown).append((mo.get("l"), "child mirror subscripted with %s instead of the loop's child index" % ixtext))
        off = rs.value(dfl.arg_by_param(mo, "buffer_offset")) if dfl.arg_by_param(mo, "buffer_offset") is not None else None
        ok_off = False
        off_s = unwrap_val(rs, off) if off is not None else None
        pure = lambda e_: e_ is not None and all(x.get("k") in ("Bin", "Ref", "Int", "Member", "This", "Cast") or (x.get("k") == "MCall" and x.get("cconst")) for x in walk(e_))
        run_note = None
        # offset of child i must be i * B:  (iteration number) * B  or a running offset advanced by B after its use (closed form of the counter)
        if off_s is not None and off_s.get("k") == "Bin" and off_s.get("op") == "*":
            for x, y in ((off_s["lhs"], off_s["rhs"]), (off_s["rhs"], off_s["lhs"])):
                if iter_number(x) and field_of(rs, rs.value(y)) == B and B is not None:
                    ok_off = True
        if not ok_off and running(off_s) is not None:
            step_n, ph_, nm_ = running(off_s)
            step_ = rs.value(step_n) if step_n is not None else None
            if ph_ == 0 and step_ is not None and field_of(rs, step_) == B and B is not None:
                ok_off = True
            elif step_ is None or pure(step_):
                run_note = "running offset %s advanced by %s per child%s" % (nm_, render(step_n)[:50] if step_n is not None else "1", "" if ph_ == 0 else " before it is used")
        if not ok_off:
            understood = pure(off) and not any(x.get("k") == "Ref" and x.get("dk") == "local" and x.get("d") != iv and x.get("d") in dfl.assigned_decls(fn) for x in walk(off))
            if run_note is not None and B is not None:
                problems.append((mo.get("l"), "buffer offset of child i is not i * %s (the slice length of the collective): %s" % (B, run_note)))
                understood = None
            if understood is None:
                pass
            elif understood and B is not None:
                problems.append((mo.get("l"), "buffer offset %s of child i is not i * %s (the slice length of the collective)" % (render(off), B)))
            else:
                ck.incomplete("E14.muxer-slices", "%s: buffer offset %s of the per-child mirror operation not understood" % (key, render(off)))
                continue
        # loop range = all children (a range-for over the mirror array is complete by construction)
        bnd = unwrap_val(rs, lr["bound"]) if lr is not None else None
        st0 = unwrap_val(rs, lr["start"]) if lr is not None else None
        full = is_range or bnd is not None and bnd.get("k") == "MCall" and callee_name(bnd) == "size" and field_of(rs, bnd.get("obj")) == cm and lr["cmp"] in ("<", "!=") \
            and st0 is not None and st0.get("k") == "Int" and str(st0.get("v")) == "0"
        if not full and cm is not None:
            understood = st0 is not None and st0.get("k") == "Int" and bnd is not None and (bnd.get("k") in ("Int", "Bin") or (bnd.get("k") == "MCall" and callee_name(bnd) == "size" and field_of(rs, bnd.get("obj")) is not None))
            (problems if understood else unknown).append((L.get("l"), "the child loop does not range over all child mirrors (start %s, bound %s %s)" % (render(lr["start"]), lr["cmp"], render(lr["bound"])[:40])))
        # the buffer of the per-child operation is the array the collective fills / sends
        cb = dfl.arg_by_param(mo, "buffer")
        other = a.get("recvbuf") if fn.name == "join" else a.get("sendbuf")
        other = rs.value(other) if other is not None else None
        if cb is None or other is None or other.get("k") != "MCall":
            unknown.append((mo.get("l"), "buffers of the per-child operation / the collective not understood (%s, %s)" % (render(cb), render(other))))
        elif rs.path(other.get("obj")) != rs.path(cb):
            problems.append((mo.get("l"), "per-child mirror works on %s but the collective %s %s" % (render(cb), "fills" if fn.name == "join" else "sends", render(other))))
        if fn.name == "join":
            if not cfg.stmt_dominates(co["i"], mo["i"]):
                problems.append((mo.get("l"), "child buffers are scattered before the collective gather has filled them"))
            trg = dfl.arg_by_param(mo, "vector")
            fm = [m for m in calls_of(fn) if m.get("k") == "MCall" and callee_name(m) == "format" and trg is not None and rs.path(m.get("obj")) == rs.path(trg) and not dfl.enclosing_loops(fn, par, m)
                  and cfg.stmt_dominates(m["i"], mo["i"])]
            if not fm:
                tp_ = rs.path(trg) if trg is not None else None
                other_def = [u for u in dfl.unmodelled_mutable_uses(fn, rs, tp_, modelled=("scatter_axpy",)) if "i" in u and not cfg.stmt_dominates(mo["i"], u["i"])] if tp_ is not None and not tp_.opaque() else [None]
                (unknown if other_def else problems).append((mo.get("l"), "target vector is not formatted before the child contributions are added" + (
                    " (it is handed to %s, which is not modelled)" % render(other_def[0])[:40] if other_def and other_def[0] is not None else "")))
        else:
            # the child loop as a whole precedes the collective (the loop header dominates it, the collective is outside the loop)
            hdr = [b["id"] for b in cfg.blocks.values() if b.get("term_id") == L.get("i")]
            wco = cfg.block_of(co["i"])
            if dfl.enclosing_loops(fn, par, co) or not (hdr and wco is not None and hdr[0] in cfg.dom.get(wco[0], ())):
                problems.append((co.get("l"), "the collective scatter sends the child buffers before they are gathered"))
        if unknown and not problems:
            ck.incomplete("E14.muxer-slices", "%s: %s" % (key, "; ".join("line %s: %s" % u for u in unknown)[:300]))
            continue
        ck.ob("E14.muxer-slices", key, not problems, "; ".join("line %s: %s" % p for p in problems) or
              "child mirror i <-> slice i*%s of the child buffer; collective %s with counts (%s, %s)" % (B, coll_name, B, B), fn.file, problems[0][0] if problems else fn.line)


# =====================================================================================================
# what is sent is the state before the exchange; outputs of additive scatters are defined first
# =====================================================================================================

def mirror_ops(fn, rs):
    """[(call, 'gather'|'scatter', path of the vector/matrix operand)] of the mirror operations of a function"""
    out = []
    for c in calls_of(fn):
        if c.get("k") != "MCall" or not strip_targs(c.get("ccls", "")).startswith("FEAT::LAFEM::") or "Mirror" not in c.get("ccls", ""):
            continue
        nm = callee_name(c)
        if nm == "gather":
            v = dfl.arg_by_param(c, "vector") or dfl.arg_by_param(c, "matrix") or (c["a"][1] if len(c.get("a", [])) > 1 else None)
            if v is not None:
                out.append((c, "gather", rs.path(v)))
        elif nm == "scatter_axpy":
            v = dfl.arg_by_param(c, "vector") or dfl.arg_by_param(c, "matrix") or (c["a"][0] if c.get("a") else None)
            if v is not None:
                out.append((c, "scatter", rs.path(v)))
    return out


def check_exchange_order(ck, facts):
    """(a) E5.gather-before-scatter: in the synchronisation classes no mirror gather reads a target after a received contribution was scattered into it
           (member helpers are inlined one level);
       (b) E7.scatter-output-defined: a vector parameter of Muxer / Splitter that is only written by additive scatters (never read) is formatted / copied before"""
    by_cls = {}
    for fn in facts.functions:
        if fn.tk != "pattern" and fn.file.startswith(R("kernel/global/")) and fn.cfg is not None:
            by_cls.setdefault(fn.cls, []).append(fn)
    for cls, fns in sorted(by_cls.items()):
        base = strip_targs(cls)
        rc = ReqClass(fns)
        for fn in rc.fns:
            rs = rc.rs[id(fn)]
            cfg = fn.cfg
            ops = mirror_ops(fn, rs)
            # summaries of member helpers: which kinds of operations on which member/param-forwarded targets they perform
            helper_ops = {}
            for c in calls_of(fn):
                g = rc.helper(c)
                if g is not None:
                    hops = mirror_ops(g, rc.rs[id(g)])
                    helper_ops[c["i"]] = [(kind, p_) for _, kind, p_ in hops if p_.steps and p_.steps[0] == ("this",)]
            if base in ("FEAT::Global::SynchVectorTicket", "FEAT::Global::SynchMatrix"):
                targets = sorted({p_ for _, kind, p_ in ops if kind == "gather"} | {p_ for lst in helper_ops.values() for kind, p_ in lst if kind == "gather"}, key=repr)
                for T in targets:
                    problems = []
                    op_at = {c["i"]: kind for c, kind, p_ in ops if p_ == T}

                    def step(bid, st, T=T, op_at=op_at):
                        for e in cfg.blocks[bid]["el"]:
                            n = fn.by_id(e)
                            if n is None or not is_call(n):
                                continue
                            kinds = []
                            if n["i"] in op_at:
                                kinds = [op_at[n["i"]]]
                            elif n["i"] in helper_ops:
                                kinds = [k_ for k_, p_ in helper_ops[n["i"]] if p_ == T]
                                kinds.sort(key=lambda k_: 0 if k_ == "gather" else 1)
                            for kind in kinds:
                                if kind == "scatter":
                                    st = ("scattered", n.get("l"))
                                elif kind == "gather" and st[0] == "scattered":
                                    problems.append((n.get("l"), "%s gathers from %s after a received contribution was scatter_axpy'ed into it at line %s: the send buffer of this neighbour "
                                                     "contains another neighbour's contribution, which then arrives twice at dofs shared by three or more processes (arrival-order dependent)" % (
                                                         render(n)[:50], T, st[1])))
                        return st
                    dfl.propagate(fn, ("clean",), step)
                    uniq = []
                    for pr in problems:
                        if pr[1] not in [u[1] for u in uniq]:
                            uniq.append(pr)
                    ck.ob("E5.gather-before-scatter", "%s/%s" % (fkey(fn), T), not uniq, "; ".join("line %s: %s" % u for u in uniq) or
                          "every mirror gather reads %s before any received contribution is scattered into it (all paths, loops included)" % T, fn.file, uniq[0][0] if uniq else fn.line)
            if base in ("FEAT::Global::Muxer", "FEAT::Global::Splitter"):
                for p in fn.params:
                    t = fn.type(p["t"]).strip()
                    if not is_nonconst_ref(t) or not re.search(r"Vector", t):
                        continue
                    T = dfl.Path((("param", p["d"]),), text=p["n"])
                    scat = [c for c, kind, p_ in ops if kind == "scatter" and p_ == T]
                    if not scat:
                        continue
                    reads = [c for c, kind, p_ in ops if kind == "gather" and p_.related(T)]
                    for c in calls_of(fn):
                        for a, pn_, pt_ in dfl.call_args_with_params(c, fn):
                            if a is not dfl.receiver(c) and pt_ is not None and not is_nonconst_ref(pt_) and rs.path(a).related(T) and c not in scat:
                                reads.append(c)
                    if reads:
                        continue          # an in/out operand: its previous contents are part of the result by design
                    key = "%s/%s" % (fkey(fn), p["n"])
                    definers = ("format", "copy", "clone", "convert", "operator=")
                    doubts = []

                    def is_def(n, T=T):
                        if n.get("k") == "MCall" and callee_name(n) in definers and rs.path(n.get("obj") or {"k": "This"}) == T:
                            return True
                        if n.get("k") in ("Assign", "OpCall") and n.get("op") == "=":
                            lhs = n.get("lhs") if n.get("k") == "Assign" else n["a"][0]
                            return rs.path(lhs) == T
                        return False
                    bad = []
                    for sc in scat:
                        defs = [n for n in dfl.own_nodes(fn) if is_def(n) and "i" in n and cfg.stmt_dominates(n["i"], sc["i"])]
                        if defs:
                            continue
                        other = [u for u in dfl.unmodelled_mutable_uses(fn, rs, T, modelled=("scatter_axpy",) + definers) if "i" in u and not cfg.stmt_dominates(sc["i"], u["i"])]
                        if other:
                            doubts.append("%s may be defined by %s, which is not modelled" % (p["n"], render(other[0])[:50]))
                        elif any(is_def(n) for n in dfl.own_nodes(fn)):
                            bad.append((sc.get("l"), "a path reaches %s without %s being formatted / assigned before" % (render(sc)[:50], p["n"])))
                        else:
                            bad.append((sc.get("l"), "%s is only added to (%s) and never formatted / assigned in this function: for a re-used vector the previous contents survive "
                                        "in the result (every second and later use of the same target)" % (p["n"], render(sc)[:50])))
                    if doubts and not bad:
                        ck.incomplete("E7.scatter-output-defined", "%s: %s" % (key, "; ".join(doubts)))
                    else:
                        ck.ob("E7.scatter-output-defined", key, not bad, "; ".join("line %s: %s" % b_ for b_ in bad) or
                              "%s is formatted / assigned on every path before the %d additive scatter(s) that define it" % (p["n"], len(scat)), fn.file, bad[0][0] if bad else scat[0].get("l"))


# =====================================================================================================
# const inputs are not modified through shallow clones
# =====================================================================================================

MUT_OK_MODES = ("Deep", "Weak", "Layout", "Allocate")     # modes whose value array is private to the clone (LAFEM::CloneMode)


def check_const_alias(ck, facts):
    """T tmp = in.clone(mode) with `in` reachable from a const parameter / const this; tmp is mutated afterwards => mode must give tmp its own value array"""
    for fn in facts.functions:
        if fn.tk == "pattern" or not fn.file.startswith(R("kernel/global/")) or fn.cfg is None:
            continue
        rs = Resolver(fn)
        par = dfl.parents(fn)
        const_params = {p["d"] for p in fn.params if fn.type(p["t"]).strip().startswith("const ") and fn.type(p["t"]).strip().endswith("&")}
        this_const = bool(fn.d.get("const"))
        for d, v in rs.vars.items():
            ini = v.get("init")
            if v.get("ref") or ini is None:
                continue
            n = ini
            for _ in range(4):
                if n.get("k") in ("Construct", "TempObj") and len(n.get("a", [])) == 1:
                    n = n["a"][0]
                elif n.get("k") == "Call" and n.get("callee") in dfl.MOVE_FNS and n.get("a"):
                    n = n["a"][0]
                else:
                    break
            if not (n.get("k") == "MCall" and callee_name(n) == "clone" and len(n.get("a", [])) <= 1):
                continue
            src = rs.path(n.get("obj") or {"k": "This"})
            root = src.steps[0] if src.steps else None
            from_const = root is not None and ((root[0] == "param" and root[1] in const_params) or (root == ("this",) and this_const))
            if not from_const:
                continue
            # later mutations of the clone (or of a part obtained through a non-const accessor)
            lp = dfl.Path((("local", d),), text=v["n"])
            muts = dfl.unmodelled_mutable_uses(fn, rs, lp)
            muts = [m for m in muts if m is not ini and m is not n]
            if not muts:
                continue
            key = "%s/%s=clone(%s)" % (fkey(fn), v["n"], src)
            mode = None
            marg = n["a"][0] if n.get("a") else None
            if marg is None:
                mode = "Weak"             # documented default of every clone()
            else:
                for x in walk(marg):
                    if x.get("k") == "Ref" and x.get("dk") == "enum" and "CloneMode" in (x.get("qn") or ""):
                        mode = x["qn"].rsplit("::", 1)[-1]
            if mode is None:
                mv = rs.value(marg) if marg is not None else None
                if mv is not None and mv.get("k") == "Ref" and mv.get("dk") == "param":
                    continue          # the clone mode is a parameter of this function: which mode is admissible is the caller's contract, not decidable (nor violated) here
                ck.incomplete("E2.const-input-not-aliased", "%s: clone mode %s is not a constant; whether the clone owns its values is not decidable here" % (key, render(marg)))
                continue
            ok = mode in MUT_OK_MODES
            ck.ob("E2.const-input-not-aliased", key, ok,
                  ("%s is a %s clone of the const input %s and is modified by %s: CloneMode::%s shares the value array, so the caller's const vector is changed in place "
                   "(every call with more than one process: the input is scaled by the frequencies on each call)" % (v["n"], mode, src, render(muts[0])[:50], mode)) if not ok else
                  "%s = %s.clone(%s) owns its values; modified by %s" % (v["n"], src, mode, render(muts[0])[:50]), fn.file, n.get("l"))


# =====================================================================================================
# a global container is (gate pointer(s), local container): becoming a clone / conversion of another one transfers every part
# =====================================================================================================

def check_global_copy(ck, facts):
    """Global::{Vector, Matrix, Filter}::clone(other[, mode]) / convert(..., other): members that make *this a clone / conversion of another global container.
    The data members of the class (read from the initialiser list of its fullest constructor) are the gate pointer(s) and the local container; a member that
    takes over one of them from `other` must define ALL of them (whole-object assignment `*this = ...`, or every member assigned / cloned / converted), otherwise
    the object keeps a stale part: a Global::Vector whose local data was cloned but whose gate pointer is still null / the old one computes dot products,
    norms and synchronisations purely locally (every run with more than one process)."""
    rule = "E1.global-copy-complete"
    by_cls = {}
    for f in facts.functions:
        if f.tk != "pattern" and strip_targs(f.cls) in ("FEAT::Global::Vector", "FEAT::Global::Matrix", "FEAT::Global::Filter"):
            by_cls.setdefault(f.cls, []).append(f)
    for cls, fns in sorted(by_cls.items()):
        ctors = [f for f in fns if f.d.get("ctor") and f.d.get("inits")]
        fields = []
        for f in ctors:
            names = [i_.get("member") for i_ in f.d["inits"] if i_.get("member")]
            if len(names) > len(fields):
                fields = names
        accessor = {}
        for f in fns:
            rets = [n for n in dfl.own_walk(f.body) if n.get("k") == "Return" and n.get("e") is not None]
            if len(rets) == 1 and not f.params and this_field(rets[0]["e"]) in fields:
                accessor[f.name] = this_field(rets[0]["e"])
        base = strip_targs(cls)
        for f in fns:
            if f.name not in ("clone", "convert") or f.d.get("static") or f.cfg is None:
                continue
            others = [p_ for p_ in f.params if re.search(r"FEAT::Global::(Vector|Matrix|Filter)<", f.type(p_["t"])) and f.type(p_["t"]).strip().endswith("&")]
            if not others:
                continue
            key = "%s::%s/%d" % (ckey(cls), f.name, len(f.params))
            if not fields:
                ck.incomplete(rule, "%s: data members of the class not recognised (no constructor with an initialiser list)" % key)
                continue
            rs = Resolver(f)
            od = others[0]["d"]
            pds = {p_["d"] for p_ in f.params}

            def own_field(n):
                """data member of *this an lvalue denotes (directly or through an accessor of the class), 'ALL' for *this, else None"""
                if n is None:
                    return None
                st = rs.path(n).steps
                if st == (("this",), ("deref",)) or (n.get("k") == "Un" and n.get("op") == "*" and n["e"].get("k") == "This"):
                    return "ALL"
                if len(st) >= 2 and st[0] == ("this",):
                    if st[1][0] == "field" and st[1][1] in fields:
                        return st[1][1]
                    if st[1][0] == "call" and st[1][1] in accessor:
                        return accessor[st[1][1]]
                return None

            assigned_ = dfl.assigned_decls(f)

            def from_args(e, depth=0):
                """the value is computed from the function's arguments (through named temporaries: `Vector tmp = other.clone(mode); *this = std::move(tmp);`)"""
                if e is None or depth > 4:
                    return False
                for x in walk(e):
                    if x.get("k") == "Ref" and x.get("dk") == "param" and x.get("d") in pds:
                        return True
                    if x.get("k") == "Ref" and x.get("dk") == "local" and rs.var(x.get("d")) is not None and from_args(rs.var(x["d"]).get("init"), depth + 1):
                        return True
                return False
            written = {}
            for n in dfl.own_nodes(f):
                k = n.get("k")
                lhs = rhs = None
                if k == "Assign" and n.get("op") == "=":
                    lhs, rhs = n["lhs"], n["rhs"]
                elif k == "OpCall" and n.get("op") == "=" and len(n.get("a", [])) == 2:
                    lhs, rhs = n["a"]
                elif k == "Call" and strip_targs(n.get("callee", "") or "") == "std::swap" and len(n.get("a", [])) == 2:
                    # swap with a part of a temporary that was built from the arguments: *this's part takes the temporary's value
                    a0, a1 = n["a"]
                    if own_field(a0) is not None:
                        lhs, rhs = a0, a1
                    elif own_field(a1) is not None:
                        lhs, rhs = a1, a0
                elif k == "MCall" and not n.get("cconst") and n.get("a") and callee_name(n) in ("clone", "convert", "copy", "assign"):
                    pr_ = dfl.parents(f).get(id(n))
                    if pr_ is not None and pr_[0].get("k") in ("Block", "If", "For", "While"):
                        lhs, rhs = n.get("obj"), {"k": "Block", "s": list(n["a"])}
                if lhs is None:
                    continue
                fld = own_field(lhs)
                if fld is not None and from_args(rhs):
                    for x in (fields if fld == "ALL" else [fld]):
                        written.setdefault(x, n)
            if not written:
                continue            # not a member that takes parts over from another object
            missing = [x for x in fields if x not in written]
            opaque = [c for c in calls_of(f) if c.get("callee") not in dfl.MOVE_FNS and c.get("callee") != "FEAT::assertion" and strip_targs(c.get("callee", "") or "") != "std::swap" and (
                (c.get("k") == "MCall" and (c.get("obj") is None or c["obj"].get("k") == "This") and not c.get("cconst") and callee_name(c) not in accessor) or
                any(a_.get("k") == "This" or (a_.get("k") == "Un" and a_.get("op") == "*" and a_["e"].get("k") == "This") for a_ in c.get("a", [])) or
                dfl.lambda_body_of(rs, c) is not None)]
            if missing and opaque:
                ck.incomplete(rule, "%s: data member(s) %s are not defined directly; %s is not modelled" % (key, ", ".join(missing), render(opaque[0])[:50]))
                continue
            ck.ob(rule, key, not missing,
                  ("takes over %s from its argument(s) but leaves %s of *this unchanged (the class consists of %s): the object keeps the stale / null %s" % (
                      ", ".join(sorted(written)), ", ".join(missing), ", ".join(fields), ", ".join(missing))) if missing else
                  "every data member (%s) is defined from the arguments" % ", ".join(fields), f.file, (list(written.values())[0].get("l") if written else f.line))


# =====================================================================================================
# matrix mirrors: the column search for one buffer entry starts at the row start
# =====================================================================================================

def check_matrix_mirror_search(ck, facts):
    """LAFEM::MatrixMirror::{gather, scatter_axpy} (CSR and BCSR): for every entry (i, j) of the buffer the matching entry of the matrix row is found by a linear
    equality search over the row segment [row_ptr[r], row_ptr[r+1]).  Neither the buffer row nor the stencil need contain each other's columns (a received entry
    may be missing in the local stencil, e.g. at re-entrant corners), so every search starts at the row start: the search loop's cursor is (re)initialised per
    buffer entry with row_ptr[r] and bounded by row_ptr[r+1] of the same array and row.  A cursor that survives from the previous entry runs to the row end on the
    first miss and drops every remaining entry of that buffer row."""
    rule = "E2.search-restart"
    for fn in facts.functions:
        if fn.tk == "pattern" or strip_targs(fn.cls) != "FEAT::LAFEM::MatrixMirror" or fn.name not in ("gather", "scatter_axpy") or fn.cfg is None:
            continue
        rs = Resolver(fn)
        par = dfl.parents(fn)
        mods_ = norm._mods_of(fn)
        mt = [re.sub(r".*LAFEM::(SparseMatrix\w+)<.*", r"\1", fn.type(p_["t"])) for p_ in fn.params if "SparseMatrix" in fn.type(p_["t"])]
        nsearch = 0
        for L in dfl.own_nodes(fn):
            if L.get("k") not in ("For", "While"):
                continue
            # an equality search: if(A[cursor] == x) { ...; break; } directly in this loop
            tests = []
            for n in dfl.own_walk(L.get("body")):
                if n.get("k") == "If" and norm._strip(n["c"]) is not None and norm._strip(n["c"]).get("k") == "Bin" and norm._strip(n["c"])["op"] == "==" \
                        and any(x.get("k") == "Break" and norm._jump_loop(par, x) is L for x in walk(n["then"])):
                    tests.append(n)
            if not tests:
                continue
            nsearch += 1
            key = "MatrixMirror::%s(%s)/search#%d" % (fn.name, ",".join(mt) or "?", nsearch)
            lr = norm.loop_range(fn, L, par, mods_)
            c = norm._strip(L.get("c"))
            cur = None
            if c is not None and c.get("k") == "Bin":
                for x in (c["lhs"], c["rhs"]):
                    x = norm._strip(x)
                    if x is not None and x.get("k") == "Ref" and x.get("dk") == "local" and mods_.get(x.get("d")):
                        cur = x
            if lr is None:
                if cur is not None:
                    v = rs.var(cur["d"])
                    outer = dfl.enclosing_loops(fn, par, L)
                    decl_loops = dfl.enclosing_loops(fn, par, v) if v is not None else None
                    inits = [m_ for m_ in mods_.get(cur["d"], []) if m_.get("k") == "Assign" and m_.get("op") == "=" and outer and
                             dfl.enclosing_loops(fn, par, m_)[-1:] == outer[-1:] and "i" in m_ and "i" in L and fn.cfg.stmt_dominates(m_["i"], L["i"] if fn.cfg.block_of(L["i"]) else m_["i"])]
                    if decl_loops is not None and outer and len(decl_loops) < len(outer) and [id(x) for x in decl_loops] == [id(x) for x in outer[:len(decl_loops)]] and not inits \
                            and all(any(a_ is L for a_, s_ in dfl.enclosing_stmt_chain(par, m_)) for m_ in mods_.get(cur["d"], [])):
                        ck.ob(rule, key, False, "the search cursor %s of the loop at line %s is initialised once per %s (line %s) and not per buffer entry: each search resumes where the "
                              "previous one stopped, so after the first entry that is not in the row the cursor stays at the row end and every remaining entry of the buffer row "
                              "is skipped (an entry missing in the local stencil is an admissible input; nothing establishes that both column lists are sorted)" % (
                                  cur.get("n"), L.get("l"), "outer iteration" if decl_loops else "call", v.get("l")), fn.file, L.get("l"))
                        continue
                ck.incomplete(rule, "%s: the search loop at line %s is not a recognised counting loop over a row segment" % (key, L.get("l")))
                continue

            def seg(e):
                """(offset array path, row index text, +1?) of  P[r]  /  P[r+1]"""
                e = unwrap_val(rs, e)
                if e is None or e.get("k") not in ("Index", "OpCall"):
                    return None
                b_, ix = (e["b"], e["idx"]) if e.get("k") == "Index" else (e["a"][0], e["a"][1]) if len(e.get("a", [])) == 2 else (None, None)
                if b_ is None:
                    return None
                ixv = unwrap_val(rs, ix)
                plus = 0
                if ixv is not None and ixv.get("k") == "Bin" and ixv.get("op") == "+":
                    for u, w in ((ixv["lhs"], ixv["rhs"]), (ixv["rhs"], ixv["lhs"])):
                        wv = unwrap_val(rs, w)
                        if wv is not None and wv.get("k") == "Int" and str(wv.get("v")) == "1":
                            ixv, plus = unwrap_val(rs, u), 1
                            break
                return (rs.path(b_), render(ixv), plus)
            a, b = seg(lr["start"]), seg(lr["bound"])
            if a is None or b is None:
                ck.incomplete(rule, "%s: bounds (%s, %s) of the search loop are not of the form P[r], P[r+1]" % (key, render(lr["start"])[:30], render(lr["bound"])[:30]))
                continue
            ok = lr["sign"] > 0 and lr["cmp"] in ("<", "!=") and a[0] == b[0] and a[1] == b[1] and a[2] == 0 and b[2] == 1
            ck.ob(rule, key, ok, ("search over [%s[%s], %s[%s+1]), restarted for every buffer entry" % (a[0], a[1], a[0], a[1])) if ok else
                  "the search loop at line %s runs from %s to %s: not the row segment P[r] .. P[r+1] of one offset array and one row" % (L.get("l"), render(lr["start"])[:40], render(lr["bound"])[:40]),
                  fn.file, L.get("l"))
        # the search extracted into a helper  pos = find(col_idx, beg, end, col):  a linear equality search over [beg, end) of its parameters, called per buffer entry
        for c in calls_of(fn):
            if c.get("k") not in ("Call", "MCall") or (c.get("cfile") or "") != fn.file:
                continue
            g = norm.find_callee(fn.facts, c)
            if g is None or g is fn or g.cfg is None or len(g.params) != len(c.get("a", [])):
                continue
            gpar = dfl.parents(g)
            gm = norm._mods_of(g)
            for L in dfl.own_nodes(g):
                if L.get("k") not in ("For", "While"):
                    continue
                hit = False
                for n in dfl.own_walk(L.get("body")):
                    cn = norm._strip(n.get("c")) if n.get("k") == "If" else None
                    if cn is not None and cn.get("k") == "Bin" and cn.get("op") == "==" and any(
                            x.get("k") == "Return" or (x.get("k") == "Break" and norm._jump_loop(gpar, x) is L) for x in walk(n["then"])):
                        hit = True
                if not hit:
                    continue
                nsearch += 1
                key = "MatrixMirror::%s(%s)/search#%d" % (fn.name, ",".join(mt) or "?", nsearch)
                glr = norm.loop_range(g, L, gpar, gm)
                pidx = {p_["d"]: i_ for i_, p_ in enumerate(g.params)}
                st_, bd_ = (norm._strip(glr["start"]), norm._strip(glr["bound"])) if glr is not None else (None, None)
                if glr is None or glr["sign"] < 0 or glr["cmp"] not in ("<", "!=") or st_ is None or bd_ is None or st_.get("k") != "Ref" or bd_.get("k") != "Ref" \
                        or st_.get("d") not in pidx or bd_.get("d") not in pidx:
                    ck.incomplete(rule, "%s: the search loop of the helper %s is not a counting loop over [parameter, parameter)" % (key, callee_name(c)))
                    continue

                def seg2(e):
                    e = unwrap_val(rs, e)
                    if e is None or e.get("k") not in ("Index", "OpCall"):
                        return None
                    b_, ix = (e["b"], e["idx"]) if e.get("k") == "Index" else (e["a"][0], e["a"][1]) if len(e.get("a", [])) == 2 else (None, None)
                    if b_ is None:
                        return None
                    ixv = unwrap_val(rs, ix)
                    plus = 0
                    if ixv is not None and ixv.get("k") == "Bin" and ixv.get("op") == "+":
                        for u, w in ((ixv["lhs"], ixv["rhs"]), (ixv["rhs"], ixv["lhs"])):
                            wv = unwrap_val(rs, w)
                            if wv is not None and wv.get("k") == "Int" and str(wv.get("v")) == "1":
                                ixv, plus = unwrap_val(rs, u), 1
                                break
                    return (rs.path(b_), render(ixv), plus)
                a, b = seg2(c["a"][pidx[st_["d"]]]), seg2(c["a"][pidx[bd_["d"]]])
                if a is None or b is None:
                    ck.incomplete(rule, "%s: arguments (%s, %s) of the search helper %s are not of the form P[r], P[r+1]" % (
                        key, render(c["a"][pidx[st_["d"]]])[:30], render(c["a"][pidx[bd_["d"]]])[:30], callee_name(c)))
                    continue
                ok = a[0] == b[0] and a[1] == b[1] and a[2] == 0 and b[2] == 1
                ck.ob(rule, key, ok, ("search helper %s over [%s[%s], %s[%s+1]), called for every buffer entry" % (callee_name(c), a[0], a[1], a[0], a[1])) if ok else
                      "the search helper %s is called with the range %s .. %s: not the row segment P[r] .. P[r+1] of one offset array and one row" % (
                          callee_name(c), render(c["a"][pidx[st_["d"]]])[:40], render(c["a"][pidx[bd_["d"]]])[:40]), fn.file, c.get("l"))


# =====================================================================================================
# pack -> collective -> unpack: writer and reader of a message buffer use one layout
# =====================================================================================================

def check_pack_unpack(ck, facts):
    """Assembly::FunctionIntegralInfo (kernel/assembly/function_integral_jobs.hpp): synchronize(comm) packs the members into a buffer with _write_to(ptr, k, x), all-reduces the
    buffer and unpacks it with _read_from(ptr, k, x).  (a) For every operand type the writer and the reader overload traverse the operand identically: same loop
    extents (template dimensions; the driver instantiates non-square operands so that rows and columns differ), same subscripts of the operand relative to the loop
    variable, same number of buffer-cursor advances.  (b) synchronize() unpacks, after every collective, exactly the members it packed before it, in the same order.
    A reader that walks the columns where the writer walked the rows mis-assigns / overruns for every non-square Jacobian."""
    rule = "E2.pack-unpack-agree"
    by_cls = {}
    for fn in facts.functions:
        if fn.tk != "pattern" and strip_targs(fn.cls) == "FEAT::Assembly::FunctionIntegralInfo" and fn.name in ("_write_to", "_read_from", "synchronize") and fn.cfg is not None:
            by_cls.setdefault(fn.cls, []).append(fn)

    def const_of(rs, e, depth=0):
        e = norm._strip(rs.value(e)) if e is not None else None
        if e is None or depth > 6:
            return None
        if e.get("k") == "Int":
            return int(e["v"])
        if e.get("k") == "Ref" and e.get("v") is not None:
            try:
                return int(e["v"])
            except (TypeError, ValueError):
                return None
        if e.get("k") == "Bin" and e.get("op") in ("+", "-", "*"):
            a, b = const_of(rs, e["lhs"], depth + 1), const_of(rs, e["rhs"], depth + 1)
            if a is None or b is None:
                return None
            return a + b if e["op"] == "+" else (a - b if e["op"] == "-" else a * b)
        return None

    def shape_of(fn):
        """(normal form, reason it is not understood | None) of one pack / unpack overload: loop extents, subscripts of the operand, cursor advances"""
        rs = Resolver(fn)
        par = dfl.parents(fn)
        xd, kd = fn.params[2]["d"], fn.params[1]["d"]
        loops, why = [], None
        lvars = {}
        for L in dfl.own_nodes(fn):
            if L.get("k") in ("For", "While", "Do", "ForRange"):
                lr = norm.loop_range(fn, L, par) if L.get("k") in ("For", "While") else None
                a, b = (const_of(rs, lr["start"]), const_of(rs, lr["bound"])) if lr is not None else (None, None)
                if lr is None or a is None or b is None or lr["sign"] < 0:
                    why = "loop at line %s is not a counting loop with constant bounds" % L.get("l")
                    continue
                n_ = b + 1 - a if lr["cmp"] == "<=" else b - a
                lvars[lr["var"]] = len(loops)
                loops.append((a, n_))
        subs = set()
        for n in dfl.own_nodes(fn):
            b_ = ix = None
            if n.get("k") == "OpCall" and n.get("op") in ("[]", "()") and len(n.get("a", [])) >= 2:
                b_, ix = n["a"][0], n["a"][1:]
            elif n.get("k") == "Index":
                b_, ix = n["b"], [n["idx"]]
            if b_ is not None and rs.path(b_).steps == (("param", xd),):
                t = []
                for i_ in ix:
                    v = norm._strip(rs.value(i_))
                    t.append("#%d" % lvars[v["d"]] if v is not None and v.get("k") == "Ref" and v.get("d") in lvars else (str(const_of(rs, i_)) if const_of(rs, i_) is not None else "?"))
                subs.add(tuple(t))
        if any("?" in t for t in subs):
            why = why or "a subscript of the operand is not a loop variable / constant"
        for c in calls_of(fn):
            cal = strip_targs(c.get("callee", "") or "")
            if c.get("k") == "Call" and (cal.startswith("std::") and cal not in dfl.MOVE_FNS or cal in ("memcpy", "memmove")):
                why = why or "%s is not modelled (a standard algorithm instead of the loop)" % cal
            elif dfl.lambda_body_of(rs, c) is not None:
                why = why or "a closure is called"
        kadv = []
        for n in dfl.own_nodes(fn):
            tgt = None
            if n.get("k") == "Un" and n.get("op") in ("++",):
                tgt = n["e"]
            elif n.get("k") == "Assign" and n.get("op") == "+=" and const_of(rs, n["rhs"]) == 1:
                tgt = n["lhs"]
            if tgt is not None and rs.path(tgt).steps == (("param", kd),):
                kadv.append(len(norm.loops_around(par, n)))
        rec = sorted(callee_name(c) for c in calls_of(fn) if c.get("k") in ("Call", "MCall") and callee_name(c) == fn.name)
        return (tuple(loops), tuple(sorted(subs)), tuple(sorted(kadv)), len(rec)), why
    for cls, fns in sorted(by_cls.items()):
        ck_ = short(strip_targs(cls).replace("FEAT::", ""))
        pairs = {}
        for fn in fns:
            if fn.name in ("_write_to", "_read_from") and len(fn.params) == 3:
                t = re.sub(r"^const |\s*&$", "", fn.type(fn.params[2]["t"]).strip()).strip()
                pairs.setdefault(t, {})[fn.name] = fn
        for t, d in sorted(pairs.items()):
            key = "%s::_write_to/_read_from(%s)" % (ck_, short(t.replace("FEAT::", "")))
            if len(d) != 2:
                ck.incomplete(rule, "%s: only %s is instantiated for this operand type" % (key, ", ".join(d)))
                continue
            (sw, ww), (sr, wr_) = shape_of(d["_write_to"]), shape_of(d["_read_from"])
            if ww or wr_:
                ck.incomplete(rule, "%s: %s" % (key, ww or wr_))
                continue
            ok = sw == sr
            ck.ob(rule, key, ok, ("writer and reader traverse the operand identically: loops (start, count) %s, subscripts %s" % (list(sw[0]), list(sw[1]))) if ok else
                  "the writer traverses the operand with loops (start, count) %s, subscripts %s, %d cursor advance(s), %d nested call(s); the reader with loops %s, subscripts %s, %d, %d: what is "
                  "packed is not what is unpacked" % (list(sw[0]), list(sw[1]), len(sw[2]), sw[3], list(sr[0]), list(sr[1]), len(sr[2]), sr[3]), d["_read_from"].file, d["_read_from"].line)
        for fn in fns:
            if fn.name != "synchronize":
                continue
            key = "%s::synchronize" % ck_
            rs = Resolver(fn)
            seq = []
            for b_, pos, n in sorted(dfl.stmt_nodes_in_order(fn), key=lambda x: (x[2].get("l") or 0, x[2].get("i") or 0)):
                if not is_call(n):
                    continue
                if callee_name(n) in ("_write_to", "_read_from") and len(n.get("a", [])) == 3:
                    seq.append((callee_name(n), repr(rs.path(n["a"][2]))))
                elif strip_targs(n.get("ccls", "") or "") == "FEAT::Dist::Comm" and callee_name(n).startswith("all"):
                    seq.append(("collective", callee_name(n)))
            if dfl.enclosing_loops and any(dfl.enclosing_loops(fn, dfl.parents(fn), n) for b_, pos, n in dfl.stmt_nodes_in_order(fn) if is_call(n) and callee_name(n) in ("_write_to", "_read_from")):
                ck.incomplete(rule, "%s: members are packed / unpacked inside loops (not modelled)" % key)
                continue
            hidden = [c for c in calls_of(fn) if dfl.lambda_body_of(rs, c) is not None or (
                c.get("k") in ("Call", "MCall") and strip_targs(c.get("ccls", "") or "") == "FEAT::Assembly::FunctionIntegralInfo" and callee_name(c) not in ("_write_to", "_read_from")
                and not c.get("cconst") or (c.get("k") in ("Call", "MCall") and c.get("cstatic") and strip_targs(c.get("ccls", "") or "") == "FEAT::Assembly::FunctionIntegralInfo"
                                            and callee_name(c) not in ("_write_to", "_read_from")))]
            if hidden:
                ck.incomplete(rule, "%s: packing / unpacking may be done by %s, which is not followed here" % (key, render(hidden[0])[:50]))
                continue
            problems = []
            segs, cur = [], []
            for what, x in seq:
                if what == "collective":
                    segs.append(cur)
                    cur = []
                else:
                    cur.append((what, x))
            segs.append(cur)
            ncoll = len(segs) - 1
            for i_ in range(ncoll):
                packed = [x for what, x in segs[i_] if what == "_write_to"]
                unpacked = [x for what, x in segs[i_ + 1] if what == "_read_from"]
                if packed != unpacked:
                    problems.append((fn.line, "collective #%d: packed %s but unpacked %s" % (i_ + 1, packed, unpacked)))
            if ncoll == 0:
                ck.incomplete(rule, "%s: no collective found between packing and unpacking" % key)
                continue
            ck.ob(rule, key, not problems, "; ".join("line %s: %s" % p_ for p_ in problems)[:600] or
                  "%d collective(s); after each one exactly the members packed before it are unpacked, in the same order" % ncoll, fn.file, fn.line)


# =====================================================================================================
# two-pass mirror assembly: the counting pass and the filling pass visit the same entity dimensions
# =====================================================================================================

def check_mirror_two_pass(ck, facts):
    """Assembly::Intern::DofMirrorHelpWrapper<Space, MeshPart, dim>::{count, fill} (kernel/assembly/mirror_assembler.hpp): the mirror is allocated with count() entries and
    filled by fill(); both recurse over the entity dimensions.  Every sub-pass (wrapper of dim-1, helper of dim) that fill() executes on every path is executed by count()
    on every path as well (and vice versa): an early return in one pass that skips the current dimension's contribution — e.g. when the lower dimensions carry no dofs —
    yields a mirror that is too small / empty for spaces whose dofs sit on facets or cells only."""
    rule = "E3.mirror-two-pass"
    by_cls = {}
    for fn in facts.functions:
        if fn.tk != "pattern" and strip_targs(fn.cls) == "FEAT::Assembly::Intern::DofMirrorHelpWrapper" and fn.name in ("count", "fill") and fn.cfg is not None:
            by_cls.setdefault(fn.cls, {}).setdefault(fn.name, fn)
    for cls, d in sorted(by_cls.items()):
        dim = re.search(r", (\d+)>$", cls.strip())
        key = "DofMirrorHelpWrapper<dim %s>" % (dim.group(1) if dim else "?")
        if "count" not in d or "fill" not in d:
            ck.incomplete(rule, "%s: %s pass not instantiated" % (key, "count" if "count" not in d else "fill"))
            continue
        passes = {}
        opaque = {}
        for name, fn in d.items():
            subs = {}
            for c in calls_of(fn):
                cc = strip_targs(c.get("ccls", "") or "")
                if c.get("k") == "Call" and cc.startswith("FEAT::Assembly::Intern::DofMirror") and callee_name(c) == name:
                    mp, _ = fn.cfg.must_pass(lambda n_, c=c: n_.get("i") == c["i"])
                    dm = re.search(r", (\d+)>$", (c.get("ccls") or "").strip())
                    subs[(cc.rsplit("::", 1)[-1], dm.group(1) if dm else "?")] = (mp, c)
                elif c.get("k") in ("Call", "MCall") and c.get("callee") != "FEAT::assertion" and not c.get("cconst") and norm.find_callee(fn.facts, c) is not None:
                    opaque.setdefault(name, c)
            passes[name] = subs
        problems = []
        for a_, b_ in (("fill", "count"), ("count", "fill")):
            for sub, (mp, c) in passes[a_].items():
                if not mp:
                    continue
                other = passes[b_].get(sub)
                if other is None:
                    problems.append((d[b_].line, "%s() visits %s<dim %s> on every path, %s() never does" % (a_, sub[0], sub[1], b_)) if b_ not in opaque else (d[b_].line, "?"))
                elif not other[0]:
                    problems.append((other[1].get("l"), "%s() visits %s<dim %s> on every path, but %s() skips it on some path (early return / condition before line %s): the two passes "
                                     "disagree on the number of mirrored dofs" % (a_, sub[0], sub[1], b_, other[1].get("l"))))
        if any(p_[1] == "?" for p_ in problems):
            ck.incomplete(rule, "%s: a sub-pass of one pass has no counterpart in the other, which calls %s (not modelled)" % (key, render(list(opaque.values())[0])[:50]))
            continue
        ck.ob(rule, key, not problems, "; ".join("line %s: %s" % p_ for p_ in problems) or
              "count() and fill() visit the same sub-passes on every path: %s" % ", ".join("%s<dim %s>" % s_ for s_ in sorted(passes["fill"])), d["count"].file, problems[0][0] if problems else d["count"].line)


# =====================================================================================================
# tuple mirrors: component k of a tuple vector lives at buffer offset (own offset + sizes of the components before it), for packing AND unpacking
# =====================================================================================================

def check_tuple_mirror(ck, facts):
    """LAFEM::TupleMirror<First, Rest...>::{gather, scatter_axpy, buffer_size} (kernel/lafem/tuple_mirror.hpp — outside the anchor list, but every tuple gate packs and
    unpacks its messages through it): the sub-mirror of the first component works at the function's own buffer offset, the remaining components at
    own offset + first.buffer_size(vector.first()); buffer_size = first + rest.  gather and scatter_axpy therefore address the same buffer cells (what one process
    packs is what its neighbour unpacks).  A recursion step that drops its incoming offset is invisible for 2 components at offset 0 and wrong for >= 3 components
    and for every non-zero offset (muxer child slices)."""
    rule = "E2.tuple-mirror-layout"
    for fn in facts.functions:
        if fn.tk == "pattern" or strip_targs(fn.cls) != "FEAT::LAFEM::TupleMirror" or fn.name not in ("gather", "scatter_axpy", "buffer_size") or fn.cfg is None:
            continue
        ncomp = len(re.findall(r"VectorMirror<", fn.cls)) or fn.cls.count(",") + 1
        key = "%s::%s" % (short(re.sub(r"LAFEM::VectorMirror<[^<>]*>", "VectorMirror", fn.cls.replace("FEAT::", ""))), fn.name)
        rs = Resolver(fn)
        vecp = [p_ for p_ in fn.params if "TupleVector<" in fn.type(p_["t"])]
        offp = [p_ for p_ in fn.params if p_["n"] == "buffer_offset"] or [p_ for p_ in fn.params if re.sub(r"const |&", "", fn.type(p_["t"])).strip() in ("FEAT::Index", "unsigned long", "unsigned int")][-1:]
        if len(vecp) != 1 or (fn.name != "buffer_size" and len(offp) != 1):
            ck.incomplete(rule, "%s: tuple vector / buffer offset parameters not recognised" % key)
            continue
        vd = vecp[0]["d"]

        def part_of(n):
            """'first' | 'rest' if n is vector.first() / vector.rest() of the tuple vector parameter"""
            st = rs.path(n).steps if n is not None else ()
            if len(st) == 2 and st[0] == ("param", vd) and st[1][0] == "call" and st[1][1] in ("first", "rest"):
                return st[1][1]
            return None

        def sub_of(n):
            """name of the sub-mirror member of *this an expression denotes"""
            return field_of(rs, n)

        def terms(e, depth=0, ctx=None, use=None):
            """sum normal form: list of ('own',) | ('size', sub-mirror member, vector part) | ('int', v) | ('?', text).
            ctx = (function, resolver, {parameter decl: term list | 'vector'}) while a value-returning member helper is followed through its return expression;
            use = the call statement at which a running offset (`Index o = a; ...; o += b;`) is read"""
            f_, rs_, bind = ctx if ctx is not None else (fn, rs, None)
            e = unwrap_val(rs_, e) if e is not None else None
            if e is None or depth > 10:
                return [("?", "-")]
            if e.get("k") == "Bin" and e.get("op") == "+":
                return terms(e["lhs"], depth + 1, ctx, use) + terms(e["rhs"], depth + 1, ctx, use)
            if e.get("k") == "Ref" and e.get("dk") == "param":
                if bind is not None:
                    b_ = bind.get(e.get("d"))
                    return list(b_) if isinstance(b_, list) else [("?", render(e))]
                if offp and e.get("d") == offp[0]["d"]:
                    return [("own",)]
            if e.get("k") == "Int":
                return [] if str(e.get("v")) == "0" else [("int", str(e.get("v")))]
            if e.get("k") == "MCall" and callee_name(e) == "buffer_size" and field_of(rs_, e.get("obj")) is not None and len(e.get("a", [])) == 1:
                pa = rs_.path(e["a"][0]).steps
                vpar = vd if bind is None else next((d_ for d_, b_ in bind.items() if b_ == "vector"), None)
                if len(pa) == 2 and pa[0] == ("param", vpar) and pa[1][0] == "call" and pa[1][1] in ("first", "rest"):
                    return [("size", field_of(rs_, e["obj"]), pa[1][1])]
            if e.get("k") == "Ref" and e.get("dk") == "local" and use is not None and bind is None and e["d"] in dfl.assigned_decls(fn):
                # a running offset in straight-line code: initial value + every `+=` executed before the use
                v_ = rs.var(e["d"])
                mods_ = norm._mods_of(fn).get(e["d"], [])
                if v_ is not None and v_.get("init") is not None and all(m_.get("k") == "Assign" and m_.get("op") == "+=" and "i" in m_ for m_ in mods_) \
                        and not dfl.enclosing_loops(fn, dfl.parents(fn), use) and all(not dfl.enclosing_loops(fn, dfl.parents(fn), m_) for m_ in mods_):
                    out_ = terms(v_["init"], depth + 1, None, use)
                    for m_ in mods_:
                        if fn.cfg.stmt_dominates(m_["i"], use["i"]):
                            out_ += terms(m_["rhs"], depth + 1, None, use)
                        elif not fn.cfg.stmt_dominates(use["i"], m_["i"]):
                            return [("?", "conditional update of %s" % e.get("n"))]
                    return out_
            if e.get("k") == "MCall" and (e.get("obj") is None or e["obj"].get("k") == "This") and depth < 6:
                # a value-returning member helper: follow its return expression with the parameters bound
                g = norm.find_callee(f_.facts, e)
                ret = norm.return_expr(g) if g is not None and not g.d.get("virtual") and len(g.params) == len(e.get("a", [])) else None
                if ret is not None:
                    b2 = {}
                    for p_, a_ in zip(g.params, e["a"]):
                        pa = rs_.path(a_).steps
                        vpar = vd if bind is None else next((d_ for d_, b_ in bind.items() if b_ == "vector"), None)
                        b2[p_["d"]] = "vector" if pa == (("param", vpar),) else terms(a_, depth + 1, ctx, use)
                    return terms(ret, depth + 1, (g, Resolver(g), b2), None)
            return [("?", render(e)[:40])]
        if fn.name == "buffer_size":
            rets = [n for n in dfl.own_walk(fn.body) if n.get("k") == "Return" and n.get("e") is not None]
            t = sorted(terms(rets[0]["e"])) if len(rets) == 1 else [("?", "returns")]
            if any(x[0] == "?" for x in t):
                ck.incomplete(rule, "%s: returned size %s not understood" % (key, render(rets[0]["e"])[:60] if rets else "?"))
                continue
            parts = sorted(x[2] for x in t if x[0] == "size")
            subs = {x[1] for x in t if x[0] == "size"}
            ok = len(t) == len(parts) and parts in (["first"], ["first", "rest"]) and len(subs) == len(parts)
            ck.ob(rule, key, ok, "buffer size = %s" % " + ".join("%s.buffer_size(vector.%s())" % (x[1], x[2]) if x[0] == "size" else str(x) for x in t) +
                  ("" if ok else " — expected the sum of the sizes of every component, each by its own sub-mirror"), fn.file, fn.line)
            continue
        subcalls = [c for c in calls_of(fn) if c.get("k") == "MCall" and callee_name(c) == fn.name and sub_of(c.get("obj")) is not None]
        info = {}
        bad_shape = None
        for c in subcalls:
            va = dfl.arg_by_param(c, "vector")
            off = dfl.arg_by_param(c, "buffer_offset")
            pt_ = part_of(va)
            if pt_ is None or off is None or pt_ in info:
                bad_shape = "sub-call %s not understood" % render(c)[:70]
                break
            info[pt_] = (c, sorted(terms(off, 0, None, c)), sub_of(c.get("obj")))
        if bad_shape or not info or sorted(info) not in (["first"], ["first", "rest"]):
            ck.incomplete(rule, "%s: %s" % (key, bad_shape or "%d sub-mirror calls of the same operation (expected first [+ rest])" % len(subcalls)))
            continue
        problems, unknown = [], []
        c1, t1, s1 = info["first"]
        if any(x[0] == "?" for x in t1):
            unknown.append("offset %s of the first component not understood" % render(dfl.arg_by_param(c1, "buffer_offset"))[:50])
        elif t1 != [("own",)]:
            problems.append((c1.get("l"), "the first component is %s at offset %s instead of the function's own buffer offset" % (
                "packed" if fn.name == "gather" else "unpacked", render(dfl.arg_by_param(c1, "buffer_offset"))[:50])))
        if "rest" in info:
            c2, t2, s2 = info["rest"]
            if s2 == s1:
                problems.append((c2.get("l"), "both sub-calls are executed by the sub-mirror %s" % s1))
            if any(x[0] == "?" for x in t2):
                unknown.append("offset %s of the remaining components not understood" % render(dfl.arg_by_param(c2, "buffer_offset"))[:50])
            elif t2 != sorted([("own",), ("size", s1, "first")]):
                problems.append((c2.get("l"), "the remaining components are %s at offset %s instead of (own buffer offset + %s.buffer_size(vector.first())): with a non-zero incoming offset "
                                 "(third and later components of a tuple, muxer child slices) the data is %s where the other side does not %s it" % (
                                     "packed" if fn.name == "gather" else "unpacked", render(dfl.arg_by_param(c2, "buffer_offset"))[:70], s1,
                                     "written" if fn.name == "gather" else "read", "read" if fn.name == "gather" else "write")))
        if unknown and not problems:
            ck.incomplete(rule, "%s: %s" % (key, "; ".join(unknown)))
            continue
        ck.ob(rule, key, not problems, "; ".join("line %s: %s" % p_ for p_ in problems) or
              "first component at the own buffer offset%s" % ("; remaining components at own offset + %s.buffer_size(vector.first())" % s1 if "rest" in info else ""),
              fn.file, problems[0][0] if problems else fn.line)


# =====================================================================================================
# tuple gates: the system gate is built component by component from the component gates
# =====================================================================================================

def check_gate_tuple(ck, facts):
    """Control::Asm::build_gate_tuple(gate_sys, gate_0, ..., gate_{K-1}): for every component k
       (a) the neighbour ranks of gate_k are inserted into the set of neighbours the system mirrors are pushed for (union over ALL components),
       (b) sub-mirror at<k>() of the system mirror for neighbour `rank` is a clone of gate_k.get_mirrors()[i] under the guard gate_k.get_ranks()[i] == rank,
       (c) component at<k>() of the template vector is cloned from gate_k.get_freqs()."""
    rule = "E1.tuple-gate-components"
    for fn in facts.functions:
        if fn.tk == "pattern" or strip_targs(fn.qn) != "FEAT::Control::Asm::build_gate_tuple" or fn.cfg is None or len(fn.params) < 3:
            continue
        K = len(fn.params) - 1
        fk = "Control::Asm::build_gate_tuple/%d" % K
        rs = Resolver(fn)
        par = dfl.parents(fn)
        comp_of = {p["d"]: k for k, p in enumerate(fn.params[1:])}
        sysd = fn.params[0]["d"]
        pushes = [c for c in calls_of(fn) if c.get("k") == "MCall" and callee_name(c) == "push" and rs.path(c.get("obj")).steps == (("param", sysd),)]
        loops = dfl.enclosing_loops(fn, par, pushes[0]) if len(pushes) == 1 else []
        L = loops[-1] if loops else None
        if len(pushes) != 1 or L is None or L.get("k") != "ForRange" or not (len(rs.path(L.get("range")).steps) == 1 and rs.path(L["range"]).steps[0][0] == "local"):
            ck.incomplete(rule, "%s: the loop over the neighbour set that pushes the system mirrors is not recognised (%d push calls)" % (fk, len(pushes)))
            continue
        S = rs.path(L["range"])
        rank_d = (L.get("var") or {}).get("d")
        range_loops = {(x.get("var") or {}).get("d"): x for x in dfl.own_nodes(fn) if x.get("k") == "ForRange"}

        def gate_accessor(p_, name):
            """component index if the path is gate_k.<name>() [possibly subscripted], else None"""
            st = p_.steps
            if len(st) >= 2 and st[0][0] == "param" and st[0][1] in comp_of and st[1][0] == "call" and st[1][1] == name:
                return comp_of[st[0][1]]
            return None

        def iter_range(a0, a1):
            """path of the container of an iterator pair (c.begin(), c.end())"""
            a0, a1 = rs.value(a0), rs.value(a1)
            if a0.get("k") == "MCall" and a1.get("k") == "MCall" and callee_name(a0) in ("begin", "cbegin") and callee_name(a1) in ("end", "cend") \
                    and rs.path(a0.get("obj")) == rs.path(a1.get("obj")):
                return rs.path(a0.get("obj"))
            return None
        def const_copy_of(v):
            """through casts and never-reassigned copies of a value (`const int rk = rank;`, the by-value parameter of an inlined helper) — not through the hidden
            iterator dereference that initialises a range variable"""
            v = norm._strip(v)
            for _ in range(4):
                if v is not None and v.get("k") == "Ref" and v.get("dk") == "local" and v.get("d") not in range_loops and v["d"] not in dfl.assigned_decls(fn) \
                        and rs.var(v["d"]) is not None and not rs.var(v["d"]).get("ref") and rs.var(v["d"]).get("init") is not None:
                    v = norm._strip(rs.var(v["d"])["init"])
            return v

        def find_guard(cn, want_op="!="):
            """(component, subscript text) for  it != R.end()  with  it = std::find(R.begin(), R.end(), rank),  R = gate_k.get_ranks(): the mirror is selected where the
            ranks of gate_k equal the neighbour rank; the subscript is then  it - R.begin()"""
            if not (cn.get("k") in ("Bin", "OpCall") and cn.get("op") == want_op):
                return None
            l_, r_ = (cn["lhs"], cn["rhs"]) if cn.get("k") == "Bin" else cn["a"][:2]
            for u, v in ((l_, r_), (r_, l_)):
                uv, vv = rs.value(u), rs.value(v)
                if uv is not None and uv.get("k") == "Ref" and uv.get("dk") == "local" and rs.var(uv["d"]) is not None:
                    uv = norm._strip(rs.var(uv["d"]).get("init"))
                if uv is not None and uv.get("k") == "Call" and strip_targs(uv.get("callee", "")) == "std::find" and len(uv.get("a", [])) == 3 \
                        and vv is not None and vv.get("k") == "MCall" and callee_name(vv) in ("end", "cend"):
                    R_ = iter_range(uv["a"][0], uv["a"][1])
                    key_ = const_copy_of(uv["a"][2])
                    if R_ is not None and R_ == rs.path(vv.get("obj")) and gate_accessor(R_, "get_ranks") is not None and len(R_.steps) == 2 \
                            and key_ is not None and key_.get("k") == "Ref" and key_.get("d") == rank_d:
                        return gate_accessor(R_, "get_ranks"), "find"
            return None
        sources, unk_src = set(), []
        sv = rs.var(S.steps[0][1])
        ini = sv.get("init") if sv is not None else None
        if ini is not None and is_call(ini) and len(ini.get("a", [])) == 2:
            src = iter_range(*ini["a"])
            if src is None:
                unk_src.append("initialiser %s of the neighbour set" % render(ini)[:50])
            else:
                sources.add(src)
        for c in calls_of(fn):
            if c.get("callee") in dfl.MOVE_FNS or c is pushes[0]:
                continue
            recv = dfl.receiver(c)
            if c.get("k") == "MCall" and recv is not None and rs.path(recv) == S and not c.get("cconst"):
                a = c.get("a", [])
                src = None
                if callee_name(c) in ("insert", "emplace") and len(a) == 1:
                    v = norm._strip(a[0])
                    for _ in range(3):
                        # a const copy of the range variable (`const int rk = r;`), but not the hidden iterator dereference of the range variable itself
                        if v is not None and v.get("k") == "Ref" and v.get("dk") == "local" and v.get("d") not in range_loops and v["d"] not in dfl.assigned_decls(fn) \
                                and rs.var(v["d"]) is not None and rs.var(v["d"]).get("init") is not None:
                            v = norm._strip(rs.var(v["d"])["init"])
                    if v is not None and v.get("k") == "Ref" and v.get("d") in range_loops and any(x is range_loops[v["d"]] for x in dfl.enclosing_loops(fn, par, c)):
                        src = rs.path(range_loops[v["d"]].get("range"))
                elif callee_name(c) == "insert" and len(a) == 2:
                    src = iter_range(a[0], a[1])
                if src is None:
                    unk_src.append(render(c)[:60])
                else:
                    sources.add(src)
            elif any(a_ is not recv and pt_ is not None and is_nonconst_ref(pt_) and rs.path(a_) == S for a_, pn_, pt_ in dfl.call_args_with_params(c, fn)):
                unk_src.append(render(c)[:60])
            else:
                # a closure that touches the neighbour set (called here or handed to a callee) may insert ranks out of sight
                bodies = [b_ for b_ in [dfl.lambda_body_of(rs, c)] if b_ is not None] + [a_["body"] for a_ in c.get("a", []) if a_.get("k") == "Lambda" and a_.get("body") is not None]
                if any(p_.related(S) for b_ in bodies for p_ in dfl.lambda_touched_paths(rs, fn, b_)):
                    unk_src.append("closure called by %s" % render(c)[:40])
        src_comps = {gate_accessor(p_, "get_ranks") for p_ in sources if len(p_.steps) == 2}
        # sub-mirror and template-vector components
        mir, frq, unk_c = {}, {}, []
        for c in calls_of(fn):
            if c.get("k") != "MCall" or callee_name(c) not in ("clone", "convert", "operator=") and not (c.get("k") == "OpCall"):
                continue
            st = rs.path(c.get("obj")).steps
            if not (len(st) == 2 and st[0][0] == "local" and st[1][0] == "call" and re.match(r"at<\d+>$", st[1][1])):
                continue
            k = int(st[1][1][3:-1])
            src = rs.path(c["a"][0]) if c.get("a") else None
            if "TupleMirror" in (st[1][3] or ""):
                gk = gate_accessor(src, "get_mirrors") if src is not None else None
                guard = None
                for cnd, br in enclosing_conds(par, c):
                    cn = norm._strip(cnd)
                    fg_ = find_guard(cn) if br == "then" else None
                    if fg_ is not None:
                        guard = (fg_[0], "find")
                    if br == "else" and find_guard(cn, "==") is not None:
                        guard = (find_guard(cn, "==")[0], "find")
                    if br == "then" and cn.get("k") == "Bin" and cn.get("op") == "==":
                        for u, v in ((cn["lhs"], cn["rhs"]), (cn["rhs"], cn["lhs"])):
                            pu, vv = rs.path(u), const_copy_of(v)
                            if gate_accessor(pu, "get_ranks") is not None and vv is not None and vv.get("k") == "Ref" and vv.get("d") == rank_d:
                                guard = (gate_accessor(pu, "get_ranks"), pu.steps[2:] if len(pu.steps) > 2 else ())
                if guard is None:
                    # early exit:  if(it == R.end()) return / continue;  as an earlier statement of a block around the clone
                    for node, slot in dfl.enclosing_stmt_chain(par, c):
                        if node.get("k") == "Block" and isinstance(slot, tuple):
                            for sib in node.get("s", [])[:slot[1]]:
                                if sib.get("k") == "If" and sib.get("else") is None:
                                    body_ = [x for x in walk(sib["then"]) if x.get("k") != "Block"]
                                    if body_ and all(x.get("k") in ("Return", "InlinedReturn", "Continue", "Break") or x.get("k") in ("Bool", "Int") for x in body_) \
                                            and find_guard(norm._strip(sib["c"]), "==") is not None:
                                        guard = (find_guard(norm._strip(sib["c"]), "==")[0], "find")
                        if node.get("k") in ("For", "While", "Do", "ForRange") and node is not L:
                            break
                sub = src.steps[2:] if src is not None and len(src.steps) > 2 else ()
                sub_ix = tuple(x[1] if x[0] == "index" else x[2] for x in sub)
                g_ix = tuple(x[1] if x[0] == "index" else x[2] for x in guard[1]) if guard and guard[1] != "find" else None
                same_ = (sub_ix == g_ix) if guard and guard[1] != "find" else (None if not guard else bool(re.search(r"\bbegin\(\)|distance", " ".join(map(str, sub_ix)))) or None)
                mir.setdefault(k, []).append((c, gk, guard[0] if guard else None, same_))
            elif "TupleVector" in (st[1][3] or ""):
                frq.setdefault(k, []).append((c, gate_accessor(src, "get_freqs") if src is not None else None))
        for k in range(K):
            key = "%s/component %d" % (fk, k)
            problems, unknown = [], []
            if k not in src_comps:
                (unknown if unk_src else problems).append((fn.line, "the neighbour ranks of component gate %d (%s.get_ranks()) are never added to the neighbour set %s (sources: %s)%s: for a neighbour that only this "
                                                           "component has, no system mirror is pushed — its shared dofs are never exchanged and their frequencies are too large" % (
                                                               k, fn.params[k + 1]["n"], S, ", ".join(sorted(map(repr, sources))) or "none",
                                                               ("; not understood: " + "; ".join(unk_src)[:120]) if unk_src else "")))
            ms = mir.get(k, [])
            if len(ms) != 1:
                # definite only if nothing out of sight could fill the sub-mirror: every callee in the push loop that receives (a part of) the system mirror mutably is a recognised clone
                sysm = {rs.path(c_.get("obj")).steps[0] for lst_ in mir.values() for (c_, g1, g2, g3) in lst_}
                known_ = {id(c_) for lst_ in mir.values() for (c_, g1, g2, g3) in lst_} | {id(pushes[0])}
                hidden = [c_ for c_ in calls_of(fn) if id(c_) not in known_ and c_.get("callee") not in dfl.MOVE_FNS and any(x is L for x in dfl.enclosing_loops(fn, par, c_)) and (
                    dfl.lambda_body_of(rs, c_) is not None or any(a_.get("k") == "Lambda" for a_ in c_.get("a", [])) or
                    any(pt_ is not None and is_nonconst_ref(pt_) and rs.path(a_).steps[:1] and rs.path(a_).steps[0] in sysm for a_, pn_, pt_ in dfl.call_args_with_params(c_, fn)
                        if a_ is not dfl.receiver(c_)) or
                    (dfl.receiver(c_) is not None and not c_.get("cconst") and rs.path(dfl.receiver(c_)).steps[:1] and rs.path(dfl.receiver(c_)).steps[0] in sysm
                     and callee_name(c_) not in ("at", "empty", "clone", "convert")))]
                if len(ms) == 0 and mir and not hidden:
                    problems.append((pushes[0].get("l"), "sub-mirror at<%d>() of the system mirror never receives a mirror of component gate %d (clones go to %s)" % (
                        k, k, ", ".join("at<%d>() x%d" % (k2, len(l2)) for k2, l2 in sorted(mir.items())))))
                elif len(ms) > 1 and len({m_[1] for m_ in ms}) > 1 and not hidden:
                    problems.append((ms[1][0].get("l"), "sub-mirror at<%d>() is cloned %d times, from the mirrors of component gates %s" % (k, len(ms), sorted({str(m_[1]) for m_ in ms}))))
                else:
                    unknown.append((fn.line, "%d clones into sub-mirror at<%d>() of the system mirror (expected one)" % (len(ms), k)))
            else:
                c, gk, gg, same_ix = ms[0]
                if gk is None or gg is None:
                    unknown.append((c.get("l"), "source / guard of the clone into sub-mirror at<%d>() not understood (%s)" % (k, render(c)[:60])))
                else:
                    if gk != k:
                        problems.append((c.get("l"), "sub-mirror at<%d>() is cloned from the mirrors of component gate %d" % (k, gk)))
                    if gg != gk:
                        problems.append((c.get("l"), "the mirror of component gate %d is selected by comparing the ranks of component gate %d with the neighbour rank" % (gk, gg)))
                    elif same_ix is False:
                        problems.append((c.get("l"), "mirror and rank of component gate %d are subscripted differently in %s" % (gk, render(c)[:60])))
            fs = frq.get(k, [])
            if len(fs) != 1 or fs[0][1] is None:
                unknown.append((fn.line, "component at<%d>() of the template vector is not a recognised clone of a component gate's frequencies" % k))
            elif fs[0][1] != k:
                problems.append((fs[0][0].get("l"), "component at<%d>() of the template vector is cloned from the frequencies of component gate %d" % (k, fs[0][1])))
            if unknown and not problems:
                ck.incomplete(rule, "%s: %s" % (key, "; ".join("line %s: %s" % u for u in unknown)[:400]))
                continue
            ck.ob(rule, key, not problems, "; ".join("line %s: %s" % p_ for p_ in problems) or
                  "ranks of %s join the neighbour set; at<%d>() of the system mirror <- %s.get_mirrors()[i] where %s.get_ranks()[i] == rank; at<%d>() of the template vector <- %s.get_freqs()" % (
                      fn.params[k + 1]["n"], k, fn.params[k + 1]["n"], fn.params[k + 1]["n"], k, fn.params[k + 1]["n"]), fn.file, problems[0][0] if problems else fn.line)


# =====================================================================================================
# driver
# =====================================================================================================

def load(ck, alt=False):
    files = "|".join([R("kernel/global/"), R("kernel/lafem/vector_mirror.hpp"), R("kernel/lafem/matrix_mirror.hpp"), R("kernel/lafem/arch/mirror")])
    facts = featlib.extract("tu/c13_global_mpi.cpp", files=files, mpi=True, extra=("-DC13_ALT",) if alt else ())
    ck.tu(facts)
    return facts


def declare_rules(ck):
    ck.rule("E0.instantiate-mpi", "Gate, SynchVectorTicket, SynchScalarTicket, SynchMatrix, Muxer, Splitter, Global::{Vector,Matrix,Filter,Transfer}, VectorMirror, MatrixMirror instantiate "
            "with -DFEAT_HAVE_MPI for DenseVector / DenseVectorBlocked<2> / CSR / BCSR<2,2> (82 curated members, each one instance whether or not it type-checks): a member that does not type-check cannot synchronise anything (any caller of that member)", 82)
    ck.rule("E14.requests-completed", "typestate idle/posted of every request holder (RequestVector / Request member or local) over the CFG: requests posted by irecv/isend/iallreduce are "
            "completed by wait_all / wait / a wait_any loop left only through its false edge on every path before the function returns (constructors of ticket classes hand them "
            "to wait()); a holder is never re-posted, cleared or resized while requests of another post site may be pending. Broken => buffers are read/overwritten while MPI still "
            "owns them, for every run with at least one neighbour", 14)
    ck.rule("E14.buffers-outlive-requests", "the buffer of every posted request lives at least as long as the request: members of the ticket / synch object, or locals of a function that "
            "completes the request before returning; a request posted on the address of a by-value member is not transferred by a move operation while pending; "
            "move operations of a ticket take over every request holder together with every message buffer of the source", 30)
    ck.rule("E14.ticket-protocol", "ticket classes: wait() completes every request holder the constructor posted into on every path and then sets the completion flag; the destructor "
            "asserts that flag (or waits); move operations inherit the flag and mark the moved-from ticket finished. Broken => e.g. send requests never completed: "
            "buffers freed while messages are in flight; a moved-from ticket aborts in its destructor", 17)
    ck.rule("E14.neighbour-coherence", "inside one iteration of a neighbour loop every subscript of a per-neighbour array (ranks, mirrors, send/receive buffers, request slots, dimension "
            "arrays) is the iteration's neighbour index; the message length is taken from the buffer that is sent/received; a send buffer is filled by a mirror gather into the "
            "same buffer before isend; requests are appended unconditionally so that slot == neighbour index. Broken => data of neighbour j is unpacked with the mirror of "
            "neighbour i for every process with >= 2 neighbours", 26)
    ck.rule("E5.handler-commutes", "the body of a wait_any(idx) completion loop is exactly mirror[idx].scatter_axpy(target, receive_buffer[idx], alpha = 1) with a buffer irecv was posted on; "
            "together with E5.scatter-kernel-additive the handlers of different neighbours commute, so the arrival order cannot change the result (up to rounding)", 4)
    ck.rule("E5.scatter-kernel-additive", "Arch::Mirror::scatter_{dv,dvb,sv,svb}_generic: every store is vec[...] += alpha*buf[...] and the output array is not read otherwise; a plain "
            "assignment makes the value at a dof shared by 3+ processes depend on which neighbour message arrives last", 4)
    ck.rule("E2.gather-scatter-agree", "gather and scatter kernel of one vector kind address the same buffer cells and the same vector cells (normal forms over loop extents): what one "
            "process packs is what its neighbour unpacks (blocked vectors: block size > 1)", 4)
    ck.rule("E1.mirror-dispatch", "Arch::Mirror::{gather,scatter}_X forward their parameters unchanged, in order, to X_generic of the same name", 8)
    ck.rule("E1.mirror-roles", "VectorMirror::gather / scatter_axpy call the kernel of the matching vector kind with buf <- the DenseVector buffer, vec/vval <- the vector (the written one "
            "is the non-const parameter), idx/nidx <- this mirror, boff, alpha, bs = block size of the vector type", 8)
    ck.rule("E14.muxer-slices", "Muxer::join / split: child mirror i works on slice [i*B, (i+1)*B) of the child buffer and the collective gather/scatter uses the same B for send and receive "
            "count, the child loop covers all child mirrors, gather -> collective -> scatter order", 4)
    ck.rule("E7.matrix-apply-sync", "Global::Matrix::{apply, apply_transposed, *_async} (2- and 4-operand): exactly one local product with method parity on (r.local(), x.local()[, "
            "r.local(), alpha]); the 4-operand forms copy y and convert it to type-0 (from_1_to_0) exactly once before; the type-0 result is synchronised by r.sync_0() / the "
            "returned sync_0_async ticket on every path. Broken => every shared dof holds only the local contribution", 16)
    ck.rule("E7.gate-freqs", "Gate::compile: frequencies := 1, += 1 scattered by every mirror (buffer created by that mirror, all ones), component_invert(freqs, freqs, 1) exactly once, "
            "last, on every path. Broken => dot products / type-1 syncs weight shared dofs by the multiplicity instead of its reciprocal", 2)
    ck.rule("E7.gate-dot", "Gate::dot returns sum(freqs.triple_dot(x, y)) (frequencies exactly once) whenever the process may have neighbours, the unweighted dot only for a single "
            "process / no neighbours; dot_async = sum_async(freqs.triple_dot(x, y), sqrt)", 4)
    ck.rule("E4.gate-reduction-op", "Gate::{sum,min,max,norm2}_async build SynchScalarTicket(x | x*x, comm, op_sum | op_min | op_max | op_sum, sqrt = param | false | false | true); "
            "the blocking forms wait on the ticket of the same operation; Global::Vector::{max,min}[_abs]_element[_async] reduce the local quantity of the same name with "
            "Gate::max / Gate::min of the same direction (a max reduced with min is wrong on every run with two different local extrema)", 32)
    ck.rule("E7.gate-discipline", "Gate::from_1_to_0 = vector (*) freqs once; sync_0[_async] exchanges without scaling, sync_1[_async] scales by the frequencies exactly once before the "
            "exchange; the ticket gets (vector, comm, ranks, mirrors) of the gate and the blocking forms wait on every path", 10)
    ck.rule("E4.vector-delegate", "Global::Vector::{sync_0, sync_1, from_1_to_0, *_async, dot, dot_async, norm2_async} delegate to the gate method of the same meaning with "
            "(own local vector[, x.local()]); norm2sqr = dot(*this), norm2 = sqrt(norm2sqr)", 20)


    ck.rule("E5.gather-before-scatter", "SynchVectorTicket / SynchMatrix: on every path (loops and member helpers included) every mirror gather that packs a send buffer reads the "
            "target before any received neighbour contribution is scatter_axpy'ed into the same target. Broken => a neighbour's contribution is forwarded to a third process and "
            "counted twice at dofs shared by >= 3 processes, depending on the arrival order", 4)
    ck.rule("E7.scatter-output-defined", "Muxer / Splitter: a vector parameter that the function only writes through additive mirror scatters (scatter_axpy) and never reads is an "
            "output: it is formatted / assigned on every path before the first scatter. Broken => on the second and later use of a re-used target (Global::Transfer::_vec_tmp) the "
            "old contents are added to the result", 6)
    ck.rule("E2.const-input-not-aliased", "a local obtained as in.clone(mode) from an object reachable through a const parameter / const this and modified afterwards "
            "(from_1_to_0, sync, scale, passed as output ...) owns its value array: mode is Deep / Weak / Layout / Allocate, never Shallow (which shares the values with the const "
            "input). Broken => the caller's input vector / matrix is changed in place on every multi-process call", 6)
    ck.rule("E2.search-restart", "LAFEM::MatrixMirror::{gather, scatter_axpy} (CSR, BCSR): the linear equality search for the matrix entry that matches a buffer entry runs over the row "
            "segment [row_ptr[r], row_ptr[r+1]) and its cursor is re-initialised for every buffer entry. Broken (cursor kept across entries, 'sorted' assumption) => after the first "
            "received entry that is not in the local stencil the rest of that buffer row is dropped: type-1 matrices wrong at re-entrant corners", 4)
    ck.rule("E2.pack-unpack-agree", "Assembly::FunctionIntegralInfo (kernel/assembly/function_integral_jobs.hpp): the _write_to / _read_from overload pair of every operand type (scalar, "
            "Tiny::Vector, Matrix, Tensor3; non-square instantiations) traverses the operand identically (loop extents, subscripts, cursor advances), and synchronize() unpacks after "
            "every collective exactly the members it packed before it, in order. Broken (reader loops over n_ columns where the writer loops over m_ rows) => wrong / overrunning "
            "unpack of every non-square Jacobian after the all-reduce", 8)
    ck.rule("E3.mirror-two-pass", "Assembly::Intern::DofMirrorHelpWrapper::{count, fill} (kernel/assembly/mirror_assembler.hpp): the counting pass and the filling pass of the mirror "
            "recursion visit the same sub-passes (wrapper of dim-1, helper of dim) on every path. Broken (count returns 0 when the lower dimensions carry no dofs) => spaces with "
            "dofs on facets / cells only get an empty mirror: nothing is synchronised", 3)
    ck.rule("E2.tuple-mirror-layout", "LAFEM::TupleMirror::{gather, scatter_axpy, buffer_size} (kernel/lafem/tuple_mirror.hpp, the packing layer of every tuple gate): the first component is "
            "packed / unpacked at the function's own buffer offset, the remaining components at own offset + first.buffer_size(vector.first()), buffer_size is the sum over all "
            "components — gather and scatter_axpy address the same buffer cells. Broken (recursion step drops the incoming offset) => wrong for tuples with >= 3 components and for "
            "every non-zero offset (muxer child slices)", 12)
    ck.rule("E1.global-copy-complete", "Global::{Vector, Matrix, Filter}::clone(other, mode) / convert(..., other): a member that makes *this a clone / conversion of another global "
            "container defines every data member of the class (gate pointer(s) and local container; read from the constructor's initialiser list) — by whole-object assignment or "
            "member by member. Broken (only the local data cloned) => the gate pointer stays null / stale: dot, norm2, max/min and sync of the clone are purely local for every "
            "run with more than one process", 6)
    ck.rule("E1.tuple-gate-components", "Control::Asm::build_gate_tuple (2 and 3 components): for every component k the ranks of gate_k join the neighbour set the system mirrors are "
            "pushed for (union over all components), sub-mirror at<k>() of the system mirror of neighbour `rank` is cloned from gate_k.get_mirrors()[i] under the guard "
            "gate_k.get_ranks()[i] == rank, and at<k>() of the template vector from gate_k.get_freqs(). Broken (a component's ranks not added) => for component spaces with different "
            "neighbour sets (facet-based / vertex-based at a cross point) the dofs shared only through that component are never exchanged", 5)
    ck.rule("E4.global-accessors", "Global::Transfer::get_mat_X forwards to the local transfer's get_mat_X (method parity)", 6)
    ck.rule("E4.global-delegate", "Global::Transfer::{prol,prol_recv,rest,rest_send,trunc,trunc_send} on the MPI parse: every path applies exactly the local operator of the same kind; "
            "the type-0 result of a restriction / truncation / prolongation is sync_0'ed on EVERY branch (with and without coarse-level muxer) before the function returns, a temporary "
            "coarse buffer goes through muxer join / split. Broken (sync only in the no-muxer branch) => with a coarse-level muxer the parent returns the joined but unsynchronised "
            "vector: dofs shared between parent patches hold only the local sum", 6)


MODELLED_MEMBERS = {m.split("/")[0] for ms in CURATED.values() for m in ms} | {
    "local", "get_comm", "get_freqs", "get_gate", "convert", "clone", "format", "copy", "clear", "component_product", "component_invert", "triple_dot",
    "wait", "sync_0", "sync_1", "join", "join_send", "split", "split_recv", "gather", "scatter_axpy", "create_buffer", "buffer_size", "_write_to", "_read_from"}


def inline_select(fn):
    """helpers that may be inlined into fn: defined in the same file and not one of the members the rules of this check model by name"""
    def select(call, g):
        return g.file == fn.file and g.name not in MODELLED_MEMBERS and not g.d.get("ctor") and not g.d.get("dtor")
    return select


def analyse(ck, facts, label):
    check_e0(ck, facts, label)
    check_requests(ck, facts)
    check_coherence(ck, facts)
    check_kernels(ck, facts)
    # rules that look at one member function at a time: if a run meets a member helper / local lambda it does not model, the run is repeated
    # with such same-file helpers inlined (parameters bound, CFG spliced); check_requests / check_coherence / check_exchange_order follow helpers themselves
    inl = norm.InlinedFacts(facts, inline_select)
    from checks import c18 as _c18
    for rule_fn in (check_global_matrix, check_gate, check_global_vector, check_reductions, check_muxer, check_const_alias, check_global_copy, check_matrix_mirror_search):
        norm.run_with_inlining(ck, rule_fn, facts, inl)
    check_exchange_order(ck, facts)
    norm.run_with_inlining(ck, _c18.check_global_transfer, facts, inl)


def run(tier):
    ck = Check("C13", tier)
    declare_rules(ck)
    facts = load(ck)
    analyse(ck, facts, "double,u64")
    try:
        fg = featlib.extract("tu/c13_gate_asm.cpp", files=R("control/asm/gate_asm.hpp") + "|" + R("kernel/lafem/tuple_mirror.hpp") + "|" + R("kernel/assembly/mirror_assembler.hpp") + "|" + R("kernel/assembly/function_integral_jobs.hpp"), mpi=True)
        ck.tu(fg)
        for e in fg.errors_outside_repo():
            ck.incomplete("E1.tuple-gate-components", "driver tu/c13_gate_asm.cpp no longer matches the API: %s:%s %s" % (e["file"], e["line"], e["msg"]))
        for e in fg.errors_in_repo()[:3]:
            ck.incomplete("E1.tuple-gate-components", "front-end error while instantiating build_gate_tuple: %s:%s %s" % (rel(e["file"]), e["line"], e["msg"]))
        norm.run_with_inlining(ck, check_gate_tuple, fg, norm.InlinedFacts(fg, inline_select))
        norm.run_with_inlining(ck, check_tuple_mirror, fg, norm.InlinedFacts(fg, inline_select))
        norm.run_with_inlining(ck, check_mirror_two_pass, fg, norm.InlinedFacts(fg, inline_select))
        norm.run_with_inlining(ck, check_pack_unpack, fg, norm.InlinedFacts(fg, inline_select))
    except featlib.AnalysisBroken as e:
        ck.incomplete("E1.tuple-gate-components", "tu/c13_gate_asm.cpp: MPI parse failed: %s" % str(e)[:200])
    if tier != "quick":
        f2 = load(ck, alt=True)
        analyse(ck, f2, "float,u32")
        for tu in ("applications/poisson_dirichlet.cpp", "kernel/util/dist.cpp"):
            try:
                f3 = featlib.extract(R(tu), files=R("kernel/global/") + "|" + R("kernel/util/dist"), mpi=True)
            except featlib.AnalysisBroken as e:
                ck.incomplete("E0.instantiate-mpi", "%s: MPI parse failed: %s" % (tu, str(e)[:200]))
                continue
            ck.tu(f3)
            errs = f3.errors_in_repo()
            ck.ob("E0.instantiate-mpi", "parse[%s]" % tu, not errs, ("%d front-end errors with -DFEAT_HAVE_MPI, first %s:%d %s" % (
                len(errs), rel(errs[0]["file"]), errs[0]["line"], errs[0]["msg"])) if errs else "repository TU parses with -DFEAT_HAVE_MPI (%d functions of kernel/global, kernel/util/dist dumped)" % len(f3.functions), None, None)
            if tu.startswith("applications/"):
                check_requests(ck, f3)
                check_coherence(ck, f3)
                inl3 = norm.InlinedFacts(f3, inline_select)
                norm.run_with_inlining(ck, check_global_matrix, f3, inl3)
                norm.run_with_inlining(ck, check_gate, f3, inl3, partial=True)
                norm.run_with_inlining(ck, check_global_vector, f3, inl3)
                norm.run_with_inlining(ck, check_reductions, f3, inl3)
    ck.assume("Dist::RequestVector::wait_any returns false only when no active request is left; wait_all / Request::wait complete their requests (kernel/util/dist.hpp, MPI 3.1 §3.7.5)")
    ck.assume("LAFEM::DenseVector / MatrixMirrorBuffer keep their element arrays on the heap, so moving the containing std::vector does not move message buffers")
    ck.assume("member calls that modify their receiver are written in statement position (house style); accessor calls whose value is used are not effects")
    return ck.finish(
        "Static rules on the MPI-enabled parse (-DFEAT_HAVE_MPI, OpenMPI headers, front end only) of tu/c13_global_mpi.cpp. Decided: (1) instantiability of the distributed classes; "
        "(2) request typestate: every posted request is completed before its buffer dies, ticket protocol constructor -> wait() -> destructor, pending requests are not moved with "
        "inline buffers; (3) per-neighbour index coherence of ranks / mirrors / buffers / request slots, message length from the same buffer, gather before isend; (4) the "
        "completion handler is scatter_axpy(buffer idx, mirror idx) and the scatter kernels only add, so arrival order cannot matter; gather/scatter kernels address the same cells; "
        "(5) type-0/type-1 discipline: Global::Matrix::apply* = local product + sync_0 on every path, Gate::dot weights by the frequencies exactly once, Gate::compile builds the "
        "reciprocal multiplicities, sync_1 scales once before the exchange, Global::Vector delegates with parity; Muxer child slices; (6) tuple gates (Control::Asm::build_gate_tuple): ranks / mirrors / frequencies of every component gate reach "
        "component k of the system gate. Refactored forms are normalised before the rules decide: hoisted pointers / running cursors / loop forms of the mirror kernels (polynomial "
        "cell addresses), sibling forwarding of Gate and Global::Vector members, conditions and local assignments along CFG paths, same-file helpers and non-generic closures inlined. NOT decided: equality with the one-process run, "
        "global dof counts, message schedules / deadlock freedom, neighbour symmetry of the halos (C12), MatrixMirror gather/scatter kernels, Splitter data movement, "
        "SynchScalarTicket with FEAT_MPI_THREAD_MULTIPLE (thread variant is not compiled in this configuration).")
