"""C13 — distributed vectors, operators and solves (kernel/global on the MPI-enabled parse).

Everything here is decided on code the baseline build never compiles: the driver tu/c13_global_mpi.cpp is parsed with
-DFEAT_HAVE_MPI against the OpenMPI headers (front end only).  Clauses (DESIGN §4 C13):
  1. E0   the distributed classes instantiate with MPI on
  2. E14  every posted request is completed before its buffer dies (typestate of request holders, ticket protocol)
  3. E14  per-neighbour coherence of ranks / mirrors / buffers / request slots inside one loop iteration
  4. E5   arrival order cannot matter: completion handler = scatter_axpy(buffer idx, mirror idx); kernels only do v[..] += ..
  5. E7   type-0 / type-1 discipline of Gate, Global::Vector, Global::Matrix
"""
import re

import featlib
from featlib import Check, walk, render, is_call, rel
import dfl
from dfl import Resolver, short, strip_targs, last_comp, callee_name, is_nonconst_ref

R = featlib.repo_path
POST_RE = re.compile(r"^FEAT::Dist::Comm::(irecv|isend|iallreduce|ibcast|igather|iscatter|iallgather|ireduce|ibarrier)$")
BUF_PARAMS = ("buffer", "sendbuf", "recvbuf")


def ckey(cls):
    c = cls or ""
    for a, b in (("VecS", "DenseVector"), ("VecB", "DenseVectorBlocked<2>"), ("MatS", "CSR"), ("MatB", "BCSR<2,2>"), ("Mir", "VectorMirror")):
        c = re.sub(r"\b%s\b" % a, b, c)
    c = short(c)
    c = re.sub(r"LAFEM::DenseVectorBlocked<(double|float), (u64|u32), (\d)>", r"DenseVectorBlocked<\3>", c)
    c = re.sub(r"LAFEM::DenseVector<(double|float)(, (u64|u32))?>", "DenseVector", c)
    c = re.sub(r"LAFEM::SparseMatrixBCSR<(double|float), (u64|u32), (\d), (\d)>", r"BCSR<\3,\4>", c)
    c = re.sub(r"LAFEM::SparseMatrixCSR<(double|float)(, (u64|u32))?>", "CSR", c)
    c = re.sub(r"LAFEM::VectorMirror<(DT|double|float), (IT|u64|u32)>", "VectorMirror", c)
    c = re.sub(r"<(double|float)>", "<DT>", c)
    return c


def fkey(fn, suffix=""):
    kind = ""
    if fn.d.get("ctor") or fn.name == "operator=":
        pts = [fn.type(p["t"]) for p in fn.params]
        if len(pts) == 1 and pts[0].rstrip().endswith("&&"):
            kind = "/move"
        elif fn.d.get("ctor"):
            kind = "/%d" % len(pts)
    elif sum(1 for g in fn.facts.functions if g.cls == fn.cls and g.name == fn.name and g.tk != "pattern") > 1:
        kind = "/%d" % len(fn.params) + ("c" if fn.d.get("const") else "")
    return "%s::%s%s%s" % (ckey(fn.cls), fn.name, kind, suffix)


def calls_of(fn):
    return [n for n in fn.nodes() if is_call(n)]


# =====================================================================================================
# clause 1: E0
# =====================================================================================================

CURATED = {
    # class (template name): members whose instantiability the property needs ("*" = every member the driver instantiates)
    "FEAT::Global::SynchVectorTicket": "*", "FEAT::Global::SynchScalarTicket": "*", "FEAT::Global::SynchMatrix": "*",
    "FEAT::Global::Gate": "*", "FEAT::Global::Muxer": "*", "FEAT::Global::Splitter": "*",
    "FEAT::Global::Vector": "*", "FEAT::Global::Matrix": "*", "FEAT::Global::Filter": "*", "FEAT::Global::Transfer": "*",
    "FEAT::LAFEM::VectorMirror": "*", "FEAT::LAFEM::MatrixMirror": "*",
}


def check_e0(ck, facts, label):
    errs = facts.errors_in_repo()
    for e in facts.errors_outside_repo():
        ck.incomplete("E0.instantiate-mpi", "driver tu/c13_global_mpi.cpp no longer matches the API: %s:%s %s" % (e["file"], e["line"], e["msg"]))
    by_fn = {}
    for e in errs:
        owner = None
        for fn in facts.functions:
            if fn.file == e["file"] and fn.line <= e["line"] <= max(fn.end, fn.line):
                if owner is None or fn.line >= owner.line:
                    owner = fn
        if owner is None:
            # functions whose body is invalid are not dumped: take the member from the instantiation stack of the diagnostic
            m = None
            for nt in e.get("notes", []):
                m = re.search(r"in instantiation of (?:member )?function(?: template specialization)? '([^']+)'", nt["msg"])
                if m:
                    break
            if m is None:
                ck.incomplete("E0.instantiate-mpi", "front-end error outside any dumped function: %s:%d %s" % (rel(e["file"]), e["line"], e["msg"]))
                continue
            by_fn.setdefault((strip_targs(m.group(1)), "", e["file"], e["line"]), []).append(e)
            continue
        by_fn.setdefault((strip_targs(owner.qn), fkey(owner).split("::", 0)[0], owner.file, owner.line), []).append(e)
    bad_classes = set()
    seen = set()
    for (qn, key, file, line), es in sorted(by_fn.items()):
        cls = qn.rsplit("::", 1)[0]
        k2 = re.sub(r"<.*>(?=::[^:]*$)", "", key)       # class template arguments do not matter for a front-end error in the pattern
        k2 = strip_targs(qn).replace("FEAT::", "") + ("/move" if key.endswith("/move") else "")
        bad_classes.add(cls)
        if k2 in seen:
            continue
        seen.add(k2)
        if cls not in CURATED:
            ck.note("E0: front-end errors in %s (not on the curated list): %s" % (k2, es[0]["msg"]))
            continue
        ck.ob("E0.instantiate-mpi", k2, False,
              "%d front-end error(s) when the member is instantiated with -DFEAT_HAVE_MPI, first: %s:%d: %s" % (len(es), rel(file), es[0]["line"], es[0]["msg"]),
              file, es[0]["line"])
    classes = sorted({fn.cls for fn in facts.functions if strip_targs(fn.cls) in CURATED and fn.tk != "pattern"})
    for cls in classes:
        n = len([fn for fn in facts.functions if fn.cls == cls and fn.tk != "pattern"])
        ck.ob("E0.instantiate-mpi", "%s[%s]" % (ckey(cls), label), True, "%d member functions instantiated with MPI on%s" % (
            n, " (members with errors are reported separately)" if strip_targs(cls) in bad_classes else ""), None, None, trivial=strip_targs(cls) in bad_classes)


# =====================================================================================================
# clause 2: every posted request is completed before its buffer dies
# =====================================================================================================

def post_sites(fn, rs, par):
    """[(post call, holder path | None, how, slot index node | None, buffer args)]"""
    out = []
    for c in calls_of(fn):
        if not POST_RE.match(strip_targs(c.get("callee", ""))):
            continue
        holder, how, slot = None, None, None
        cur = c
        for _ in range(6):
            pr = par.get(id(cur))
            if pr is None:
                break
            pn, sl = pr
            k = pn.get("k")
            if k == "Call" and pn.get("callee") in dfl.MOVE_FNS:
                cur = pn
                continue
            if k in ("Construct", "TempObj") and strip_targs(pn.get("ccls", "")) == "FEAT::Dist::Request":
                cur = pn
                continue
            if k == "MCall" and callee_name(pn) == "push_back" and sl == ("a", 0):
                holder, how = rs.path(pn.get("obj")), "push_back"
            elif k in ("OpCall", "Assign") and pn.get("op") == "=" and (sl == ("a", 1) or sl == "rhs"):
                lhs = pn["a"][0] if k == "OpCall" else pn["lhs"]
                if lhs.get("k") == "MCall" and callee_name(lhs) == "get_request":
                    holder, how, slot = rs.path(lhs.get("obj")), "slot", lhs["a"][0]
                elif lhs.get("k") == "OpCall" and lhs.get("op") == "[]":
                    holder, how, slot = rs.path(lhs["a"][0]), "slot", lhs["a"][1]
                else:
                    holder, how = rs.path(lhs), "single"
            elif k == "Var":
                holder, how = dfl.Path((("local", pn["d"]),), text=pn["n"]), "single"
            break
        bufs = [(a, p) for a, p, t in dfl.call_args_with_params(c, fn) if p in BUF_PARAMS]
        out.append((c, holder, how, slot, bufs))
    return out


def buffer_root(rs, a):
    """('field', name, inline) | ('local', d) | ('param', d) | None for a buffer pointer argument"""
    inline = False
    n = a
    if n.get("k") == "Un" and n.get("op") == "&":
        inline = True
        n = n["e"]
    p = rs.path(n)
    st = p.steps
    if not st:
        return None
    if st[0] == ("this",) and len(st) > 1 and st[1][0] == "field":
        return ("field", st[1][1], inline and len(st) == 2)
    if st[0][0] in ("local", "param"):
        return (st[0][0], st[0][1], False)
    return None


def wait_any_loop(fn, cfg, bid):
    """(holder expr, idx decl) if block bid's terminating condition is H.wait_any(idx)"""
    b = cfg.blocks[bid]
    if b.get("cond") is None or len(b.get("succ", [])) != 2:
        return None
    c = fn.by_id(b["cond"])
    if c is not None and c.get("k") == "MCall" and callee_name(c) == "wait_any" and strip_targs(c.get("ccls", "")) == "FEAT::Dist::RequestVector":
        return c
    return None


def request_typestate(ck, fn, rs, par, sites, key, initial=None, allow_pending_exit=False, rule="E14.requests-completed"):
    """typestate idle/posted of every request holder touched in fn.  initial: dict holder path -> state at entry."""
    cfg = fn.cfg
    holders = {}
    for c, h, how, slot, bufs in sites:
        if h is not None:
            holders.setdefault(h, []).append(c)
    for h in (initial or {}):
        holders.setdefault(h, [])
    site_of = {c["i"]: h for c, h, how, slot, bufs in sites if h is not None}
    results = {}
    for H in holders:
        problems = []

        def step(bid, st, H=H):
            for e in cfg.blocks[bid]["el"]:
                n = fn.by_id(e)
                if n is None or not is_call(n):
                    continue
                if n["i"] in site_of and site_of[n["i"]] == H:
                    if st[0] == "posted" and st[1] != n["i"]:
                        problems.append((n.get("l"), "requests of %s are re-posted while those posted at line %s may still be pending" % (H, st[2])))
                    st = ("posted", n["i"], n.get("l"))
                    continue
                nm = callee_name(n)
                recv = dfl.receiver(n)
                if recv is None or rs.path(recv) != H:
                    continue
                if nm in ("wait_all", "wait") and len(n.get("a", [])) == 0:
                    st = ("idle",)
                elif nm in ("clear", "resize", "free", "cancel") and st[0] == "posted":
                    problems.append((n.get("l"), "%s.%s() while requests posted at line %s may still be pending" % (H, nm, st[2])))
            return st

        def edge(bid, k, st, H=H):
            w = wait_any_loop(fn, cfg, bid)
            if w is not None and rs.path(w.get("obj")) == H and k == 1:
                return ("idle",)        # wait_any returned false: no active request left (dist.hpp)
            return st

        init = (initial or {}).get(H, ("idle",))
        inn, out = dfl.propagate(fn, init, step, edge)
        exit_states = set()
        for b in cfg.normal_exit_preds():
            for st, facts in out.get(b, ()):
                exit_states.add(st[0])
                if st[0] == "posted" and not allow_pending_exit:
                    problems.append((fn.end, "a path returns while the requests of %s posted at line %s have not been completed (wait_all / exhaustive wait_any loop)" % (H, st[2])))
        # a wait_any completion loop must not be left early
        for bid in cfg.blocks:
            w = wait_any_loop(fn, cfg, bid)
            if w is None or rs.path(w.get("obj")) != H:
                continue
            loop = None
            for n in fn.nodes():
                if n.get("k") in ("For", "While") and n.get("c") is not None and n["c"].get("i") == w.get("i"):
                    loop = n
            if loop is None:
                continue
            for x in walk(loop.get("body")):
                if x.get("k") in ("Break", "Return"):
                    problems.append((x.get("l"), "the wait_any completion loop of %s is left by %s before all requests are consumed" % (H, x["k"].lower())))
        uniq = []
        for pr in problems:
            if pr[1] not in [u[1] for u in uniq]:
                uniq.append(pr)
        results[H] = (uniq, exit_states)
        ck.ob(rule, "%s/%s" % (key, H), not uniq, "; ".join("line %s: %s" % pr for pr in uniq) or
              ("%d post site(s); " % len(holders[H]) if holders[H] else "requests posted by the constructor; ") + "every path %s" % ("leaves the requests to the ticket's wait()" if allow_pending_exit and "posted" in exit_states else "completes them before returning"),
              fn.file, uniq[0][0] if uniq else fn.line)
    return results


def check_requests(ck, facts):
    by_cls = {}
    for fn in facts.functions:
        if fn.tk == "pattern" or not fn.file.startswith(R("kernel/global/")):
            continue
        by_cls.setdefault(fn.cls, []).append(fn)
    for cls, fns in sorted(by_cls.items()):
        posting = []
        for fn in fns:
            if fn.cfg is None:
                continue
            rs = Resolver(fn)
            par = dfl.parents(fn)
            sites = post_sites(fn, rs, par)
            if sites:
                posting.append((fn, rs, par, sites))
        if not posting:
            continue
        waits = [f for f in fns if f.name == "wait"]
        dtors = [f for f in fns if f.d.get("dtor")]
        is_ticket = bool(waits) and any(fn.d.get("ctor") for fn, _, _, _ in posting)
        field_holders = {}
        inline_bufs = []
        for fn, rs, par, sites in posting:
            key = fkey(fn)
            for c, h, how, slot, bufs in sites:
                if h is None:
                    ck.incomplete("E14.requests-completed", "%s: the request returned by %s is not stored in a recognisable holder" % (key, render(c)[:60]))
            in_ctor = bool(fn.d.get("ctor")) and is_ticket
            res = request_typestate(ck, fn, rs, par, sites, key, allow_pending_exit=in_ctor)
            for c, h, how, slot, bufs in sites:
                for a, pname in bufs:
                    br = buffer_root(rs, a)
                    pend = h is not None and h in res and "posted" in res[h][1]
                    if br is None:
                        ck.incomplete("E14.buffers-outlive-requests", "%s: buffer %s of %s not understood" % (key, render(a)[:60], render(c)[:40]))
                        continue
                    if br[0] == "local" and pend:
                        ck.ob("E14.buffers-outlive-requests", "%s/%s" % (key, render(a)[:50]), False,
                              "buffer %s is a local of the function but the request may still be pending when the function returns" % render(a)[:60], fn.file, c.get("l"))
                    else:
                        ck.ob("E14.buffers-outlive-requests", "%s/%s:%s" % (key, callee_name(c), render(a)[:50]), True,
                              "buffer lives in %s; requests %s" % ({"field": "a member of the object", "local": "a local", "param": "caller storage"}[br[0]],
                                                                   "are completed by wait()" if pend else "are completed before the function returns"), fn.file, c.get("l"))
                    if br[0] == "field" and br[2]:
                        inline_bufs.append((br[1], h))
                if h is not None and h.steps and h.steps[0] == ("this",) and in_ctor:
                    field_holders[h] = ("posted", -1, c.get("l"))
        if not is_ticket:
            continue
        # ---- ticket protocol: wait() completes what the constructor posted, and sets the finished flag ----------
        clsk = ckey(cls)
        if len(waits) != 1 or len(dtors) != 1:
            ck.incomplete("E14.ticket-protocol", "%s: %d wait() / %d destructor definitions" % (clsk, len(waits), len(dtors)))
            continue
        w = waits[0]
        rsw, parw = Resolver(w), dfl.parents(w)
        # holders are compared by their steps: re-create with the resolver of wait()
        res = request_typestate(ck, w, rsw, parw, post_sites(w, rsw, parw), fkey(w), initial=field_holders, rule="E14.ticket-protocol")
        # finished flag: the bool field the destructor asserts
        d = dtors[0]
        flag = None
        how = None
        for c in calls_of(d):
            if c.get("callee") == "FEAT::assertion" and c.get("a"):
                e = c["a"][0]
                if e.get("k") == "Member" and e.get("field"):
                    flag, how = e["n"], "asserts"
        for n in walk(d.body):
            if n.get("k") == "If":
                cnd = n["c"]
                if cnd.get("k") == "Un" and cnd.get("op") == "!" and cnd["e"].get("k") == "Member" and any(is_call(x) and callee_name(x) == "wait" for x in walk(n["then"])):
                    flag, how = cnd["e"]["n"], "waits"
        ck.ob("E14.ticket-protocol", "%s::~dtor" % clsk, flag is not None,
              ("the destructor %s on the completion flag '%s': an unfinished ticket cannot be destroyed silently" % (how, flag)) if flag else
              "the destructor neither asserts the completion flag nor waits: buffers of pending requests are freed", d.file, d.line)
        if flag is not None:
            def sets_flag(n, flag=flag):
                return n.get("k") == "Assign" and n.get("op") == "=" and n["lhs"].get("k") == "Member" and n["lhs"].get("n") == flag and n["rhs"].get("k") == "Bool" and n["rhs"].get("v")
            mp, bad = w.cfg.must_pass(sets_flag)
            ck.ob("E14.ticket-protocol", "%s::wait/sets-%s" % (clsk, flag), mp, "every normal return of wait() sets %s = true" % flag if mp else
                  "a path returns from wait() without setting %s" % flag, w.file, w.line)
            # the flag is set only after completion: state at the assignment must be idle (checked through the exit states:
            # nothing re-posts after it) -> covered by the typestate above
        # ---- inline buffers and move operations ---------------------------------------------------------
        for f in fns:
            if not ((f.d.get("ctor") or f.name == "operator=") and len(f.params) == 1 and f.type(f.params[0]["t"]).rstrip().endswith("&&")):
                continue
            moved = set()
            srcs = [i.get("init") for i in (f.d.get("inits") or [])] + [f.body]
            for ini in (f.d.get("inits") or []):
                if any(x.get("k") == "Member" and x.get("n") == ini.get("member") and x.get("b") is not None and x["b"].get("k") != "This" for x in walk(ini.get("init"))):
                    moved.add(ini.get("member"))
            for n in walk(f.body):
                if n.get("k") in ("Assign", "OpCall") and n.get("op") == "=":
                    lhs = n.get("lhs") if n.get("k") == "Assign" else n["a"][0]
                    if lhs.get("k") == "Member" and (lhs.get("b") is None or lhs["b"].get("k") == "This"):
                        moved.add(lhs["n"])
            waits_first = any(is_call(x) and callee_name(x) in ("wait", "wait_all") for x in walk(f.body))
            hs = {}
            for bname, h in inline_bufs:
                hname = h.steps[1][1] if h is not None and len(h.steps) > 1 else None
                hs.setdefault(hname, []).append(bname)
            for hname, bnames in hs.items():
                bad = hname in moved and not waits_first
                ck.ob("E14.buffers-outlive-requests", "%s/pending-request-moved" % fkey(f), not bad,
                      ("the request %s is posted with the addresses of the by-value members %s; the move operation transfers the pending request to another object without "
                       "completing it, but the MPI library keeps reading / writing the moved-from object's members: the new ticket's wait() returns the value copied at "
                       "move time, and the moved-from storage may be dead when the reduction completes" % (hname, ", ".join(sorted(set(bnames))))) if bad else
                      "request holder is not transferred while pending", f.file, f.line)


# =====================================================================================================
# driver
# =====================================================================================================

def load(ck, alt=False):
    files = "|".join([R("kernel/global/"), R("kernel/lafem/vector_mirror.hpp"), R("kernel/lafem/matrix_mirror.hpp"), R("kernel/lafem/arch/mirror")])
    facts = featlib.extract("tu/c13_global_mpi.cpp", files=files, mpi=True, extra=("-DC13_ALT",) if alt else ())
    ck.tu(facts)
    return facts


def declare_rules(ck):
    ck.rule("E0.instantiate-mpi", "w", 1)
    ck.rule("E14.requests-completed", "w", 1)
    ck.rule("E14.buffers-outlive-requests", "w", 1)
    ck.rule("E14.ticket-protocol", "w", 1)


def run(tier):
    ck = Check("C13", tier)
    declare_rules(ck)
    facts = load(ck)
    check_e0(ck, facts, "double,u64")
    check_requests(ck, facts)
    return ck.finish("wip")
