"""C12 — partitions and halos (deliberately narrow).

Decided with the index-kind engine of lib/ikinds.py (E2) plus a few path/table rules:
  1. index spaces are not confused in the patch / halo factories (patch entity vs base-mesh entity vs
     rank vs element indices; graph algebra of RootMeshNode::extract_patch),
  2. the built-in partitioners define their elements-at-rank graph completely and report success
     only under their own size checks,
  3. halo index lists that are later merged / sent to the neighbour are ascending by construction.
NOT decided (stated in the evidence): equality of the halo sets of two neighbouring ranks, symmetry and
completeness of the neighbour relation, survival under refinement, the std::map based splitter
(PatchPartMap), the merge in PatchHaloSplitPart::intersect beyond its ordering precondition.
"""
import re

import featlib
from featlib import Check, render, walk, children
import ikinds
import norm_c12
from ikinds import (Contracts, FnKinds, FunctionIndex, Lin, Rng, Top, strip, _subscript, _is_incdec, coverage, frames_key, elsewhere)

GEO = featlib.repo_path("kernel/geometry/")
FILES = GEO + r"(patch_|parti_|partition_set|mesh_node|mesh_part\.hpp|intern/patch_index|intern/target_set_computer)|" + featlib.repo_path("kernel/adjacency/graph.hpp")
G = r"Adjacency::Graph$"


def shape_dim(s):
    m = re.search(r"Shape::(Hypercube|Simplex)<(\d)>", s or "")
    if m:
        return int(m.group(2))
    if "Shape::Vertex" in (s or ""):
        return 0
    return None


def halo_build_dims(cls):
    """PatchHaloBuild<Shape, codim> -> (shape dim, face dim)"""
    m = re.search(r"PatchHaloBuild<FEAT::Shape::(?:Hypercube|Simplex)<(\d)>, (\d)>", cls or "")
    if not m:
        return None
    sd, cd = int(m.group(1)), int(m.group(2))
    return sd, sd - cd


def num_entities_atom(fk, okey, call):
    ccls = call.get("ccls") or ""
    if re.search(r"Geometry::TargetSet$", ccls):
        return Lin.atom("N(%s)" % okey)
    if re.search(r"Geometry::IndexSet<\d+>$", ccls):
        return Lin.atom("Dom(%s)" % okey)
    return None


def graph_dom(fk, okey, call):
    a = fk.arrs.get(okey + "._domain_ptr")
    if a is not None and a.extent is not None and a.fresh and not a.cond:
        return a.extent - 1
    return Lin.atom("Dom(%s)" % okey)


def num_elements_atom(fk, okey, call):
    sd = shape_dim(call.get("ccls"))
    if sd is None:
        return None
    return Lin.atom("Ent(%s,%d)" % (okey, sd))


def contracts():
    ct = Contracts()
    ct.size_methods = {"get_num_nodes_domain": graph_dom, "get_num_nodes_image": "Img({o})", "get_num_indices": "NZ({o})",
                       "get_num_entities": num_entities_atom, "get_index_bound": "Img({o})", "get_num_vertices": "NV({o})",
                       "get_num_elements": num_elements_atom}
    # target_set[i]: "index of the parent entity"; i < get_num_entities()   (target_set.hpp)
    ct.obj_arrays = {r"Geometry::TargetSet$": ("N({o})", "Par({o})"),
                     r"Geometry::VertexSet<.*>$": ("NV({o})", None)}
    # index_set(i, j): i < get_num_entities(), value < get_index_bound()   (index_set.hpp)
    ct.value_calls = {r"Geometry::IndexSet<\d+>::operator\(\)": ("i", "Dom({o})", "Img({o})")}
    # target_set.get_indices(): "pointer to the target index array" = the array target_set[.] subscripts   (target_set.hpp)
    ct.array_methods = {(r"Geometry::TargetSet$", "get_indices"): ("N({o})", "Par({o})")}
    ct.array_fields = {(G, "_domain_ptr"): (("Dom({o})", 1), ("NZ({o})", 1), True),
                       (G, "_image_idx"): ("NZ({o})", "Img({o})", False)}
    ct.ctor_sizes = {r"Adjacency::Graph::Graph$": {"num_nodes_domain": "Dom({o})", "num_nodes_image": "Img({o})", "num_indices_image": "NZ({o})"}}
    ct.offset_keys = r"\._domain_ptr$"

    def has_face_rank_param(fk, o, call):
        d = halo_build_dims(call.get("ccls"))
        return Lin.atom("BaseEnt(%d)" % d[1]) if d else None
    ct.index_params = {(r"PatchHaloBuild<.*>::_has_face_rank$", "base_face"): has_face_rank_param}
    ct.param_arrays = {
        # PatchIndexMappingHelper::apply(iso, isi, tsc, tsf): tsf = inverse target map of the faces: one entry per base face
        (r"PatchIndexMappingHelper::apply", "tsf"): ("Img(isi)", None),
    }
    ct.ctor_hook = ctor_hook
    return ct


RENDER = {"as_is": (False, False), "as_is_sorted": (False, False), "injectify": (False, True), "injectify_sorted": (False, True),
          "transpose": (True, False), "transpose_sorted": (True, False), "injectify_transpose": (True, True), "injectify_transpose_sorted": (True, True)}


def adj_atoms(fk, key):
    """domain / image size of an adjactor object; index sets of a mesh M get the entity counts of M"""
    m = re.search(r"^(.*)\.get_index_set<(\d+),(\d+)>\(\)$", key or "")
    if m:
        holder = m.group(1)
        holder = re.sub(r"\.get_index_set_holder\(\)$", "", holder)
        return Lin.atom("Ent(%s,%s)" % (holder, m.group(2))), Lin.atom("Ent(%s,%s)" % (holder, m.group(3)))
    return Lin.atom("Dom(%s)" % key), Lin.atom("Img(%s)" % key)


def ctor_hook(fk, okey, cons, node):
    """Graph(render_type, a[, b]): domain/image of the result from the render type; composites need Img(a) == Dom(b)"""
    callee = cons.get("callee") or ""
    if callee.endswith("Adjacency::Graph::Graph") and cons.get("pn") and cons["pn"][0] == "render_type":
        rt = strip(cons["a"][0])
        name = (rt.get("qn") or rt.get("n") or "").rsplit("::", 1)[-1]
        if name not in RENDER:
            fk.unk("render type %s is not a constant" % render(rt), cons)
            return
        transposed = RENDER[name][0]
        ops = [fk.okey(a) for a in cons["a"][1:]]
        if any(o is None for o in ops):
            fk.unk("adjactor operand of the rendered graph %s not nameable" % okey, cons)
            return
        d0, i0 = adj_atoms(fk, ops[0])
        d1, i1 = adj_atoms(fk, ops[-1])
        dom, img = (fk.norm(d0), fk.norm(i1))
        if len(ops) == 2:
            ia, db = fk.norm(adj_atoms(fk, ops[0])[1]), fk.norm(adj_atoms(fk, ops[1])[0])
            fk.ev("compose", cons, obj=okey, ops=ops, left_img=ia, right_dom=db, ok=(ia == db), render=name)
        if transposed:
            dom, img = img, dom
        fk.unify(Lin.atom("Dom(%s)" % okey), dom, "render %s" % name)
        fk.unify(Lin.atom("Img(%s)" % okey), img, "render %s" % name)
        fk.ev("render", cons, obj=okey, ops=ops, render=name, dom=dom, img=img)
    m = re.search(r"Geometry::PatchHaloFactory<.*>::PatchHaloFactory$", callee)
    if m and cons.get("pn") and cons["pn"][:2] == ["ranks_at_elem", "base_mesh"]:
        g = fk.okey(cons["a"][0])
        mesh = fk.okey(cons["a"][1])
        sd = shape_dim(callee)
        if g is not None and mesh is not None and sd is not None:
            got = fk.norm(adj_atoms(fk, g)[0])
            want = fk.norm(Lin.atom("Ent(%s,%d)" % (mesh, sd)))
            fk.ev("role-arg", cons, callee=callee, param="ranks_at_elem", arg=g, got=got, want=want, ok=(got == want))


def seed(fk):
    fn = fk.fn
    cls = fn.cls or ""
    d = halo_build_dims(cls)
    if d is not None and fn.name in ("build", "_has_face_rank"):
        sd, fd = d
        # class invariant established by the constructor (rule E1.member-binding): _target_face is the patch part's target set of
        # dimension fd (patch entity -> base entity), _elem_at_face the transposed base index set <sd,fd> (base face -> base cells);
        # ranks_at_elem is indexed by base-mesh elements
        fk.unify(Lin.atom("Par(this._target_face)"), Lin.atom("BaseEnt(%d)" % fd), "PatchHaloBuild: target set of the patch mesh part")
        if sd != fd:
            fk.unify(Lin.atom("Dom(this._elem_at_face)"), Lin.atom("BaseEnt(%d)" % fd), "PatchHaloBuild: transposed index set <%d,%d>" % (sd, fd))
            fk.unify(Lin.atom("Img(this._elem_at_face)"), Lin.atom("BaseEnt(%d)" % sd), "PatchHaloBuild: transposed index set <%d,%d>" % (sd, fd))
        if fn.param("ranks_at_elem"):
            fk.unify(Lin.atom("Dom(ranks_at_elem)"), Lin.atom("BaseEnt(%d)" % sd), "ranks-at-elem graph: one node per base-mesh element")
        if fn.name == "_has_face_rank":
            fk.ct_param_range = ("base_face", Lin.atom("BaseEnt(%d)" % fd))
    if re.search(r"Intern::PatchInvMap$", cls) and fn.name in ("build", "split"):
        # pim: patch inverse map with one entry per base-mesh entity of the target set's dimension
        fk.unify(Lin.atom("size(pim)"), Lin.atom("Par(ts)"), "PatchInvMap: pim has one entry per base entity (PatchHaloSplitter resizes it to base_mesh.get_num_entities(dim))")
    if re.search(r"Geometry::PatchMeshFactory<", cls) and fn.name == "fill_vertex_set":
        ts0 = "this._patch_part.get_target_set<0>()"
        fk.unify(Lin.atom("Par(%s)" % ts0), Lin.atom("NV(this._base_mesh.get_vertex_set())"), "patch part of the base mesh: vertex targets are base vertices")
        fk.unify(Lin.atom("NV(vertex_set)"), Lin.atom("N(%s)" % ts0), "Factory protocol: the vertex set to fill has get_num_entities(0) vertices")
    if re.search(r"PatchIndexMappingHelper$", cls) and fn.name == "apply":
        fk.unify(Lin.atom("Par(tsc)"), Lin.atom("Dom(isi)"), "tsc: cell target set of the patch into the base mesh; isi: base-mesh index set of these cells")
        fk.unify(Lin.atom("Dom(iso)"), Lin.atom("N(tsc)"), "iso: index set of the patch mesh, one tuple per patch cell")


C12NAMES = ("build", "clear", "size", "get_num_entities", "reserve", "push_back", "_has_face_rank", "fill")
# helper functions that are never inlined: anchors of their own rules / calls the rules look for by name / accessors with contracts
KEEP = C12NAMES + ("add_halo", "add_patch", "add_mesh_part", "add_mesh_part_node", "make_unique", "make", "split", "intersect", "apply", "_apply", "_build_tsf",
                   "update_boundary_size", "get_boundary_size", "get_boundary_deviation", "refine_mesh_parts", "refine", "refine_unique", "extract_patch", "rename_halos",
                   "build_elems_at_rank", "mutate", "serialize", "fill_.*", "get_.*", "find_.*", "_render_.*", "sort_indices", "degree", "image_begin", "image_end",
                   "success", "create_.*", "clone.*")


def vob(ck, fk, keys, rule, key, ok, detail, file=None, line=None, **kw):
    """obligation whose failure may be a MISSING effect: not evaluable when an unmodelled callee / helper / lambda could provide it"""
    if not ok:
        why = elsewhere(fk, keys, names=C12NAMES)
        if why:
            ck.incomplete(rule, "%s: %s -- but %s" % (key, detail[:200], why))
            return False
    return ck.ob(rule, key, ok, detail, file, line, **kw)


def short(fn):
    q = fn.full.replace("FEAT::Geometry::", "").replace("FEAT::Adjacency::", "").replace("FEAT::Shape::", "").replace("FEAT::", "")
    q = re.sub(r"ConformalMesh<(\w+<\d>), \d>", r"Mesh<\1>", q)
    return "%s(%s)" % (q, ",".join(p["n"] for p in fn.params))


class World:
    def __init__(self, ck, tier):
        self.ck = ck
        extra = ("-DC12_THOROUGH",) if tier == "thorough" else ()
        self.facts = [featlib.extract("tu/c12_patch.cpp", files=FILES, extra=extra)]
        for f in self.facts:
            ck.tu(f)
            bad = f.errors_in_repo() + f.errors_outside_repo()
            if bad:
                ck.incomplete("E2.patch-kinds", "driver TU has front-end errors: %s:%d %s" % (bad[0]["file"], bad[0]["line"], bad[0]["msg"]))
        self.findex = FunctionIndex(self.facts)
        self.ct = contracts()
        self.fns = [fn for f in self.facts for fn in f.functions if fn.tk != "pattern" and fn.body is not None]
        self._fk = {}
        # std algorithms as loops, new helpers inlined (lib/norm_c12.py); the names below are the vocabulary the rules read by name
        self.norm = norm_c12.Normaliser(self.findex, keep=KEEP, else_of_return=(r"Geometry::PartiIterative<.*>::build_elems_at_rank$",))
        for fn in self.fns:
            if re.search(r"kernel/geometry/(patch_|parti_|mesh_node|intern/patch_index|intern/target_set_computer)", fn.file):
                try:
                    self.norm.apply(fn)
                except Exception as ex:          # a construct the normaliser trips over is "not modelled", never a crash of the check
                    ck.incomplete("E2.patch-kinds", "normalisation of %s failed (%s: %s)" % (fn.full[:120], type(ex).__name__, str(ex)[:120]))

    def fk(self, fn):
        k = (fn.full, fn.file, fn.line)
        if k not in self._fk:
            a = FnKinds(fn, self.findex, self.ct)
            seed(a)
            pr = getattr(a, "ct_param_range", None)
            if pr is not None:
                # documented index parameter of a private helper (checked at its call sites through index_params)
                for p in fn.params:
                    if p["n"] == pr[0]:
                        a.guards[p["d"]] = Rng(0, a.norm(pr[1]))
            a.run()
            self._fk[k] = a
        return self._fk[k]

    def find(self, full_re, name=None):
        return [fn for fn in self.fns if re.search(full_re, fn.full) and (name is None or fn.name == name)]


# -------------------------------------------------------------------------------------------------
# 1a. member bindings of the halo builders
# -------------------------------------------------------------------------------------------------

def rule_member_binding(w):
    ck = w.ck
    for fn in w.find(r"Intern::PatchHaloBuild<.*>::PatchHaloBuild$"):
        sd, fd = halo_build_dims(fn.cls)
        fk = w.fk(fn)
        name = short(fn)
        inits = {e.key: e for e in fk.events if e.kind == "member-init"}
        # _target_face = tsh.get_target_set<fd>()
        e = inits.get("this._target_face")
        ok = e is not None and e.src_key == "tsh.get_target_set<%d>()" % fd
        ck.ob("E1.member-binding", "%s/_target_face" % name, ok, "_target_face is bound to %s; the halo of face dimension %d needs tsh.get_target_set<%d>() "
              "(patch entity -> base entity of that dimension)" % (e.src_key if e is not None else None, fd, fd), fn.file, (e.node if e is not None else {}).get("l") or fn.line)
        if sd != fd:
            rs = [x for x in fk.events if x.kind == "render" and x.obj == "this._elem_at_face"]
            if not rs and [x for x in fk.events if x.kind in ("obj-assign", "call") and "_elem_at_face" in (x.get("key") or x.get("obj") or "")]:
                ck.incomplete("E1.member-binding", "%s/_elem_at_face: the graph is not built in the initialiser list (assigned / built in the constructor body: not read)" % name)
                continue
            ok = len(rs) == 1 and rs[0].render in ("transpose", "transpose_sorted") and rs[0].ops == ["ish.get_index_set<%d,%d>()" % (sd, fd)]
            ck.ob("E1.member-binding", "%s/_elem_at_face" % name, ok, "_elem_at_face = Graph(%s, %s); elements-at-face needs the transposed index set ish.get_index_set<%d,%d>()" % (
                rs[0].render if rs else None, ", ".join(rs[0].ops) if rs else None, sd, fd), fn.file, rs[0].node.get("l") if rs else fn.line)
    # the wrapper and the factory hand the holders through in (target sets of the patch part, index sets of the base mesh) order
    for fn in w.find(r"Intern::PatchHaloBuildWrapper<.*>::PatchHaloBuildWrapper$"):
        bad = []
        for ini in fn.d.get("inits") or []:
            c = strip(ini.get("init"))
            if c is not None and c.get("k") in ("Construct", "TempObj") and len(c.get("a", [])) == 2:
                args = [render(strip(a)) for a in c["a"]]
                if args != ["tsh", "ish"]:
                    bad.append("%s(%s)" % (ini.get("member") or ini.get("base") or "base", ", ".join(args)))
        ck.ob("E1.member-binding", "%s/holders" % short(fn), not bad, "holders passed on as %s" % (", ".join(bad) if bad else "(tsh, ish)"), fn.file, fn.line)
    for fn in w.find(r"Geometry::PatchHaloFactory<.*>::PatchHaloFactory$"):
        okb = False
        got = None
        for ini in fn.d.get("inits") or []:
            if ini.get("member") == "_halo_wrapper":
                c = strip(ini.get("init"))
                got = [render(strip(a)) for a in c.get("a", [])]
                okb = got == ["patch_mesh_part.get_target_set_holder()", "base_mesh.get_index_set_holder()"]
        ck.ob("E1.member-binding", "%s/_halo_wrapper" % short(fn), okb, "_halo_wrapper(%s); needs the target sets of the patch mesh part and the index sets of the base mesh" % (
            ", ".join(got) if got else None), fn.file, fn.line)


# -------------------------------------------------------------------------------------------------
# 1b. index kinds
# -------------------------------------------------------------------------------------------------

KIND_FUNCS = [
    (r"Intern::PatchHaloBuild<.*>::(build|_has_face_rank|fill)$", None),
    (r"Intern::PatchInvMap::(build|split|fill)$", None),
    (r"Geometry::PatchMeshFactory<.*>::fill_vertex_set$", None),
    (r"Intern::PatchIndexMappingHelper::apply<", None),
    (r"Geometry::PatchMeshPartFactory<.*>::PatchMeshPartFactory$", ["my_rank", "elems_at_rank"]),
    (r"Geometry::PatchPartMap::fill_target_set$", None),
    (r"Geometry::RootMeshNode<.*>::extract_patch$", ["comm_ranks", "elems_at_rank", "rank"]),
]


def rule_kinds(w):
    ck = w.ck
    obs = {}
    und = {"data": 0, "cursor": 0, "raw": 0}
    nfun = 0
    for fre, params in KIND_FUNCS:
        fns = [fn for fn in w.find(fre) if params is None or [p["n"] for p in fn.params] == params]
        if not fns:
            ck.incomplete("E2.patch-kinds", "anchor %s not instantiated by the driver" % fre)
            continue
        for fn in fns:
            nfun += 1
            fk = w.fk(fn)
            name = short(fn)
            for what, line in fk.unknown:
                ck.incomplete("E2.patch-kinds", "%s (%s:%s): %s" % (name, featlib.rel(fn.file), line, what))
            for e in fk.events:
                key = detail = ok = None
                if e.kind == "sub":
                    if e.arr is None or e.arr.extent is None or e.arr.cond:
                        und["raw"] += 1
                        continue
                    if isinstance(e.rng, Top):
                        if e.rng.cls == "unknown":
                            ck.incomplete("E2.patch-kinds", "%s: index %s of %s not classifiable (%s)" % (name, render(e.idx), e.arr.key, e.rng.why))
                        else:
                            und[e.rng.cls] += 1
                        continue
                    key = "%s/%s[%s]" % (name, e.arr.key, e.idx_canon)
                    ok = e.ok
                    detail = "%s[%s]: index kind %r, extent %r" % (e.arr.key, render(e.idx), e.rng, fk.norm(e.arr.extent))
                elif e.kind == "index-arg":
                    if isinstance(e.rng, Top):
                        if e.rng.cls == "unknown":
                            ck.incomplete("E2.patch-kinds", "%s: argument %s not classifiable" % (name, render(e.arg)))
                        else:
                            und[e.rng.cls] += 1
                        continue
                    if e.extent is None:
                        continue
                    key = "%s/%s.%s(%s=%s)" % (name, e.obj, e.callee.rsplit("::", 1)[-1], e.param, e.arg_canon)
                    ok = e.ok
                    detail = "argument %s of %s(%s): kind %r, admissible [0,%r)" % (render(e.arg), e.callee.rsplit("::", 2)[-1], e.param, e.rng, e.extent)
                elif e.kind == "adjcall":
                    if isinstance(e.rng, Top):
                        if e.rng.cls == "unknown":
                            ck.incomplete("E2.patch-kinds", "%s: domain node %s not classifiable" % (name, render(e.node_expr)))
                        else:
                            und[e.rng.cls] += 1
                        continue
                    if e.rng.exact is not None and set(fk.norm(e.rng.exact).t) & {p["n"] for p in fn.params}:
                        und["data"] += 1      # caller-provided index (rank): precondition
                        continue
                    if e.dom is None:
                        ck.incomplete("E2.patch-kinds", "%s: adjactor of %s not nameable" % (name, render(e.node)))
                        continue
                    ok = fk.within(e.rng, e.dom)
                    key = "%s/%s.%s(%s)" % (name, e.obj, e.node.get("n"), e.node_canon)
                    detail = "%s.%s(%s): node kind %r, adjactor domain [0,%r)" % (e.obj, e.node.get("n"), render(e.node_expr), e.rng, e.dom)
                elif e.kind == "adjloop":
                    key = "%s/%s" % (name, e.loop.canon)
                    ok = e.ok
                    detail = "iteration from %s.image_begin(%s) to %s.image_end(%s)" % (e.loop.obj, render(e.loop.node_expr), e.loop.obj_end, render(e.loop.node_expr_end))
                elif e.kind == "compose":
                    key = "%s/%s=%s*%s" % (name, e.obj, e.ops[0], e.ops[1])
                    ok = e.ok
                    detail = "composite render %s(%s, %s): image of the first adjactor is %r, domain of the second %r" % (e.render, e.ops[0], e.ops[1], e.left_img, e.right_dom)
                elif e.kind == "role-arg":
                    key = "%s/%s(%s=%s)" % (name, e.callee.rsplit("::", 1)[-1], e.param, e.arg)
                    ok = e.ok
                    detail = "%s passed as %s has %r domain nodes; a ranks-at-element graph has one node per base-mesh element (%r)" % (e.arg, e.param, e.got, e.want)
                if key is not None:
                    obs.setdefault((key, "E2.graph-algebra" if e.kind in ("compose", "role-arg") else "E2.patch-kinds"), []).append((bool(ok), detail, fn.file, e.node.get("l")))
    for (key, rule), lst in sorted(obs.items()):
        bad = [x for x in lst if not x[0]]
        pick = bad[0] if bad else lst[0]
        ck.ob(rule, key, not bad, pick[1], pick[2], pick[3])
    ck.note("E2.patch-kinds: %d functions; not decided: %d data-dependent / caller-provided indices, %d subscripts of arrays without a static extent" % (nfun, und["data"] + und["cursor"], und["raw"]))


# -------------------------------------------------------------------------------------------------
# 3. ascending index lists
# -------------------------------------------------------------------------------------------------

def rule_monotone(w):
    ck = w.ck
    targets = [(r"Intern::PatchHaloBuild<.*>::build$", "this._indices", True), (r"Intern::PatchInvMap::split$", "shi", False)]
    for fre, key, need_clear in targets:
        fns = w.find(fre)
        if not fns:
            ck.incomplete("E2.monotone-push", "anchor %s not instantiated" % fre)
        for fn in fns:
            fk = w.fk(fn)
            if fk.unknown:
                ck.incomplete("E2.monotone-push", "%s: %s" % (short(fn), "; ".join(x[0] for x in fk.unknown)))
                continue
            pushes = [e for e in fk.events if e.kind == "call" and e.name in ("push_back", "emplace_back", "insert") and e.obj == key]
            problems = []
            if len(pushes) != 1:
                problems.append("%d insertions into %s (expected exactly one push_back)" % (len(pushes), key))
            for e in pushes:
                lps = [f.loop for f in e.frames if f.kind == "loop"]
                outer = lps[0] if lps else None
                if e.name != "push_back":
                    problems.append("%s is filled by %s" % (key, e.name))
                elif outer is None or outer.kind != "range" or outer.lo != 0 or len([f for f in e.frames if f.kind == "loop" and f.loop is outer]) != 1 \
                        or e.args_canon != ["$%d" % outer.depth] or outer.depth != 0:
                    problems.append("the pushed value %s is not the variable of the single ascending loop over the target set (%s)" % (
                        ", ".join(e.args_canon), outer.canon if outer is not None else "no loop"))
                else:
                    # at most once per iteration: inner loops must be left right after the push
                    inner = [f for f in e.frames if f.kind == "loop" and f.loop is not outer]
                    if inner:
                        brk = [b for b in fk.events if b.kind == "break" and frames_key(b.frames) == frames_key(e.frames) and b.seq > e.seq]
                        if not brk:
                            problems.append("the push sits in an inner loop that is not left afterwards: an entity can be pushed several times")
            if need_clear:
                clr = [e for e in fk.events if e.kind == "call" and e.name == "clear" and e.obj == key and not e.frames]
                if not clr or (pushes and clr[0].seq > pushes[0].seq):
                    problems.append("%s is not cleared before it is rebuilt" % key)
            vob(ck, fk, (key,), "E2.monotone-push", "%s/%s" % (short(fn), key), not problems, "; ".join(problems) if problems else
                  "%s receives the ascending loop variable by a single push_back: strictly ascending by construction" % key, fn.file, pushes[0].node.get("l") if pushes else fn.line)


# -------------------------------------------------------------------------------------------------
# 2. partitioners
# -------------------------------------------------------------------------------------------------

def cmp_of(fk, cond):
    """(op, lhs Lin, rhs Lin) of a comparison whose operands are sizes"""
    c = strip(cond)
    if c is not None and c.get("k") == "Bin" and c.get("op") in ("<", "<=", ">", ">=", "==", "!="):
        a, b = fk.size(c["lhs"]), fk.size(c["rhs"])
        if a is not None and b is not None:
            return c["op"], fk.norm(a), fk.norm(b)
    return None


def rule_parti(w):
    ck = w.ck
    # ---- Parti2Lvl -------------------------------------------------------------------------------------
    fns = w.find(r"Geometry::Parti2Lvl<.*>::build_elems_at_rank$")
    if not fns:
        ck.incomplete("E2.parti-coverage", "Parti2Lvl::build_elems_at_rank not instantiated")
    for fn in fns:
        fk = w.fk(fn)
        name = short(fn)
        cons = [e for e in fk.events if e.kind == "construct" and e.obj == "graph"]
        dims = (fk.norm(Lin.atom("Dom(graph)")), fk.norm(Lin.atom("Img(graph)")), fk.norm(Lin.atom("NZ(graph)")))
        want = (fk.norm(Lin.atom("this._num_ranks")), fk.norm(Lin.atom("this._ref_elems")), fk.norm(Lin.atom("this._ref_elems")))
        if not cons:
            ck.incomplete("E2.parti-coverage", "%s/dimensions: the graph is not constructed as `Graph graph(ranks, elems, elems)` (construction not read)" % name)
        else:
          ck.ob("E2.parti-coverage", name + "/dimensions", bool(cons) and dims == want, "Graph(%r, %r, %r): one node per rank, image = indices = the refined elements (%r, %r, %r)" % (dims + want), fn.file, fn.line)
        for key in ("graph._domain_ptr", "graph._image_idx"):
            ok, detail = coverage(fk, key)
            if ok is None:
                ck.incomplete("E2.parti-coverage", "%s: %s" % (name, detail))
            else:
                vob(ck, fk, (key, "graph"), "E2.parti-coverage", "%s/%s" % (name, key), ok, detail, fn.file, fn.line)
        ident = [e for e in fk.events if e.kind == "sub" and e.mode == "write" and e.arr.key == "graph._image_idx"]
        okid = len(ident) == 1 and ident[0].val_canon == ident[0].idx_canon
        if not ident:
            # no store found at all: a MISSING effect, only definite if nothing unmodelled could provide it
            vob(ck, fk, ("graph._image_idx", "graph"), "E2.parti-coverage", name + "/identity", False, "no assignment to the image index array found", fn.file, fn.line)
        elif fk.unknown and not okid:
            ck.incomplete("E2.parti-coverage", "%s/identity: %s" % (name, "; ".join(x[0] for x in fk.unknown)))
        else:
            ck.ob("E2.parti-coverage", name + "/identity", okid, "element indices are stored as the identity idx[i] = i (each element exactly once)" if okid else
                  "the image index array is not the identity: %s" % "; ".join("idx[%s] = %s" % (e.idx_canon, e.val_canon) for e in ident), fn.file, fn.line)
        rets = [n for n, f, a in fk.returns if n is not None]
        okr = len(rets) == 1 and fk.okey(strip(rets[0].get("e"))) == "graph" or (len(rets) == 1 and "graph" in render(rets[0]))
        ck.ob("E2.parti-coverage", name + "/returns", okr, "the completed graph is returned", fn.file, fn.line)
    fns = w.find(r"Geometry::Parti2Lvl<.*>::Parti2Lvl$")
    if not fns:
        ck.incomplete("E7.success-guard", "Parti2Lvl constructor not instantiated")
    for fn in fns:
        fk = w.fk(fn)
        name = short(fn)
        sets = [e for e in fk.events if e.kind == "field" and e.key == "this._success" and e.seq > 0 and e.node.get("k") == "Assign"]
        init = [e for e in fk.events if e.kind == "member-init" and e.key == "this._success"]
        problems = []
        unclear = []
        if not init:
            unclear.append("_success has no initialiser in the constructor's initialiser list (default member initialiser / body assignment: not read)")
        elif render(strip(init[0].init)) != "false":
            problems.append("_success is not initialised to false")
        direct_cmp = None
        if len(sets) == 1 and render(strip(sets[0].node["rhs"])) != "true" and not sets[0].frames:
            # `_success = (count == _num_ranks);` - the flag IS the comparison
            c_ = strip(sets[0].node["rhs"])
            nr_ = fk.norm(fk.fields.get("this._num_ranks", Lin.atom("this._num_ranks")))
            if c_.get("k") == "Bin" and c_.get("op") in ("==", ">=", "<=", ">", "<", "!="):
                for a_, b_ in ((c_["lhs"], c_["rhs"]), (c_["rhs"], c_["lhs"])):
                    sb_ = fk.size(b_)
                    if sb_ is not None and fk.norm(sb_) == nr_ and strip(a_).get("k") == "Ref" and strip(a_).get("dk") == "local":
                        direct_cmp = strip(a_)["n"]
                        if c_["op"] != "==":
                            problems.append("_success is the comparison `%s`: success must mean count == _num_ranks exactly (for other rank counts the element blocks per rank do not "
                                            "add up to the refined mesh)" % render(c_)[:50])
        if direct_cmp is not None:
            muts = [e for e in fk.events if e.kind == "scalar" and e.name == direct_cmp]
            decl = [n for n in fn.nodes() if n.get("k") == "Var" and n.get("n") == direct_cmp]
            okc = bool(decl) and decl[0].get("init") is not None and fk.size(decl[0]["init"]) is not None and \
                fk.norm(fk.size(decl[0]["init"])) == fk.norm(fk.fields.get("this._num_elems", Lin.atom("this._num_elems"))) and all(e.op == "*=" for e in muts)
            if not okc:
                problems.append("the compared count is not the element count multiplied up by the refinement factor")
        elif len(sets) == 1 and render(strip(sets[0].node["rhs"])) != "true":
            unclear.append("_success is assigned the expression %s, not the literal true under a guard" % render(strip(sets[0].node["rhs"]))[:60])
        elif len(sets) != 1:
            if len(sets) == 0 and elsewhere(fk, ("this._success",), names=C12NAMES):
                unclear.append("no assignment of _success found; %s" % elsewhere(fk, ("this._success",), names=C12NAMES))
            else:
                problems.append("%d assignments of _success" % len(sets))
        else:
            s = sets[0]
            cnt = None
            okg = False
            # guarded either by an early return under `count != _num_ranks` or by an enclosing `count == _num_ranks`
            nr = fk.norm(fk.fields.get("this._num_ranks", Lin.atom("this._num_ranks")))

            def count_vs_ranks(cond, op):
                c = strip(cond)
                if c is None or c.get("k") != "Bin" or c.get("op") != op:
                    return None
                for a, b in ((c["lhs"], c["rhs"]), (c["rhs"], c["lhs"])):
                    sb = fk.size(b)
                    a = strip(a)
                    if sb is not None and fk.norm(sb) == nr and a.get("k") == "Ref" and a.get("dk") == "local":
                        return a["n"]
                return None
            for e in fk.events:
                if e.kind == "if" and e.seq < s.seq and not e.frames:
                    v = count_vs_ranks(e.cond, "!=")
                    if v is not None:
                        leaves = [r for r in fk.events if r.kind == "return" and r.frames and r.frames[0].node is e.node and r.frames[0].branch == "then"]
                        if leaves and not s.frames:
                            okg, cnt = True, v
            for f in s.frames:
                if f.kind == "if" and f.branch == "then":
                    v = count_vs_ranks(f.node.get("c"), "==")
                    if v is not None:
                        okg, cnt = True, v
            if not okg:
                # an early exit / enclosing condition in another spelling is not a violation but a construct this rule does not read
                other = [e for e in fk.events if e.kind == "if" and e.seq < s.seq and not e.frames and
                         [r for r in fk.events if r.kind == "return" and r.frames and r.frames[0].node is e.node]]
                other += [f for f in s.frames if f.kind == "if"]
                if other or fk.unknown:
                    unclear.append("_success = true is guarded by %s, which is not of the form count ==/!= _num_ranks" % ", ".join(
                        render(getattr(o, "cond", None) or o.node.get("c")) for o in other) if other else "unmodelled constructs")
                else:
                    problems.append("_success = true is not control dependent on `count == _num_ranks`")
            else:
                # the compared count starts at the element count and is only multiplied by the refinement factor
                muts = [e for e in fk.events if e.kind == "scalar" and e.name == cnt]
                decl = [n for n in fn.nodes() if n.get("k") == "Var" and n.get("n") == cnt]
                okc = bool(decl) and decl[0].get("init") is not None and fk.size(decl[0]["init"]) is not None and \
                    fk.norm(fk.size(decl[0]["init"])) == fk.norm(fk.fields.get("this._num_elems", Lin.atom("this._num_elems"))) and all(e.op == "*=" for e in muts)
                if not okc:
                    problems.append("the compared count is not the element count multiplied up by the refinement factor")
        if unclear and not problems:
            ck.incomplete("E7.success-guard", "%s: %s" % (name, "; ".join(unclear)))
            continue
        ck.ob("E7.success-guard", name, not problems, "; ".join(problems) if problems else
              "_success(false) initially; set to true only after `count != _num_ranks -> return`, count = #elements * factor^k", fn.file, sets[0].node.get("l") if sets else fn.line)
    # ---- PartiIterative ----------------------------------------------------------------------------------------
    fns = w.find(r"Geometry::PartiIterative<.*>::build_elems_at_rank$")
    if not fns:
        ck.incomplete("E12.bcast-agree", "PartiIterative::build_elems_at_rank not instantiated")
    for fn in fns:
        fk = w.fk(fn)
        name = short(fn)
        wr = [e for e in fk.events if e.kind == "sub" and e.mode == "write" and e.arr is not None and e.arr.key == "graph._domain_ptr"]
        base = []
        for f in (wr[0].frames if wr else []):
            if f.kind == "loop":
                break
            base.append(f)
        ok, detail = coverage(fk, "graph._domain_ptr", base_frames=tuple(base))
        if ok is None:
            ck.incomplete("E2.parti-coverage", "%s: %s" % (name, detail))
        else:
            vob(ck, fk, ("graph._domain_ptr", "graph"), "E2.parti-coverage", name + "/graph._domain_ptr", ok, detail, fn.file, fn.line)
        # sender and receiver branch exchange the same amounts, into arrays of at least that length, and build the same graph
        bc = [e for e in fk.events if e.kind == "call" and e.name == "bcast"]
        by = {}
        for e in bc:
            br = [f.branch for f in e.frames if f.kind == "if"]
            by.setdefault(br[-1] if br else "?", []).append(e)
        problems = []
        unclear = [x[0] for x in fk.unknown]
        if "?" in by or not bc:
            # broadcasts outside an if/else on the rank (helper, other control flow): pairing not read
            unclear.append("the broadcasts are not all inside the two branches of one if/else (%s)" % ({k: len(v) for k, v in by.items()} or elsewhere(fk, ("graph",), names=C12NAMES) or "none found"))
        elif set(by) != {"then", "else"} or len(by["then"]) != len(by["else"]) or len(by["then"]) != 2:
            problems.append("broadcasts are not paired in the two branches (%s)" % {k: len(v) for k, v in by.items()})
        else:
            for a, b in zip(by["then"], by["else"]):
                ca, cb = fk.size(a.node["a"][1]), fk.size(b.node["a"][1])
                if ca is None or cb is None:
                    unclear.append("broadcast count %s / %s is not a size expression" % (render(a.node["a"][1]), render(b.node["a"][1])))
                    continue
                if fk.norm(ca) != fk.norm(cb):
                    problems.append("sender broadcasts %s entries, receiver expects %s" % (render(a.node["a"][1]), render(b.node["a"][1])))
                for e, cnt in ((a, ca), (b, cb)):
                    arr = fk.array_of(e.node["a"][0])
                    if arr is None or arr.extent is None:
                        unclear.append("extent of the broadcast buffer %s not known" % render(e.node["a"][0]))
                        continue
                    if not fk.within(Rng(0, cnt), fk.norm(arr.extent)):
                        problems.append("buffer %s (extent %r) is shorter than the broadcast count %r" % (render(e.node["a"][0]), fk.norm(arr.extent) if arr is not None and arr.extent is not None else None, cnt))
            # graph dimensions in both branches
            gs = [e for e in fk.events if e.kind == "construct" and e.obj == "graph"]
            dims = []
            for g in gs:
                c = strip(g.node["vars"][0]["init"]) if g.node.get("k") == "Decl" else None
                if c is not None:
                    dims.append(tuple(repr(fk.norm(fk.size(x))) if fk.size(x) is not None else render(x) for x in c["a"][:3]))
            if len(dims) != 2 or dims[0] != dims[1]:
                problems.append("the two branches construct graphs of different dimensions %s" % dims)
            elif dims[0] != (repr(fk.norm(Lin.atom("this._num_patches"))), repr(fk.norm(Lin.atom("this._num_elems"))), repr(fk.norm(Lin.atom("this._num_elems")))):
                problems.append("graph dimensions %s are not (patches, elements, elements)" % (dims[0],))
        if unclear and not problems:
            ck.incomplete("E12.bcast-agree", "%s: %s" % (name, "; ".join(unclear)))
            continue
        ck.ob("E12.bcast-agree", name, not problems, "; ".join(problems) if problems else
              "both branches broadcast (_num_patches+1) offsets and _num_elems indices into arrays of sufficient extent and build Graph(_num_patches, _num_elems, _num_elems)", fn.file, fn.line)
    fns = w.find(r"Intern::PartiIterativeIndividual<.*>::PartiIterativeIndividual$")
    fns = [fn for fn in fns if fn.param("num_patches")]
    if not fns:
        ck.incomplete("E7.parti-precond", "PartiIterativeIndividual constructor not instantiated")
    for fn in fns:
        fk = w.fk(fn)
        name = short(fn)
        first_loop = min([e.seq for e in fk.events if e.frames and e.frames[0].kind == "loop"] or [10 ** 9])
        asserts = [cmp_of(fk, e.cond) for e in fk.events if e.kind == "assert" and not e.frames and e.seq < first_loop]
        np_, ne_ = fk.norm(fk.fields.get("this._num_patches", Lin.atom("this._num_patches"))), fk.norm(fk.fields.get("this._num_elems", Lin.atom("this._num_elems")))
        a1 = any(a is not None and ((a[0] == ">" and a[1] == np_ and a[2] == Lin.const(0)) or (a[0] == ">=" and a[1] == np_ and a[2] == Lin.const(1))
                                    or (a[0] == "!=" and a[1] == np_ and a[2] == Lin.const(0))) for a in asserts)
        a2 = any(a is not None and ((a[0] == ">=" and a[1] == ne_ and a[2] == np_) or (a[0] == "<=" and a[1] == np_ and a[2] == ne_)) for a in asserts)
        opaque = [e for e in fk.events if e.kind == "assert" and not e.frames and e.seq < first_loop and cmp_of(fk, e.cond) is None]
        if (not a1 or not a2) and (opaque or fk.unknown):
            ck.incomplete("E7.parti-precond", "%s: assertions %s are not comparisons of size expressions" % (name, ", ".join(render(e.cond) for e in opaque) or "(unmodelled constructs)"))
            continue
        ck.ob("E7.parti-precond", name + "/patches>0", a1, "XASSERT(_num_patches > 0) precedes the search for cluster centres" if a1 else "no check that at least one patch is requested", fn.file, fn.line)
        ck.ob("E7.parti-precond", name + "/elems>=patches", a2, "XASSERT(_num_elems >= _num_patches) precedes the search for _num_patches distinct centre cells "
              "(the search loop cannot terminate otherwise; every patch owns its centre cell, so no patch is empty)" if a2 else
              "no check that there are at least as many cells as patches before _num_patches distinct centres are drawn", fn.file, fn.line)


# -------------------------------------------------------------------------------------------------
# neighbour relation vs. halo dimensions
# -------------------------------------------------------------------------------------------------

def rule_neighbour_dim(w):
    """the ranks that become comm neighbours are found through entities of a dimension <= the lowest dimension for which halos are built"""
    ck = w.ck
    fns = [fn for fn in w.find(r"Geometry::RootMeshNode<.*>::extract_patch$") if [p["n"] for p in fn.params] == ["comm_ranks", "elems_at_rank", "rank"]]
    if not fns:
        ck.incomplete("E2.neighbour-dim", "RootMeshNode::extract_patch(comm_ranks, elems_at_rank, rank) not instantiated")
    for fn in fns:
        fk = w.fk(fn)
        name = short(fn)
        sd = shape_dim(fn.cls)
        shape = re.search(r"Shape::((?:Hypercube|Simplex)<\d>)", fn.cls or "").group(1) if sd is not None else None
        # dimensions for which halos are built for this shape
        hd = set()
        for h in w.find(r"Intern::PatchHaloBuild<FEAT::Shape::%s, \d>::build$" % re.escape(shape or "?")):
            d = halo_build_dims(h.cls)
            if d and d[1] < d[0]:
                hd.add(d[1])
        pushes = [e for e in fk.events if e.kind == "call" and e.name in ("push_back", "emplace_back") and e.obj == "comm_ranks"]
        if fk.unknown or sd is None or not hd or len(pushes) != 1:
            ck.incomplete("E2.neighbour-dim", "%s: %s" % (name, "; ".join(x[0] for x in fk.unknown) or "neighbour list / halo builders not recognised"))
            continue
        lps = [f.loop for f in pushes[0].frames if f.kind == "loop" and f.loop is not None and f.loop.kind == "adj" and not getattr(f.loop, "container", False)]
        if len(lps) != 1:
            ck.incomplete("E2.neighbour-dim", "%s: comm_ranks is not filled from the adjacency list of a rank graph" % name)
            continue
        g = lps[0].obj
        comp = [e for e in fk.events if e.kind == "compose" and e.obj == g]
        meshes = set()
        for e in fk.events:
            if e.kind == "render":
                for o in e.ops:
                    m = re.search(r"^(.*)\.get_index_set<(\d+),(\d+)>\(\)$", o or "")
                    if m:
                        meshes.add(re.sub(r"\.get_index_set_holder\(\)$", "", m.group(1)))
        if len(comp) != 1 or len(meshes) != 1:
            ck.incomplete("E2.neighbour-dim", "%s: the graph %s iterated for comm_ranks is not a composition over entities of one mesh" % (name, g))
            continue
        mesh = meshes.pop()
        link = fk.norm(comp[0].left_img)
        via = [f for f in range(sd + 1) if fk.norm(Lin.atom("Ent(%s,%d)" % (mesh, f))) == link]
        if len(via) != 1 or not comp[0].ok:
            ck.incomplete("E2.neighbour-dim", "%s: the entities through which %s = %s * %s is composed (%r) are not the entities of one dimension of %s" % (
                name, g, comp[0].ops[0], comp[0].ops[1], link, mesh))
            continue
        f = via[0]
        ok = f <= min(hd)
        ck.ob("E2.neighbour-dim", "%s/comm_ranks via %s" % (name, g), ok,
              "neighbour ranks are the ranks adjacent through shared entities of dimension %d (%s = %s * %s); halos are built for the dimensions %s: %s" % (
                  f, g, comp[0].ops[0], comp[0].ops[1], sorted(hd),
                  "every pair of patches that can have a non-empty halo shares such an entity" if ok else
                  "two patches that share only an entity of dimension %d (e.g. touch in one vertex) are not neighbours and get no halo, although PatchHaloBuild would produce one" % min(hd)),
              fn.file, comp[0].node.get("l"))


# -------------------------------------------------------------------------------------------------
# Parti2Lvl: refinement level vs. rank count (finite case analysis by constant folding of the level formula)
# -------------------------------------------------------------------------------------------------

def _ieval(fk, n, env):
    """integer value of an arithmetic expression over the variables in env and compile-time constants (unsigned semantics: / is floor)"""
    n = strip(n)
    if n is None:
        return None
    k = n.get("k")
    if k == "Int":
        return int(n["v"])
    if k == "Bool":
        return 1 if n.get("v") else 0
    if k == "Ref":
        if n.get("d") in env:
            return env[n["d"]]
        s = fk.size(n)
        if s is not None and s.is_const():
            return s.c
        return None
    if k == "Bin":
        a, b = _ieval(fk, n["lhs"], env), _ieval(fk, n["rhs"], env)
        if a is None or b is None:
            return None
        op = n["op"]
        if op == "+":
            return a + b
        if op == "-":
            return a - b if a >= b else None     # unsigned wrap: not evaluated
        if op == "*":
            return a * b
        if op == "/":
            return a // b if b else None
        if op == "%":
            return a % b if b else None
        if op in ("<", "<=", ">", ">=", "==", "!="):
            return int({"<": a < b, "<=": a <= b, ">": a > b, ">=": a >= b, "==": a == b, "!=": a != b}[op])
        if op == "&&":
            return int(bool(a) and bool(b))
        if op == "||":
            return int(bool(a) or bool(b))
        return None
    if k == "Cond":
        c = _ieval(fk, n["c"], env)
        if c is None:
            return None
        return _ieval(fk, n["then"] if c else n["else"], env)
    if k in ("Construct", "TempObj") and len(n.get("a", [])) == 1:
        return _ieval(fk, n["a"][0], env)
    return None


def rule_parti_level(w):
    ck = w.ck
    fns = w.find(r"Geometry::Parti2Lvl<.*>::Parti2Lvl$")
    if not fns:
        ck.incomplete("E9.parti-level", "Parti2Lvl constructor not instantiated")
    for fn in fns:
        fk = w.fk(fn)
        name = short(fn)
        unclear = [x[0] for x in fk.unknown]
        # the search loop: count *= factor; ++power
        mul = [e for e in fk.events if e.kind == "scalar" and e.op == "*=" and e.frames and e.frames[0].kind == "loop"]
        factor = power = None
        if len(mul) == 1:
            fv = fk.size(mul[0].val)
            factor = fv.c if fv is not None and fv.is_const() else None
            incs = [e for e in fk.events if e.kind == "scalar" and e.op == "++" and frames_key(e.frames) == frames_key(mul[0].frames)]
            if len(incs) == 1:
                pv = fk.locals.get(incs[0].var)
                p0 = fk.size(pv.get("init")) if pv is not None and pv.get("init") is not None else None
                others = [e for e in fk.events if e.kind == "scalar" and e.var == incs[0].var and e is not incs[0]]
                if p0 == Lin.const(0) and not others:
                    power = incs[0].var
        lvl = [e for e in fk.events if e.kind == "field" and e.key == "this._ref_lvl" and e.node.get("k") == "Assign" and all(f.kind == "if" for f in e.frames)]
        re_set = [e for e in fk.events if e.kind == "field" and e.key == "this._ref_elems" and e.node.get("k") == "Assign"]
        ref_fac = None
        base_ok = False
        for e in re_set:
            lfr = [f for f in e.frames if f.kind == "loop"]
            if e.get("op") == "*=" and len(lfr) == 1 and all(f.kind in ("if", "loop") for f in e.frames) and lfr[0].loop is not None \
                    and lfr[0].loop.kind == "range" and lfr[0].loop.lo == 0 and lfr[0].loop.hi is not None \
                    and fk.norm(lfr[0].loop.hi) == fk.norm(Lin.atom("this._ref_lvl")):
                rv = fk.size(e.val_expr)
                ref_fac = rv.c if rv is not None and rv.is_const() else None
            elif e.get("op") is None and all(f.kind == "if" for f in e.frames):
                v = fk.size(e.val_expr) if e.get("val_expr") is not None else e.val
                base_ok = v is not None and fk.norm(v) == fk.norm(fk.fields.get("this._num_elems", Lin.atom("this._num_elems")))
        if factor is None or power is None or len(lvl) != 1 or ref_fac is None or not base_ok or len(re_set) != 2:
            unclear.append("constructor is not of the form `count = #elems; while(count < ranks){count *= factor; ++power}; _ref_lvl = f(power); _ref_elems = #elems * ref_fac^_ref_lvl` "
                           "(factor=%s, power=%s, level assignments=%d, ref_fac=%s)" % (factor, "found" if power else None, len(lvl), ref_fac))
        if unclear:
            ck.incomplete("E9.parti-level", "%s: %s" % (name, "; ".join(unclear)))
            continue
        bad = None
        for p in range(0, 13):
            v = _ieval(fk, lvl[0].val_expr, {power: p})
            if v is None:
                unclear.append("level formula %s not evaluable for power = %d" % (render(lvl[0].val_expr), p))
                break
            if (ref_fac ** v) % (factor ** p) != 0:
                bad = (p, v)
                break
        if unclear:
            ck.incomplete("E9.parti-level", "%s: %s" % (name, "; ".join(unclear)))
            continue
        ck.ob("E9.parti-level", name + "/ref-level", bad is None,
              ("on success ranks = #elems * %d^power; for power = %d the level formula %s gives %d, i.e. %d^%d = %d fine elements per coarse element for %d ranks per coarse "
               "element: _ref_elems / _num_ranks == 0 and build_elems_at_rank() returns empty patches although success() is true" % (
                   factor, bad[0], render(lvl[0].val_expr), bad[1], ref_fac, bad[1], ref_fac ** bad[1], factor ** bad[0])) if bad else
              "for power = 0..12: %d^level(power) is a multiple of %d^power with level = %s, so the refined elements divide evenly among the ranks whenever success() is true" % (
                  ref_fac, factor, render(lvl[0].val_expr)), fn.file, lvl[0].node.get("l"))


# -------------------------------------------------------------------------------------------------
# two-pointer merge of sorted index lists: every cursor is bounded by the length of its own list
# -------------------------------------------------------------------------------------------------

def _res(fk, n, depth=0):
    """expression with single-assignment locals replaced by their initialisers (one level of sharing is enough for text comparison)"""
    n = strip(n)
    r = fk._resolve_local(n)
    return strip(r) if r is not None else n


def _own_length(fk, fn, base, loop_body_parent):
    """('size', object text) / ('section', offset decl id) describing the length of the list `base` points to, or None"""
    b = _res(fk, base)
    if b is None:
        return None
    if b.get("k") == "MCall" and b.get("n") == "data" and not b.get("a"):
        return ("size", render(_res(fk, b.get("obj"))))
    if b.get("k") == "Un" and b.get("op") == "&":
        sub = _subscript(b["e"])
        if sub is not None:
            ix = strip(sub[1])
            if ix.get("k") == "Ref" and ix.get("dk") == "local":
                return ("section", ix["d"])
    if b.get("k") in ("Ref", "Member") and "vector" in (fn.ntype(b) or ""):
        return ("size", render(b))
    return None


def rule_merge(w):
    ck = w.ck
    fns = w.find(r"Intern::PatchHaloSplitPart<.*>::intersect$")
    if not fns:
        ck.incomplete("E3.merge-bounds", "PatchHaloSplitPart::intersect not instantiated")
    obs = {}
    for fn in fns:
        fk = w.fk(fn)
        name = re.sub(r"<.*>::", "::", short(fn).split("(")[0]) + "(" + ",".join(p["n"] for p in fn.params) + ")"
        merges = 0
        for lp in walk(fn.body):
            if lp.get("k") not in ("For", "While"):
                continue
            c = strip(lp.get("c"))
            if c is None or c.get("k") != "Bin" or c.get("op") != "&&":
                continue
            parts = []
            for side in (strip(c["lhs"]), strip(c["rhs"])):
                if side.get("k") == "Bin" and side.get("op") == "<" and strip(side["lhs"]).get("k") == "Ref" and strip(side["lhs"]).get("dk") == "local":
                    parts.append((strip(side["lhs"]), side["rhs"]))
            if len(parts) != 2:
                continue
            # lists subscripted by exactly the cursor inside the body
            cur = {}
            conds = [y.get("c") for y in walk(lp.get("body")) if y.get("k") == "If" and y.get("c") is not None]
            for x in (z for cnd in conds for z in walk(cnd)):       # the lists that are compared (merged), not payload arrays indexed alongside
                if x.get("k") == "Cast":
                    continue
                sub = _subscript(x)
                if sub is not None and strip(sub[1]).get("k") == "Ref":
                    for v, bnd in parts:
                        if strip(sub[1]).get("d") == v["d"]:
                            cur.setdefault(v["d"], []).append(sub[0])
            incs = {}
            for x in walk(lp.get("body")):
                t = _is_incdec(x)
                if t and t[0].get("k") == "Ref":
                    incs[t[0].get("d")] = incs.get(t[0].get("d"), 0) + 1
            if not all(v["d"] in cur and incs.get(v["d"]) for v, b in parts):
                continue          # not a merge of two indexed lists
            merges += 1
            own = {}
            for v, bnd in parts:
                lens = {(_own_length(fk, fn, b, lp)) for b in cur[v["d"]]}
                own[v["d"]] = lens.pop() if len(lens) == 1 else None
            for v, bnd in parts:
                key = "%s/cursor %s" % (name, v["n"])
                o = own[v["d"]]
                other = [own[x["d"]] for x, _ in parts if x["d"] != v["d"]][0]
                b = _res(fk, bnd)
                if o is None:
                    obs.setdefault(key, []).append((None, "length of the list subscripted by %s not recognised" % v["n"], fn.file, lp.get("l")))
                    continue

                def is_len(expr, ln):
                    e = _res(fk, expr)
                    if ln is None or e is None:
                        return False
                    if ln[0] == "size":
                        return e.get("k") == "MCall" and e.get("n") == "size" and not e.get("a") and render(_res(fk, e.get("obj"))) == ln[1]
                    # section of a buffer starting at `off`: its length is what `off` is advanced by afterwards
                    advs = []
                    for x in walk(fn.body):
                        if x.get("k") == "Assign" and x.get("op") == "+=" and strip(x["lhs"]).get("k") == "Ref" and strip(x["lhs"]).get("d") == ln[1]:
                            advs.append(strip(x["rhs"]))
                    if not advs:
                        return False
                    bn = strip(expr)
                    return all(a.get("k") == "Ref" and bn.get("k") == "Ref" and a.get("d") == bn.get("d") for a in advs) or \
                        all(render(_res(fk, a)) == render(e) for a in advs)
                if is_len(bnd, o):
                    obs.setdefault(key, []).append((True, "cursor %s < %s, the length of the list it subscripts" % (v["n"], render(bnd)), fn.file, lp.get("l")))
                    continue
                # definite: the bound is the other list's length or a minimum involving lengths
                definite = None
                if is_len(bnd, other):
                    definite = "the length of the OTHER list"
                elif b.get("k") == "Call" and (b.get("callee") or "").rsplit("::", 1)[-1] == "min" and any(is_len(a, o) or is_len(a, other) for a in b.get("a", [])):
                    definite = "a minimum of the two list lengths"
                if definite:
                    obs.setdefault(key, []).append((False, "cursor %s is bounded by %s (%s): matches beyond that position in its own list are never found when the lists have "
                                                    "different lengths" % (v["n"], render(bnd), definite), fn.file, lp.get("l")))
                else:
                    obs.setdefault(key, []).append((None, "bound %s of cursor %s is not recognised as a list length" % (render(bnd), v["n"]), fn.file, lp.get("l")))
        if merges == 0:
            ck.incomplete("E3.merge-bounds", "%s: no two-cursor merge loop recognised" % name)
    for key, lst in sorted(obs.items()):
        bad = [x for x in lst if x[0] is False]
        unk = [x for x in lst if x[0] is None]
        if unk and not bad:
            ck.incomplete("E3.merge-bounds", "%s: %s" % (key, unk[0][1]))
            continue
        pick = bad[0] if bad else lst[0]
        ck.ob("E3.merge-bounds", key, not bad, pick[1], pick[2], pick[3])


# -------------------------------------------------------------------------------------------------
# the reused halo factory rebuilds every dimension's list on every path
# -------------------------------------------------------------------------------------------------

def rule_halo_rebuild(w):
    ck = w.ck
    # is one factory object reused for several neighbours?
    reused = False
    for fn in w.find(r"Geometry::RootMeshNode<.*>::extract_patch$"):
        fk = w.fk(fn)
        cons = [e for e in fk.events if e.kind == "call" and (e.callee or "").endswith("PatchHaloFactory") and "PatchHaloFactory<" in (e.callee or "")]
        builds = [e for e in fk.events if e.kind == "call" and e.name == "build" and "PatchHaloFactory<" in (e.callee or "")]
        for b in builds:
            bl = [f for f in b.frames if f.kind == "loop"]
            for c in cons:
                cl = [f for f in c.frames if f.kind == "loop"]
                if len(bl) > len(cl):
                    reused = True
    if not reused:
        ck.note("E7.halo-rebuild: no PatchHaloFactory object is reused across neighbours; stale-state clause not applicable")
        return

    def must(fn, pred, what, key, keys=()):
        cfg = fn.cfg
        if cfg is None:
            ck.incomplete("E7.halo-rebuild", "%s: no CFG" % key)
            return
        ok, bad = norm_c12.ip_must_pass(fn, pred, w.findex)
        if ok:
            ck.ob("E7.halo-rebuild", key, True, "every path through %s passes %s" % (fn.name, what), fn.file, fn.line)
            return
        fk = w.fk(fn)
        # member helpers of the same class were looked into by the interprocedural must-pass: they are modelled
        seen_helpers = tuple(h.name for n in w.norm.orig_nodes(fn) if n.get("k") in ("MCall", "Call") for h in [w.findex.lookup(n)]
                             if h is not None and h.cls == fn.cls and h.cfg is not None)
        why = elsewhere(fk, keys, names=("build", "clear", "get_num_entities", "size") + seen_helpers)
        if why or fk.unknown:
            ck.incomplete("E7.halo-rebuild", "%s: a path skips %s; %s" % (key, what, why or "unmodelled constructs"))
            return
        path = cfg.path_to(bad[0], avoid=()) if bad else None
        ck.ob("E7.halo-rebuild", key, False, "a path through %s reaches the exit without %s (lines %s): the factory object is reused for every neighbour rank, so the list of "
              "this dimension keeps the entities of the previously built halo" % (fn.name, what, [l for l in cfg.block_lines(path) if l][-4:] if path else "?"), fn.file, fn.line)

    def is_call_on(member, meth):
        def pred(n):
            if n.get("k") != "MCall" or n.get("n") != meth:
                return False
            o = strip(n.get("obj"))
            return o is not None and o.get("k") == "Member" and o.get("n") == member
        return pred
    for fn in w.find(r"Intern::PatchHaloBuildWrapper<.*>::build$"):
        name = short(fn)
        must(fn, is_call_on("_hbuild", "build"), "_hbuild.build(...)", name + "/_hbuild", keys=("this._hbuild",))
        m = re.search(r"PatchHaloBuildWrapper<FEAT::Shape::\w+<\d>, (\d)>", fn.cls or "")
        if m and int(m.group(1)) > 0:
            def base_pred(n):
                return n.get("k") in ("MCall", "Call") and re.search(r"PatchHaloBuildWrapper<.*>::build$", n.get("callee") or "") is not None and \
                    (n.get("obj") is None or strip(n.get("obj")).get("k") in ("This", "Cast") or n.get("ccls") != fn.cls)
            must(fn, base_pred, "the build of the lower dimensions (BaseClass::build)", name + "/lower-dimensions")
    for fn in w.find(r"Geometry::PatchHaloFactory<.*>::build$"):
        must(fn, is_call_on("_halo_wrapper", "build"), "_halo_wrapper.build(...)", short(fn) + "/_halo_wrapper", keys=("this._halo_wrapper",))
    for fn in w.find(r"Intern::PatchHaloBuild<.*>::build$"):
        must(fn, is_call_on("_indices", "clear"), "_indices.clear()", short(fn) + "/_indices.clear", keys=("this._indices",))
    # the mesh-part splitter: one PatchMeshPartSplitter per extract_patch step, build() per base part / halo / patch
    reused_sp = False
    for fn in w.find(r"Geometry::RootMeshNode<.*>::extract_patch$"):
        fk = w.fk(fn)
        cons = [e for e in fk.events if e.kind == "call" and "PatchMeshPartSplitter<" in (e.callee or "") and (e.callee or "").endswith("PatchMeshPartSplitter")]
        builds = [e for e in fk.events if e.kind == "call" and e.name == "build" and "PatchMeshPartSplitter<" in (e.callee or "")]
        for b in builds:
            for c in cons:
                if len([f for f in b.frames if f.kind == "loop"]) > len([f for f in c.frames if f.kind == "loop"]):
                    reused_sp = True
    if reused_sp:
        for fn in w.find(r"Geometry::PatchMeshPartSplitter<.*>::build$"):
            must(fn, is_call_on("_part_holder", "build"), "_part_holder.build(...)", short(fn) + "/_part_holder", keys=("this._part_holder",))
        for fn in w.find(r"Geometry::PatchPartMap::build$"):
            fk = w.fk(fn)
            # result state of build(): the member containers it fills
            filled = sorted({e.obj for e in fk.events if e.kind == "call" and e.name in ("push_back", "emplace_back", "emplace", "insert", "insert_or_assign", "try_emplace")
                             and (e.obj or "").startswith("this.")})
            if not filled:
                ck.incomplete("E7.halo-rebuild", "%s: no member container filled by build()" % short(fn))
            for key in filled:
                m = key.split(".", 1)[1]
                must(fn, is_call_on(m, "clear"), "%s.clear()" % m, "%s/%s.clear" % (short(fn), m), keys=(key,))


# -------------------------------------------------------------------------------------------------
# recursion-scheme wrappers: every level does its own work on every path
# -------------------------------------------------------------------------------------------------

def _side_effecting(fn, n):
    """call of a FEAT function that can change state: non-const member call, or a function taking a non-const reference / pointer"""
    callee = n.get("callee") or ""
    if not callee.startswith("FEAT::") or callee.endswith("FEAT::assertion") or n.get("noreturn"):
        return False
    if n.get("k") in ("Construct", "TempObj", "OpCall"):
        return False
    if n.get("k") == "MCall" and not n.get("a") and re.match(r"get_|size$|begin$|end$|data$", n.get("n") or ""):
        return False          # accessor
    if n.get("k") == "MCall" and not n.get("cstatic") and not n.get("cconst"):
        return True
    for t in n.get("pt", []):
        ty = fn.type(t) or ""
        if (ty.endswith("&") or ty.endswith("*")) and not ty.startswith("const"):
            return True
    return False


def rule_wrapper_levels(w):
    ck = w.ck
    n_inst = 0
    for fn in w.fns:
        if fn.tk not in ("inst", "spec") or not re.search(r"kernel/geometry/(patch_|intern/patch_index)", fn.file) or fn.cfg is None:
            continue
        base = ikinds.strip_targs(fn.cls or "")
        calls = [(n, fn) for n in w.norm.orig_nodes(fn) if featlib.is_call(n) and _side_effecting(fn, n)]
        # a block of the wrapper moved into a member helper of the same class: its calls are the wrapper's calls
        for n, _ in list(calls):
            h = w.findex.lookup(n) if n.get("k") in ("MCall", "Call") else None
            if h is not None and h is not fn and h.cls == fn.cls and h.name != fn.name and h.cfg is not None and \
                    (n.get("k") == "Call" or strip(n.get("obj")) is None or strip(n.get("obj")).get("k") == "This"):
                sub = [(m, h) for m in w.norm.orig_nodes(h) if featlib.is_call(m) and _side_effecting(h, m)]
                if sub:
                    calls = [(x, o) for x, o in calls if x is not n] + sub
        owner = {id(n): o for n, o in calls}
        calls = [n for n, o in calls]
        rec = [n for n in calls if (n.get("callee") or "").rsplit("::", 1)[-1] == fn.name and n.get("ccls") != fn.cls
               and ikinds.strip_targs((n.get("callee") or "").rsplit("::", 1)[0]) == base and base]
        if not rec:
            continue
        leaf = [n for n in calls if n not in rec]
        fk = w.fk(fn)
        for n in rec + leaf:
            nid = n.get("i")
            cname = ikinds.strip_targs(n.get("callee") or "").replace("FEAT::Geometry::", "").replace("Intern::", "")
            what = "the lower level %s" % cname if n in rec else cname
            obj = render(strip(n.get("obj"))) if n.get("k") == "MCall" and n.get("obj") is not None else ""
            key = "%s/%s%s" % (short(fn), (obj + ".") if obj and obj != "this" else "", cname.rsplit("::", 1)[-1] if n not in rec else "lower-level " + fn.name)
            ok, bad = norm_c12.ip_must_pass(fn, lambda x, tgt=n: x is tgt, w.findex)
            n_inst += 1
            if ok:
                ck.ob("E4.wrapper-all-levels", key, True, "every path through %s executes %s" % (fn.name, what), fn.file, n.get("l"))
            elif fk.unknown:
                ck.incomplete("E4.wrapper-all-levels", "%s: %s" % (key, "; ".join(x[0] for x in fk.unknown)))
            else:
                ck.ob("E4.wrapper-all-levels", key, False, "%s is not executed on every path through %s (it sits behind a short-circuit / early exit): the wrapper recursion "
                      "must let every dimension do its own work, otherwise the lists of this dimension keep their previous (empty / stale) contents whenever the other "
                      "operand already decides the result" % (what, fn.name), fn.file, n.get("l"))
    if n_inst == 0:
        ck.incomplete("E4.wrapper-all-levels", "no recursion-scheme wrapper instantiated")


# -------------------------------------------------------------------------------------------------
# joint refinement: every halo / patch mesh part of a root node is refined, never copied
# -------------------------------------------------------------------------------------------------

def rule_halo_refined(w):
    ck = w.ck
    fns = w.find(r"Geometry::RootMeshNode<.*>::refine_unique$")
    if not fns:
        ck.incomplete("E7.halo-refined", "RootMeshNode::refine_unique not instantiated")
    for fn in fns:
        fk = w.fk(fn)
        sd = shape_dim(fn.cls)
        adds = [e for e in fk.events if e.kind == "call" and e.name in ("add_halo", "add_patch") and len(e.node.get("a", [])) == 2]
        seen = set()
        for e in adds:
            key = "%s/%s" % (short(fn), e.name)
            arg = strip(e.node["a"][1])
            # unwrap moves / unique_ptr conversions
            for _ in range(6):
                if arg is not None and arg.get("k") in ("Construct", "TempObj", "Call") and len(arg.get("a", [])) == 1 and \
                        (arg.get("k") != "Call" or (arg.get("callee") or "") in ("std::move", "std::forward")):
                    arg = strip(arg["a"][0])
                elif arg is not None and arg.get("k") == "Ref" and arg.get("dk") == "local" and not fk.mut.get(arg.get("d")):
                    # a never re-assigned local holding the part (named temporary, by-value parameter of an inlined helper / closure): its initialiser
                    v0 = fk.locals.get(arg.get("d"))
                    if v0 is None or v0.get("init") is None or v0.get("ref") or v0.get("param"):
                        break
                    arg = strip(v0["init"])
            loops = [f for f in e.frames if f.kind == "loop"]
            lp0 = loops[0].loop if len(loops) == 1 else None
            # range-based for over the map, or the iterator loop `for(it = map.begin(); it != map.end(); ++it)` over it
            if lp0 is None or not (lp0.kind == "foreach" or (lp0.kind == "adj" and getattr(lp0, "container", False))):
                ck.incomplete("E7.halo-refined", "%s: %s is not called from a loop over the node's mesh-part map" % (key, e.name))
                continue
            elem = lp0.var
            # the map that is walked and the action agree: halos are added as halos, patch mesh parts as patches
            src = lp0.canon or ""
            m_src = re.search(r"\._(halos|patches)\b", src)
            skey = "%s/parts-of-_%s" % (key, m_src.group(1)) if m_src else None
            if m_src and skey not in seen:
                seen.add(skey)
                want_src = "halos" if e.name == "add_halo" else "patches"
                ck.ob("E7.halo-refined", skey, m_src.group(1) == want_src,
                      ("the refined parts of %s are handed to %s" % (src, e.name)) if m_src.group(1) == want_src else
                      "the parts of the map _%s are handed to %s(): the fine node receives them as %s and its own _%s map stays empty (halo exchange / patch bookkeeping of the refined level "
                      "use the wrong map)" % (m_src.group(1), e.name, "halos" if e.name == "add_halo" else "patch mesh parts", m_src.group(1)), fn.file, e.node.get("l"))

            def from_elem(expr, depth=0):
                """the expression is built from the loop element (also through reference locals / bound parameters of an inlined helper)"""
                for x in walk(expr):
                    if x.get("k") == "Ref" and x.get("d") == elem:
                        return True
                    if x.get("k") == "Ref" and x.get("dk") == "local" and depth < 3:
                        v0 = fk.locals.get(x.get("d"))
                        if v0 is not None and v0.get("init") is not None and not fk.mut.get(x.get("d")) and from_elem(v0["init"], depth + 1):
                            return True
                return False
            if arg is not None and (arg.get("k") == "Null" or (arg.get("k") in ("Construct", "TempObj") and "unique_ptr" in (arg.get("callee") or "") and not arg.get("a"))):
                verdict = ("null", None)
            elif arg is not None and arg.get("k") == "MCall" and arg.get("n") == "make_unique" and strip(arg.get("obj")).get("k") == "Ref":
                v = fk.locals.get(strip(arg["obj"]).get("d"))
                init = strip(v.get("init")) if v is not None and v.get("init") is not None else None
                okr = init is not None and init.get("k") in ("Construct", "TempObj") and re.search(r"StandardRefinery<FEAT::Geometry::MeshPart<", init.get("callee") or "") \
                    and len(init.get("a", [])) == 2 and from_elem(init["a"][0])
                verdict = ("refined", None) if okr else ("unknown", "make_unique() of %s" % render(init))
            elif arg is not None and any(x.get("k") == "MCall" and x.get("n") == "clone" for x in walk(arg)) and from_elem(arg):
                verdict = ("copied", render(arg)[:80])
            else:
                verdict = ("unknown", render(arg)[:80] if arg is not None else "?")
            sub = "%s#%s" % (key, verdict[0])
            if sub in seen:
                continue
            seen.add(sub)
            if verdict[0] == "unknown":
                ck.incomplete("E7.halo-refined", "%s: the mesh part handed to %s (%s) is neither the refinery's product, nor nullptr, nor a copy" % (key, e.name, verdict[1]))
            elif verdict[0] in ("refined", "null"):
                ck.ob("E7.halo-refined", "%s/%s" % (key, verdict[0]), True, "%s receives %s" % (e.name, "StandardRefinery<MeshPart>(part, mesh).make_unique()" if verdict[0] == "refined" else
                                                                                             "nullptr for an absent part"), fn.file, e.node.get("l"))
            else:
                # a copy is only right for a part without any entity of dimension >= 1 (vertices keep their indices under refinement)
                dims = set()
                opaque = []
                for f in e.frames:
                    if f.kind != "if" or f.branch != "then":
                        continue
                    for cj in _conj(f.node.get("c")):
                        cj = strip(cj)
                        if cj.get("k") == "Bin" and cj.get("op") == "==":
                            l, r = strip(cj["lhs"]), strip(cj["rhs"])
                            if r.get("k") == "MCall":
                                l, r = r, l
                            z = fk.size(r)
                            if l.get("k") == "MCall" and l.get("n") == "get_num_entities" and len(l.get("a", [])) == 1 and z == Lin.const(0) \
                                    and any(x.get("k") == "Ref" and x.get("d") == elem for x in walk(l.get("obj"))):
                                dv = fk.size(l["a"][0])
                                if dv is not None and dv.is_const():
                                    dims.add(dv.c)
                                    continue
                        if any(x.get("k") == "MCall" and x.get("n") in ("get_num_entities", "size", "empty") for x in walk(cj)):
                            opaque.append(render(cj))
                if 1 in dims:
                    ck.ob("E7.halo-refined", "%s/copied" % key, True, "a part without edges (get_num_entities(1) == 0) is copied: closed mesh parts then hold vertices only, which keep "
                          "their indices under refinement", fn.file, e.node.get("l"))
                elif opaque:
                    ck.incomplete("E7.halo-refined", "%s: copy under the condition %s, which is not a test get_num_entities(d) == 0" % (key, "; ".join(opaque)))
                else:
                    ck.ob("E7.halo-refined", "%s/copied" % key, False, "for shape dimension %s the part is copied (%s) instead of refined under the condition 'no entities of dimension %s'; "
                          "a part that still has edges (patches touching along an edge) must be refined: its copy lacks the edge midpoints and child edges on the fine level" % (
                              sd, verdict[1], sorted(dims) if dims else "-"), fn.file, e.node.get("l"))


def _conj(c):
    c = strip(c)
    if c is not None and c.get("k") == "Bin" and c.get("op") == "&&":
        return _conj(c["lhs"]) + _conj(c["rhs"])
    return [c] if c is not None else []


# -------------------------------------------------------------------------------------------------
# re-keying the halo map
# -------------------------------------------------------------------------------------------------

def rule_rekey(w):
    """rename_halos: the renamed entries go into a container other than the one being read, or the insertion result is checked"""
    ck = w.ck
    fns = w.find(r"Geometry::RootMeshNode<.*>::rename_halos$")
    if not fns:
        ck.incomplete("E7.rekey-fresh", "RootMeshNode::rename_halos not instantiated")
    for fn in fns:
        fk = w.fk(fn)
        name = short(fn)
        INS = ("emplace", "insert", "try_emplace", "insert_or_assign", "emplace_hint")
        ins = [e for e in fk.events if e.kind == "call" and e.name in INS and (e.callee or "").startswith("std::map")]
        ext = [e for e in fk.events if e.kind == "call" and e.name == "extract" and (e.callee or "").startswith("std::map")]
        H = "this._halos"
        if fk.unknown or not ins:
            why = elsewhere(fk, (H,), names=C12NAMES)
            ck.incomplete("E7.rekey-fresh", "%s: %s" % (name, "; ".join(x[0] for x in fk.unknown) or "no insertion into a map found (%s)" % (why or "operator[] / other idiom")))
            continue
        problems = []
        par = {}
        st = [fn.body]
        while st:
            x = st.pop()
            for c in children(x):
                par[id(c)] = x
                st.append(c)
        for e in ins:
            if e.obj != H:
                continue
            # insertion into the container that is still being read: a new key may equal a not yet renamed old key
            p0 = par.get(id(e.node))
            used = p0 is not None and p0.get("k") not in ("Block", "For", "While", "If", "ForRange", "Case", "Default", "Switch")
            if used:
                ck.incomplete("E7.rekey-fresh", "%s: in-place insertion whose result is used (collision handling not modelled)" % name)
                problems = None
                break
            problems.append("entries are re-inserted into _halos itself by %s() (line %s) and the result is dropped: when a new rank equals the old rank of a halo that is not yet "
                            "renamed (e.g. swapping ranks 1 <-> 2) the insertion %s, i.e. a halo mesh part is lost" % (
                                e.name, e.node.get("l"), "fails and the extracted node is destroyed" if e.name in ("insert", "emplace", "try_emplace", "emplace_hint") else "overwrites that halo"))
        if problems is None:
            continue
        if not problems:
            fresh = sorted({e.obj for e in ins if e.obj != H})
            # every entry of the old map reaches the fresh map: an insertion on every path of the loop body, then _halos = fresh
            loops = [f for e in ins for f in e.frames if f.kind == "loop"]
            assigned = [e for e in fk.events if e.kind in ("obj-assign", "alloc") and (e.get("key") == H or (e.get("arr") is not None and e.arr.key == H))]
            src_ok = any(f.loop is not None and f.loop.kind in ("foreach", "adj") and H in (f.loop.canon or "") for f in loops)
            branches = {}
            for e in ins:
                ifs = [f for f in e.frames if f.kind == "if"]
                branches.setdefault(id(ifs[-1].node) if ifs else None, set()).add(ifs[-1].branch if ifs else "all")
            incomplete_br = [k for k, v in branches.items() if k is not None and v != {"then", "else"}]
            if len(fresh) != 1 or not src_ok or not assigned:
                ck.incomplete("E7.rekey-fresh", "%s: not of the form `for(v : _halos) fresh.emplace(new key, move(v.second)); _halos = move(fresh)`" % name)
                continue
            if incomplete_br:
                problems.append("some halos are not carried over into %s (insertion only in one branch)" % fresh[0])
        ck.ob("E7.rekey-fresh", name, not problems, "; ".join(problems) if problems else
              "all halos are moved into the fresh map (every branch inserts) which then replaces _halos: new keys cannot collide with keys still to be renamed", fn.file, fn.line)


# -------------------------------------------------------------------------------------------------
# PartiIterative: the retry flag of the centre search
# -------------------------------------------------------------------------------------------------

def rule_parti_retry(w):
    ck = w.ck
    fns = [fn for fn in w.find(r"Intern::PartiIterativeIndividual<.*>::PartiIterativeIndividual$") if fn.param("num_patches")]
    if not fns:
        ck.incomplete("E7.parti-retry", "PartiIterativeIndividual constructor not instantiated")
    obs = {}
    for fn in fns:
        fk = w.fk(fn)
        # while(flag) loops whose flag is a local bool
        found = 0
        for e in fk.events:
            if e.kind != "while":
                continue
            c = strip(e.node.get("c"))
            if c is None or c.get("k") != "Ref" or c.get("dk") != "local":
                continue
            d = c["d"]
            muts = [x for x in fk.events if x.kind == "scalar" and x.var == d and x.frames and x.frames[0].node is e.node]
            if not muts:
                continue
            found += 1
            key = "PartiIterativeIndividual::PartiIterativeIndividual(mesh,rng,num_patches)/retry-flag"
            can_set = [x for x in muts if x.op in ("|=", "^=", "+=") or (x.op == "=" and not (strip(x.val).get("k") == "Bool" and not strip(x.val).get("v")))]
            dead = [x for x in muts if x.op == "&="]
            first = min(muts, key=lambda x: x.seq)
            if can_set:
                obs.setdefault(key, []).append((True, "the retry flag %s can be set inside the search loop" % c["n"], fn.file, e.node.get("l")))
            elif dead and first.op == "=" and len(first.frames) == 1:
                obs.setdefault(key, []).append((False, "the loop `while(%s)` resets %s = false at the top of its body and afterwards only combines it with `&=` (line %s): the flag can never "
                                                "become true, so the test for unreached cells (%s) is dead and the search is never repeated; cells beyond the exploration threshold of every "
                                                "centre keep an uninitialised patch number" % (c["n"], c["n"], dead[0].node.get("l"), render(dead[0].val)[:80]), fn.file, dead[0].node.get("l")))
            else:
                obs.setdefault(key, []).append((None, "assignments to the loop flag %s not understood" % c["n"], fn.file, e.node.get("l")))
        if not found:
            ck.incomplete("E7.parti-retry", "%s: no flag-controlled search loop found" % short(fn))
    for key, lst in sorted(obs.items()):
        bad = [x for x in lst if x[0] is False]
        unk = [x for x in lst if x[0] is None]
        if unk and not bad:
            ck.incomplete("E7.parti-retry", "%s: %s" % (key, unk[0][1]))
            continue
        pick = bad[0] if bad else lst[0]
        ck.ob("E7.parti-retry", key, not bad, pick[1], pick[2], pick[3])


# -------------------------------------------------------------------------------------------------
# possibly-null mesh parts handed to add_halo / add_patch, which assert a non-null part
# -------------------------------------------------------------------------------------------------

def _nonnull_params(w, callee):
    """parameters of callee that its entry assertions require to be non-null"""
    fk = w.fk(callee)
    first_other = min([e.seq for e in fk.events if e.kind not in ("assert", "call")] or [10 ** 9])
    out = set()
    for e in fk.events:
        if e.kind == "assert" and not e.frames:
            c = strip(e.cond)
            cand = None
            if c.get("k") == "Bin" and c.get("op") == "!=":
                sides = [strip(c["lhs"]), strip(c["rhs"])]
                if any(x.get("k") == "Null" for x in sides):
                    cand = [x for x in sides if x.get("k") != "Null"]
            else:
                cand = [c]
            for x in cand or []:
                for y in walk(x):
                    if y.get("k") == "Ref" and y.get("dk") == "param":
                        out.add(y["n"])
    return out


def _fresh_nonnull(w, expr, depth=0):
    """expression that is a non-null unique_ptr by construction: unique_ptr<T>(new ...), std::make_unique<T>(...), or a call of a
    repo function whose body is `return <such an expression>;` (Factory::make_unique)"""
    e = strip(expr)
    for _ in range(3):
        if e is not None and e.get("k") == "Call" and (e.get("callee") or "") in ("std::move", "std::forward") and e.get("a"):
            e = strip(e["a"][0])
    if e is None or depth > 2:
        return False
    if e.get("k") == "Call" and (e.get("callee") or "").startswith("std::make_unique"):
        return True
    if e.get("k") in ("Construct", "TempObj") and "unique_ptr" in (e.get("callee") or "") and len(e.get("a", [])) == 1:
        a0 = strip(e["a"][0])
        if a0.get("k") == "New":
            return True
        return _fresh_nonnull(w, a0, depth + 1)
    if e.get("k") in ("MCall", "Call"):
        callee = w.findex.lookup(e)
        if callee is not None and callee.body is not None:
            stmts = [x for x in callee.body.get("s", []) if not FnKinds._is_noise(x)]
            if len(stmts) == 1 and stmts[0].get("k") == "Return":
                return _fresh_nonnull(w, stmts[0].get("e"), depth + 1)
    return False


def rule_nonnull_arg(w):
    ck = w.ck
    fns = [fn for fn in w.find(r"Geometry::RootMeshNode<.*>::extract_patch$")]
    obs = {}
    n = 0
    for fn in fns:
        fk = w.fk(fn)
        name = re.sub(r"<.*?>::", "::", short(fn).split("(")[0], count=1) + "(" + ",".join(p["n"] for p in fn.params) + ")"
        for e in fk.events:
            if e.kind != "call" or e.name not in ("add_halo", "add_patch", "add_mesh_part"):
                continue
            callee = w.findex.lookup(e.node)
            if callee is None:
                continue
            req = _nonnull_params(w, callee)
            pn = e.node.get("pn", [])
            for i, a in enumerate(e.node.get("a", [])):
                if i >= len(pn) or pn[i] not in req:
                    continue
                a2 = strip(a)
                a3 = a2
                for _ in range(3):
                    if a3.get("k") in ("Call", "Construct", "TempObj") and len(a3.get("a", [])) == 1 and \
                            (a3.get("k") != "Call" or (a3.get("callee") or "") in ("std::move", "std::forward")):
                        a3 = strip(a3["a"][0])
                if a3.get("k") == "Ref":
                    a2 = a3
                if a2.get("k") != "Ref" or a2.get("dk") != "local":
                    if a2.get("k") == "Ref":
                        continue          # parameter / member: the caller's obligation
                    # a value built in place (the named temporary removed): fresh objects are non-null, anything else is not read
                    key = "%s/%s(%s=<value>)" % (name, e.name, pn[i])
                    if _fresh_nonnull(w, a2):
                        obs.setdefault(key, []).append((True, "%s receives a freshly created mesh part (%s)" % (e.name, render(a2)[:60]), fn.file, e.node.get("l")))
                    else:
                        obs.setdefault(key, []).append((None, "the value %s handed to %s() is not recognised as a fresh (non-null) object" % (render(a2)[:60], e.name), fn.file, e.node.get("l")))
                    continue
                v = fk.locals.get(a2["d"])
                if v is None:
                    continue
                key = "%s/%s(%s=%s)" % (name, e.name, pn[i], a2["n"])
                i_0 = strip(v["init"]) if v.get("init") is not None else None
                if i_0 is not None and not (i_0.get("k") in ("Construct", "TempObj") and not i_0.get("a")):
                    # initialised with a value
                    asg0 = [x for x in fk.events if x.kind == "obj-assign" and x.key == a2["n"] and x.seq < e.seq]
                    if not asg0 and _fresh_nonnull(w, v["init"]):
                        obs.setdefault(key, []).append((True, "%s is initialised with a freshly created mesh part" % a2["n"], fn.file, e.node.get("l")))
                    continue
                n += 1
                # control dependent on a non-null test of the argument?
                g, gtxt = norm_c12.guarded_nonnull(fk, e, a2["d"], a2["n"])
                if g == "null":
                    obs.setdefault(key, []).append((False, "%s: %s() asserts a non-null `%s` and aborts on every such call (the guard is negated)" % (gtxt, e.name, pn[i]), fn.file, e.node.get("l")))
                    continue
                if g is True:
                    obs.setdefault(key, []).append((True, "%s may be null (a part that does not intersect the patch), but %s: %s() is only reached with a non-null part" % (
                        a2["n"], gtxt, e.name), fn.file, e.node.get("l")))
                    continue
                if g is None:
                    obs.setdefault(key, []).append((None, gtxt, fn.file, e.node.get("l")))
                    continue
                asg = [x for x in fk.events if x.kind == "obj-assign" and x.key == a2["n"] and x.seq < e.seq]

                def common(x):
                    k = 0
                    while k < len(x.frames) and k < len(e.frames) and x.frames[k].node is e.frames[k].node and x.frames[k].branch == e.frames[k].branch:
                        k += 1
                    return k
                # assignments that lie on every path to the call (their context encloses the call's context) vs. assignments under an extra condition
                dom = [x for x in asg if common(x) == len(x.frames)]
                condl = [x for x in asg if common(x) < len(x.frames)]
                tests = [f for f in e.frames if f.kind == "if" and norm_c12.mentions(f.node.get("c"), a2["d"])] + \
                        [x for x in fk.events if x.kind == "if" and x.seq < e.seq and norm_c12.mentions(x.node.get("c"), a2["d"]) and (not asg or x.seq > asg[-1].seq)]
                if dom and dom[-1] is asg[-1]:
                    fresh = _fresh_nonnull(w, dom[-1].rhs)
                    obs.setdefault(key, []).append((True, "%s is assigned %son every path before it is handed to %s" % (a2["n"], "a fresh mesh part " if fresh else "", e.name), fn.file, e.node.get("l")))
                elif tests:
                    obs.setdefault(key, []).append((None, "%s is tested in `%s` before %s(), a test this rule does not read as a non-null guard" % (
                        a2["n"], render((tests[0].node).get("c"))[:70], e.name), fn.file, e.node.get("l")))
                elif condl and not dom and all(any(f.kind == "if" for f in x.frames[common(x):]) for x in condl):
                    x0 = condl[0]
                    c0 = [f for f in x0.frames[common(x0):] if f.kind == "if"][0]
                    acanon = {f.canon for x in condl for f in x.frames[common(x):] if f.kind == "if"}
                    retest = [f for f in e.frames if f.kind == "if" and (f.canon in acanon or any(a_ and a_ in f.canon for a_ in acanon))
                              and not any(f.node is g.node for x in condl for g in x.frames)]
                    if retest:
                        obs.setdefault(key, []).append((None, "%s is assigned under `%s` and %s() is called under the re-evaluated condition `%s`: whether both agree is not decided" % (
                            a2["n"], c0.canon[:70], e.name, retest[0].canon[:70]), fn.file, e.node.get("l")))
                    else:
                        obs.setdefault(key, []).append((False, "%s is default-constructed (null) and only assigned under `%s`; on the other path the null pointer is passed to %s(), whose entry "
                                                        "assertion on `%s` aborts (a base %s that does not intersect the patch)" % (
                                                            a2["n"], render(c0.node.get("c"))[:70], e.name, pn[i], "halo" if e.name == "add_halo" else "patch mesh part"), fn.file, e.node.get("l")))
                elif not asg and not tests and not elsewhere(fk, (a2["n"],), names=C12NAMES):
                    obs.setdefault(key, []).append((False, "%s is default-constructed (null) and never assigned before it is passed to %s(), whose entry assertion on `%s` aborts" % (
                        a2["n"], e.name, pn[i]), fn.file, e.node.get("l")))
                else:
                    obs.setdefault(key, []).append((None, "definition of %s before %s() not understood" % (a2["n"], e.name), fn.file, e.node.get("l")))
    if n == 0 and not obs:
        ck.incomplete("E7.nonnull-arg", "no call of add_halo/add_patch with a local mesh part in extract_patch found")
    for key, lst in sorted(obs.items()):
        bad = [x for x in lst if x[0] is False]
        unk = [x for x in lst if x[0] is None]
        if unk and not bad:
            ck.incomplete("E7.nonnull-arg", "%s: %s" % (key, unk[0][1]))
            continue
        pick = bad[0] if bad else lst[0]
        ck.ob("E7.nonnull-arg", key, not bad, pick[1], pick[2], pick[3])


# -------------------------------------------------------------------------------------------------
# PartiIterative: the offset pass and the fill pass of the elements-at-rank graph enumerate the same rows
# -------------------------------------------------------------------------------------------------

def rule_parti_two_pass(w):
    ck = w.ck
    R = "E3.parti-two-pass"
    fns = w.find(r"Geometry::PartiIterative<.*>::build_elems_at_rank$")
    if not fns:
        ck.incomplete(R, "PartiIterative::build_elems_at_rank not instantiated")
    for fn in fns:
        fk = w.fk(fn)
        name = short(fn)
        P, I = "graph._domain_ptr", "graph._image_idx"
        if fk.unknown:
            ck.incomplete(R, "%s: %s" % (name, "; ".join(x[0] for x in fk.unknown)))
            continue
        offs = [e for e in fk.events if e.kind == "sub" and e.mode == "write" and e.arr is not None and e.arr.key == P and any(f.kind == "loop" for f in e.frames)]
        fills = [e for e in fk.events if e.kind == "sub" and e.mode == "write" and e.arr is not None and e.arr.key == I]
        if len(offs) != 1 or len(fills) != 1:
            why = elsewhere(fk, (P, I, "graph"), names=C12NAMES)
            ck.incomplete(R, "%s: %d offset definitions in loops, %d stores into the index array%s" % (name, len(offs), len(fills), ("; " + why) if why else ""))
            continue
        of, st = offs[0], fills[0]
        # offsets: P[i+1] = |C[i]| + P[i] over i in [0,N)
        olps = [f.loop for f in of.frames if f.kind == "loop"]
        terms = dict((t, sg) for sg, t in (of.val_terms or []))
        rowlen = [t for t in terms if t != "%s[$%d]" % (P, olps[0].depth if olps and olps[0] is not None else 0)]
        m = re.match(r"^(.*)\[\$(\d+)\]\.size\(\)$", rowlen[0]) if len(rowlen) == 1 else None
        # fused form: one sweep `for r: { for x in C[r]: idx[counter++] = x;  ptr[r+1] = counter; }` - the end offset of a row IS the fill cursor behind it
        st_outer = [f for f in st.frames if f.kind == "loop"][:1]
        ov, sx = strip(of.val), strip(st.idx)
        fused = len(olps) == 1 and olps[0] is not None and st_outer and st_outer[0].loop is olps[0] and of.op == "=" and of.idx_canon == "($%d + 1)" % olps[0].depth \
            and ov.get("k") == "Ref" and sx.get("k") == "Ref" and ov.get("d") == sx.get("d") and of.seq > st.seq \
            and len([f for f in of.frames if f.kind == "loop"]) == 1 and not any(f.kind == "if" for f in of.frames[len(st.frames) - 2:])
        if fused:
            m = re.match(r"^(.*)$", "fused")
        if not fused and (len(olps) != 1 or olps[0] is None or olps[0].kind != "range" or olps[0].lo != 0 or olps[0].hi is None or of.op != "=" or of.idx_canon != "($%d + 1)" % olps[0].depth \
                or len(terms) != 2 or any(sg != 1 for sg in terms.values()) or m is None or int(m.group(2)) != olps[0].depth):
            ck.incomplete(R, "%s: the offsets are not defined as `ptr[i+1] = C[i].size() + ptr[i]` over a counted loop (%s[%s] = %s)" % (name, P, of.idx_canon, of.val_canon))
            continue
        C, N = (None if fused else m.group(1)), fk.norm(olps[0].hi)
        if fused and (olps[0].kind != "range" or olps[0].lo != 0 or olps[0].hi is None):
            ck.incomplete(R, "%s: the fused sweep is not a counted loop from 0 (%s)" % (name, olps[0].canon))
            continue
        # fill: for r in [0,M): for(x : C'[r]) idx[counter++] = x
        sl = [f.loop for f in st.frames if f.kind == "loop"]
        ix = strip(st.idx)
        okform = len(sl) == 2 and sl[0] is not None and sl[1] is not None and sl[0].kind == "range" and sl[0].lo == 0 and sl[0].hi is not None and (sl[1].kind == "foreach" or (sl[1].kind == "adj" and getattr(sl[1], "container", False))) \
            and ix.get("k") == "Ref" and ix.get("dk") == "local" and not any(f.kind == "if" for f in st.frames[len(of.frames) - 1:])
        inner_c = None
        if okform:
            # the container the inner loop runs over: foreach(X) / each(X); a reference local naming the row resolves to its initialiser
            mm = re.match(r"^(?:foreach|each)\(<?(.*?)>?\)$", sl[1].canon)
            inner_c = mm.group(1) if mm else None
            rng_node = strip(sl[1].node.get("range")) if sl[1].kind == "foreach" else (strip(sl[1].begin_call.get("obj")) if getattr(sl[1], "begin_call", None) is not None else None)
            if rng_node is not None and rng_node.get("k") == "Ref" and rng_node.get("dk") == "local":
                v0 = fk.locals.get(rng_node.get("d"))
                if v0 is not None and v0.get("init") is not None and not fk.mut.get(rng_node.get("d")):
                    inner_c = fk.canon(v0["init"], extra={sl[0].var: "$%d" % sl[0].depth})
        m2 = re.match(r"^(.*)\[\$(\d+)\]$", inner_c) if inner_c else None
        if not okform or m2 is None or int(m2.group(2)) != sl[0].depth:
            ck.incomplete(R, "%s: the index array is not filled as `for(r < M) for(x : C[r]) idx[counter++] = x` (%s)" % (name, " > ".join(repr(f) for f in st.frames)))
            continue
        C2, M = m2.group(1), fk.norm(sl[0].hi)
        cvar = fk.locals.get(ix["d"])
        incs = [e for e in fk.events if e.kind == "scalar" and e.var == ix["d"]]
        c0 = fk.size(cvar.get("init")) if cvar is not None and cvar.get("init") is not None else None
        if len(incs) != 1 or incs[0].op != "++" or frames_key(incs[0].frames) != frames_key(st.frames) or c0 != Lin.const(0) or \
                fk.decl_depth.get(ix["d"], -1) != len(sl) - 2:
            ck.incomplete(R, "%s: the store cursor %s is not a counter from 0 advanced once per stored element" % (name, ix["n"]))
            continue
        dom = fk.norm(Lin.atom("Dom(graph)"))
        problems = []
        if fused:
            C = C2
            first = [e for e in fk.events if e.kind == "sub" and e.mode == "write" and e.arr is not None and e.arr.key == P and not any(f.kind == "loop" for f in e.frames)
                     and e.rng.exact is not None and fk.norm(e.rng.exact) == Lin.const(0) and fk.size(e.val) == Lin.const(0) and e.seq < st.seq]
            if not first:
                problems.append("the end offsets ptr[r+1] are stored in the sweep but ptr[0] is not set to 0 before it")
        if C != C2:
            problems.append("the row lengths are taken from %s but the rows are copied from %s" % (C, C2))
        if N != M:
            problems.append("the offsets are summed over %r rows but only the rows [0,%r) are copied into the index array: for %r != %r the remaining rows keep the "
                            "zero-initialised entries (cell 0 repeated, their cells in no patch) resp. rows beyond the container are read" % (N, M, N, M))
        if N != dom:
            problems.append("the offsets are defined for %r rows, the graph has %r domain nodes" % (N, dom))
        ck.ob(R, name, not problems, "; ".join(problems) if problems else
              "offset pass and fill pass both enumerate the rows [0,%r) of %s; one store and one cursor advance per element, cursor from 0" % (N, C), fn.file, st.node.get("l"))


# -------------------------------------------------------------------------------------------------
# patch mesh parts: the target-set deduction really derives something, and sibling constructions agree
# -------------------------------------------------------------------------------------------------

def _has_effect(w, fn, depth=0):
    """does the body of fn contain anything but assertions and calls of functions without effect?"""
    if fn is None or fn.body is None or depth > 3:
        return True
    for n in walk(fn.body):
        k = n.get("k")
        if k in ("Assign", "New", "Delete", "Throw", "Return") or (k == "Un" and n.get("op") in ("++", "--")):
            if k == "Return" and n.get("e") is None:
                continue
            return True
        if k in ("Call", "MCall", "OpCall", "Construct", "TempObj"):
            callee = n.get("callee") or ""
            if callee.endswith("FEAT::assertion"):
                continue
            sub = w.findex.lookup(n) if k in ("Call", "MCall") else None
            if sub is None or _has_effect(w, sub, depth + 1):
                return True
    return False


def rule_patch_part_deduct(w):
    ck = w.ck
    sites = {}
    for fn in w.fns:
        if not re.search(r"Geometry::RootMeshNode<", fn.cls or "") or fn.tk not in ("inst", "spec", "plain") or w.norm.inlined.get(fn.full, 0) > 0:
            continue
        fk = None
        for n in list(fn.nodes()):
            if n.get("k") != "MCall" or not re.match(r"deduct_target_sets_from_(top|bottom)$", n.get("n") or ""):
                continue
            fk = fk or w.fk(fn)
            name = short(fn)
            full = (n.get("cfull") or "")
            tail = full.rsplit("::", 1)[-1]
            key = "%s/%s" % (name, tail)
            callee = w.findex.lookup(n)
            if callee is None:
                ck.incomplete("E13.deduct-effect", "%s: instantiation %s not in the fact base" % (key, full))
                continue
            # the deduction proper is the TargetSetComputer<end_dim, current_dim> call of the instantiated body (the rest only re-reads entity counts)
            comp = [x for x in walk(callee.body) if x.get("k") in ("Call", "MCall") and re.search(r"TargetSetComputer<.*>::(bottom_to_top|top_to_bottom)$", x.get("callee") or "")]
            cfn = w.findex.lookup(comp[0]) if len(comp) == 1 else None
            if cfn is None:
                ck.incomplete("E13.deduct-effect", "%s: the TargetSetComputer call of %s is not in the fact base (%d calls found)" % (key, tail, len(comp)))
                continue
            eff = _has_effect(w, cfn)
            # the dimensions it updates: loop `for(i = a; i <= b; ++i) _num_entities[i] = ...`
            ck.ob("E13.deduct-effect", key, eff, ("%s derives target sets (instantiated body has an effect)" % tail) if eff else
                  "%s is the end of the template recursion: TargetSetComputer<d,d> does nothing and only the count of dimension d is re-read, so NO target set is derived - "
                  "the mesh part keeps only the target set it was built with (from_bottom starts at the vertices and needs end_dim > 0 ... shape_dim, from_top starts at the cells and "
                  "needs end_dim < shape_dim); the patch mesh part then has no vertices / edges / faces" % tail, fn.file, n.get("l"))
            # which object: built by PatchMeshPartFactory in this function?
            fact = [e for e in fk.events if e.kind == "call" and (e.callee or "").endswith("PatchMeshPartFactory") and "PatchMeshPartFactory<" in (e.callee or "")]
            if fact:
                a0 = strip(n["a"][0]) if n.get("a") else None
                for _ in range(3):
                    if a0 is not None and a0.get("k") == "Ref" and a0.get("dk") == "local":
                        v0 = fk.locals.get(a0.get("d"))
                        if v0 is not None and v0.get("init") is not None and not fk.mut.get(a0.get("d")):
                            a0 = strip(v0["init"])
                holder = None
                if a0 is not None and a0.get("k") == "MCall" and a0.get("n") == "get_index_set_holder":
                    o = strip(a0.get("obj"))
                    for _ in range(3):
                        if o is not None and o.get("k") == "Un" and o.get("op") == "*":
                            o = strip(o["e"])
                        o = fk._resolve_local(o) if o is not None else None
                    holder = "%s.get_index_set_holder()" % fk.canon(o) if o is not None else None
                sites.setdefault(ikinds.strip_targs(fn.cls or "") + "|" + (fn.cls or ""), []).append((name, tail, holder, fn, n))
    for cls, lst in sorted(sites.items()):
        kinds = sorted({(t, h) for nm, t, h, fn, n in lst})
        cname = short(lst[0][3]).split("::")[0]
        if any(h is None for nm, t, h, fn, n in lst):
            ck.incomplete("E13.patch-part-siblings", "%s: the index set holder handed to the deduction is not `<mesh>.get_index_set_holder()`" % cname)
            continue
        if len(lst) < 2:
            ck.incomplete("E13.patch-part-siblings", "%s: only %d construction site of a patch mesh part found" % (cname, len(lst)))
            continue
        # majority form = reference; every site must use it
        from collections import Counter
        cnt = Counter((t, h) for nm, t, h, fn, n in lst)
        ref = cnt.most_common(1)[0][0]
        bad = [(nm, t, h, fn, n) for nm, t, h, fn, n in lst if (t, h) != ref]
        tie = len(cnt) > 1 and cnt.most_common(2)[0][1] == cnt.most_common(2)[1][1]
        if tie:
            ck.ob("E13.patch-part-siblings", cname, False, "the %d sites that build a patch mesh part with PatchMeshPartFactory disagree on the deduction: %s" % (
                len(lst), "; ".join("%s: %s(%s)" % (nm.split("::")[-1], t, h) for nm, t, h, fn, n in lst)), lst[0][3].file, lst[0][4].get("l"))
        else:
            ck.ob("E13.patch-part-siblings", cname, not bad, ("%s builds the patch mesh part with %s(%s), the sibling construction sites (%s) use %s(%s): the patch mesh parts of "
                  "sibling ranks and the own patch are different maps" % (bad[0][0].split("::")[-1], bad[0][1], bad[0][2], ", ".join(nm.split("::")[-1] for nm, t, h, fn, n in lst if (t, h) == ref), ref[0], ref[1]))
                  if bad else "all %d construction sites (%s) derive the lower-dimensional target sets by %s(%s)" % (len(lst), ", ".join(nm.split("::")[-1] for nm, t, h, fn, n in lst), ref[0], ref[1]),
                  (bad[0][3] if bad else lst[0][3]).file, (bad[0][4] if bad else lst[0][4]).get("l"))
    if not sites:
        ck.incomplete("E13.patch-part-siblings", "no patch mesh part construction (PatchMeshPartFactory + deduct_target_sets_*) found in RootMeshNode")


# -------------------------------------------------------------------------------------------------
# the patch mesh topology is the base topology re-indexed through the patch map - on every path
# -------------------------------------------------------------------------------------------------

def _through_locals(fk, n, depth=0):
    """expression with never re-assigned (reference / value) locals replaced by their initialisers"""
    n = strip(n)
    while n is not None and depth < 5 and n.get("k") == "Ref" and n.get("dk") == "local" and not fk.mut.get(n.get("d")):
        v0 = fk.locals.get(n.get("d"))
        if v0 is None or v0.get("init") is None or v0.get("param"):
            break
        n = strip(v0["init"])
        while n is not None and n.get("k") in ("Construct", "TempObj") and len(n.get("a", [])) == 1:
            n = strip(n["a"][0])
        depth += 1
    return n


def rule_patch_reindex(w):
    ck = w.ck
    R = "E7.patch-reindex"
    fns = w.find(r"Geometry::PatchMeshFactory<.*>::fill_index_sets$")
    if not fns:
        ck.incomplete(R, "PatchMeshFactory::fill_index_sets not instantiated")
    for fn in fns:
        name = short(fn)
        fk = w.fk(fn)
        out = fn.params[0]["n"] if fn.params else None
        def is_map(n):
            return n.get("k") in ("Call", "MCall") and re.search(r"Intern::PatchIndexMapping<.*>::apply$", n.get("callee") or "") is not None
        maps = [n for n in w.norm.orig_nodes(fn) if is_map(n)]
        if not maps:
            # moved into a member helper of the factory: the interprocedural must-pass follows it
            for n in w.norm.orig_nodes(fn):
                h = w.findex.lookup(n) if n.get("k") in ("Call", "MCall") else None
                if h is not None and h is not fn and h.cls == fn.cls and h.body is not None:
                    maps += [x for x in w.norm.orig_nodes(h) if is_map(x)]
        if len(maps) != 1 or out is None:
            why = elsewhere(fk, (out,), names=C12NAMES) if out else None
            ck.incomplete(R, "%s: %d calls of Intern::PatchIndexMapping::apply%s" % (name, len(maps), ("; " + why) if why else ""))
            continue
        m = maps[0]
        args = [render(_through_locals(fk, a)) for a in m.get("a", [])]
        okargs = len(args) >= 3 and fk.okey(m["a"][0]) == out and re.search(r"_base_mesh\b.*index_set", args[1]) is not None and "_patch_part" not in args[1] \
            and re.search(r"_patch_part\b.*target_set", args[2]) is not None and "_base_mesh" not in args[2]
        ok, bad = norm_c12.ip_must_pass(fn, lambda x, tgt=m: x is tgt, w.findex)
        # anything else that writes the output holder
        other = []
        for n in w.norm.orig_nodes(fn):
            if n is m or n.get("k") not in ("Call", "MCall", "OpCall"):
                continue
            if n.get("k") == "MCall" and n.get("obj") is not None and fk.okey(n.get("obj")) == out and not n.get("cconst"):
                other.append(n)
            elif n.get("k") == "OpCall" and n.get("op") == "=" and n.get("a") and fk.okey(n["a"][0]) == out:
                other.append(n)
        problems = []
        if not okargs:
            problems.append("PatchIndexMapping::apply is called with (%s); the patch topology is (output holder, index sets of the BASE mesh, target sets of the PATCH part)" % ", ".join(args[:3]))
        if not ok:
            path = fn.cfg.path_to(bad[0], avoid=()) if bad and fn.cfg is not None else None
            problems.append("a path through fill_index_sets reaches the exit without the re-indexing through the patch map (lines %s): the index sets handed out on that path are "
                            "not the base topology restricted and renumbered by the patch part's target sets - local entity i of the patch mesh is then not base entity target[i] "
                            "(e.g. a single patch whose cell list is not ascending)" % ([l for l in fn.cfg.block_lines(path) if l][-4:] if path else "?"))
        for n in other:
            problems.append("the output holder is also written by `%s` (line %s), i.e. with a topology that did not go through the patch map" % (render(n)[:60], n.get("l")))
        ck.ob(R, name, not problems, "; ".join(problems) if problems else
              "every path fills the index sets by PatchIndexMapping::apply(out, base index sets, patch target sets) and nothing else writes them", fn.file, m.get("l"))


# -------------------------------------------------------------------------------------------------
# Partition / PartitionSet: rank counts and element counts are different kinds
# -------------------------------------------------------------------------------------------------

def _accessor_kind(w, call, depth=0):
    """'Dom' / 'Img' of the elements-at-rank graph `_patches` that a Partition accessor returns (also when it forwards to a twin accessor), or None"""
    callee = w.findex.lookup(call)
    if callee is None or callee.body is None or not re.search(r"Geometry::Partition$", callee.cls or ""):
        return None, None
    stmts = [x for x in callee.body.get("s", []) if not FnKinds._is_noise(x)]
    if len(stmts) != 1 or stmts[0].get("k") != "Return":
        return None, callee
    e = strip(stmts[0].get("e"))
    for _ in range(3):
        if e is not None and e.get("k") in ("Construct", "TempObj") and len(e.get("a", [])) == 1:
            e = strip(e["a"][0])
    if e is not None and e.get("k") == "MCall" and not e.get("a") and strip(e.get("obj")).get("k") == "Member" and strip(e["obj"]).get("n") == "_patches":
        return {"get_num_nodes_domain": "Dom", "get_num_nodes_image": "Img"}.get(e.get("n")), callee
    if e is not None and e.get("k") == "MCall" and not e.get("a") and depth < 3:
        # one accessor forwarding to its twin: `return this->get_num_patches();`
        o = strip(e.get("obj")) if e.get("obj") is not None else None
        while o is not None and o.get("k") == "Un" and o.get("op") == "*":
            o = strip(o.get("e"))
        if o is None or o.get("k") == "This":
            k2, c2 = _accessor_kind(w, e, depth + 1)
            if c2 is not None and c2 is not callee:
                return k2, callee
    return None, callee


def rule_partition_kinds(w):
    ck = w.ck
    R = "E2.partition-kinds"
    # (1) name roles of the accessors of Partition (its graph is the elements-at-rank graph: domain = ranks/patches, image = elements)
    roles = {"get_num_patches": "Dom", "get_num_elements": "Img"}
    for fn in w.fns:
        if re.search(r"Geometry::Partition$", fn.cls or "") and fn.name in roles and not fn.params:
            k, _ = _accessor_kind(w, {"k": "MCall", "callee": fn.qn, "cfull": fn.full, "pn": [], "cconst": True, "a": []})
            if k is None:
                ck.incomplete(R, "Partition::%s(): not of the form `return _patches.get_num_nodes_*()`" % fn.name)
            else:
                ck.ob(R, "Partition::%s()" % fn.name, k == roles[fn.name], "returns %s(_patches) of the elements-at-rank graph; the name says %s" % (
                    k, "number of ranks/patches = domain nodes" if roles[fn.name] == "Dom" else "number of elements = image nodes"), fn.file, fn.line)
    # (2) the rank-count parameter of find_partition is compared with a rank-count accessor
    fns = [fn for fn in w.fns if re.search(r"Geometry::PartitionSet$", fn.cls or "") and fn.name == "find_partition" and fn.param("size") and fn.param("names")]
    if not fns:
        ck.incomplete(R, "PartitionSet::find_partition(size, names, prio) not in the fact base")
    for fn in fns:
        sd = fn.param("size")["d"]
        fkp = w.fk(fn)
        cmps = []
        for n in fn.nodes():
            if n.get("k") == "Bin" and n.get("op") in ("==", "!=", "<", ">", "<=", ">="):
                sides = [strip(n["lhs"]), strip(n["rhs"])]
                for a, b in (sides, sides[::-1]):
                    if any(x.get("k") == "Ref" and x.get("d") == sd for x in walk(a)) and not any(x.get("k") == "Ref" and x.get("d") == sd for x in walk(b)):
                        calls = [x for x in walk(b) if x.get("k") == "MCall"]
                        for y in walk(b):
                            if y.get("k") == "Ref" and y.get("dk") == "local":
                                r0 = _through_locals(fkp, y)
                                if r0 is not y and r0 is not None:
                                    calls += [x for x in walk(r0) if x.get("k") == "MCall"]
                        cmps.append((n, calls))
        found = 0
        for n, calls in cmps:
            for c in calls:
                k, callee = _accessor_kind(w, c)
                if callee is None:
                    continue
                found += 1
                key = "PartitionSet::find_partition(size,names,prio)/size vs %s()" % c.get("n")
                if k is None:
                    ck.incomplete(R, "%s: the accessor is not of the form `return _patches.get_num_nodes_*()`" % key)
                    continue
                ck.ob(R, key, k == "Dom", ("the requested number of ranks is compared with %s() = Dom(_patches), the number of patches of the candidate" % c.get("n")) if k == "Dom" else
                      "the parameter `size` is the required number of RANKS (documentation of find_partition) but it is compared with %s() = Img(_patches), the number of ELEMENTS of the "
                      "candidate: for a request of p ranks a partition with p cells and a different number of patches is handed out, every other request fails" % c.get("n"), fn.file, n.get("l"))
        if not found:
            ck.incomplete(R, "PartitionSet::find_partition: no comparison of `size` with an accessor of the candidate partition found")
            continue
        # (3) the filters are conjunctive: the statement that accepts a candidate is only reached when the size test was true
        _partition_filter_conjunctive(w, fn, fkp, sd, [n for n, calls in cmps if calls])


def _partition_filter_conjunctive(w, fn, fk, sd, cmp_nodes):
    ck = w.ck
    R = "E2.partition-kinds"
    key = "PartitionSet::find_partition(size,names,prio)/accepted only if the size matches"
    rets = [strip(x.get("e")) for x in fn.nodes() if x.get("k") == "Return" and x.get("e") is not None]
    rd = {r.get("d") for r in rets if r is not None and r.get("k") == "Ref" and r.get("dk") == "local"}
    par = {}
    st = [fn.body]
    while st:
        x = st.pop()
        for c in children(x):
            par[id(c)] = x
            st.append(c)
    accepts = [x for x in fn.nodes() if x.get("k") == "Assign" and x.get("op") == "=" and strip(x["lhs"]).get("k") == "Ref" and strip(x["lhs"]).get("d") in rd
               and any(par.get(id(y), {}).get("k") in ("For", "ForRange", "While", "Do") or True for y in [x])]
    # only acceptances inside a loop over the candidates
    def in_loop(n):
        cur = n
        while id(cur) in par:
            cur = par[id(cur)]
            if cur.get("k") in ("For", "ForRange", "While", "Do"):
                return cur
        return None
    accepts = [x for x in accepts if in_loop(x) is not None]
    if len(rd) != 1 or not accepts:
        ck.incomplete(R, "%s: the statement that accepts a candidate (assignment of the returned pointer inside the loop) is not recognised" % key)
        return
    cmp_ids = {id(n) for n in cmp_nodes}

    def implies(cond, positive, depth=0):
        """True: (cond == positive) implies the size test; 'or': the size test is only one alternative of a disjunction; False: unrelated"""
        c = strip(cond)
        if c is None or depth > 6:
            return False
        if c.get("k") == "Un" and c.get("op") == "!":
            return implies(c["e"], not positive, depth + 1)
        if c.get("k") == "Bin" and c.get("op") in ("&&", "||"):
            a, b = implies(c["lhs"], positive, depth + 1), implies(c["rhs"], positive, depth + 1)
            strong = (c["op"] == "&&") == positive          # a && b true  /  a || b false: both operands are known
            if strong:
                return True if True in (a, b) else ("or" if "or" in (a, b) else False)
            return "or" if (a in (True, "or") or b in (True, "or")) else False
        if c.get("k") == "Bin" and c.get("op") in ("==", "!="):
            same = id(c) in cmp_ids or (any(x.get("k") == "Ref" and x.get("d") == sd for x in walk(c)) and any(x.get("k") == "MCall" and _accessor_kind(w, x)[1] is not None for x in walk(c)))
            if same:
                return (c["op"] == "==") == positive
            return False
        if c.get("k") == "Ref" and c.get("dk") == "local":
            v0 = fk.locals.get(c.get("d"))
            muts = fk.mut.get(c.get("d")) or []
            if v0 is None:
                return False
            base = implies(v0.get("init"), positive, depth + 1) if v0.get("init") is not None else False
            if not muts:
                return base
            if base is not True and not any(m.get("k") == "Assign" and m.get("op") == "=" and implies(m["rhs"], positive, depth + 1) is True for m in muts):
                return base
            # the flag starts as the size test: later updates must only narrow it
            for m in muts:
                if m.get("k") != "Assign":
                    return False
                r0 = strip(m["rhs"])
                if m.get("op") == "&=" or (m.get("op") == "=" and r0.get("k") == "Bin" and r0.get("op") == "&&" and any(strip(x).get("k") == "Ref" and strip(x).get("d") == c.get("d") for x in (r0["lhs"], r0["rhs"]))):
                    continue
                if m.get("op") == "|=" or (m.get("op") == "=" and r0.get("k") == "Bin" and r0.get("op") == "||" and any(strip(x).get("k") == "Ref" and strip(x).get("d") == c.get("d") for x in (r0["lhs"], r0["rhs"]))):
                    return "or" if positive else False
                if m.get("op") == "=" and implies(m["rhs"], positive, depth + 1) is True:
                    continue
                return False
            return True if positive else False
        return False
    verdicts = []
    for acc in accepts:
        loop = in_loop(acc)
        res = False
        cur = acc
        while id(cur) in par and cur is not loop:
            p_ = par[id(cur)]
            if p_.get("k") == "If":
                r = implies(p_.get("c"), True) if cur is p_.get("then") else (implies(p_.get("c"), False) if cur is p_.get("else") else False)
                res = r if r in (True, "or") and res is not True else res
            if p_.get("k") == "Block":
                for s0 in p_.get("s", []):
                    if s0 is cur:
                        break
                    if s0.get("k") == "If" and s0.get("else") is None and norm_c12.always_leaves(s0.get("then")):
                        r = implies(s0.get("c"), False)
                        res = r if r in (True, "or") and res is not True else res
            cur = p_
        verdicts.append((acc, res))
    bad = [(a, r) for a, r in verdicts if r == "or"]
    unk = [(a, r) for a, r in verdicts if r is False]
    if bad:
        ck.ob(R, key, False, "the acceptance `%s` (line %s) is reached when a flag is true that starts as the size test and is then OR-ed with other criteria (name match): a candidate "
              "is accepted if its size OR its name matches - find_partition(p, name) hands out a partition with a different number of patches, impossible requests are not refused" % (
                  render(bad[0][0])[:40], bad[0][0].get("l")), fn.file, bad[0][0].get("l"))
    elif unk:
        ck.incomplete(R, "%s: the acceptance `%s` (line %s) is not governed by a condition this rule reads as the size test" % (key, render(unk[0][0])[:40], unk[0][0].get("l")))
    else:
        ck.ob(R, key, True, "every acceptance of a candidate is control dependent on size == number of patches of the candidate (the filters are conjunctive)", fn.file, accepts[0].get("l"))


# -------------------------------------------------------------------------------------------------
# unsigned "infinity" sentinels: max() + 1 wraps to 0
# -------------------------------------------------------------------------------------------------

def _is_limits_max(n):
    return n is not None and any(x.get("k") in ("Call", "MCall") and re.search(r"numeric_limits<.*>::max$", x.get("callee") or "") for x in walk(n))


def rule_sentinel_overflow(w):
    """arrays of the partitioner's distance computation that are filled with numeric_limits<Index>::max() as 'not reached': every `A[x] + c` must be
    control dependent on a test that A[x] is not the sentinel (max + 1 == 0 makes an unreached cell the nearest one)"""
    ck = w.ck
    R = "E2.sentinel-overflow"
    fns = w.find(r"Geometry::Intern::parti_iterative_distance<")
    if not fns:
        ck.incomplete(R, "Intern::parti_iterative_distance not instantiated")
    obs = {}
    for fn in fns:
        name = re.sub(r"<.*$", "", short(fn).split("(")[0])
        sent = {}
        for n in fn.nodes():
            if n.get("k") == "Var" and n.get("init") is not None:
                i0 = strip(n["init"])
                if i0.get("k") in ("Construct", "TempObj") and "vector" in (i0.get("callee") or "") and len(i0.get("a", [])) >= 2 and _is_limits_max(i0["a"][1]):
                    sent[n["d"]] = n["n"]
        if not sent:
            ck.incomplete(R, "%s: no array filled with numeric_limits<>::max() found" % name)
            continue
        changed = True
        while changed:
            changed = False
            for n in fn.nodes():
                if n.get("k") == "Var" and n.get("ref") and n.get("init") is not None and n["d"] not in sent:
                    i0 = strip(n["init"])
                    if i0 is not None and i0.get("k") == "Ref" and i0.get("d") in sent:
                        sent[n["d"]] = sent[i0["d"]]
                        changed = True
        par = {}
        st = [fn.body]
        while st:
            x = st.pop()
            for c in children(x):
                par[id(c)] = x
                st.append(c)

        fk0 = w.fk(fn)

        def elem_of(n):
            n = strip(n)
            if n is not None and n.get("k") == "Ref" and n.get("dk") == "local" and not fk0.mut.get(n.get("d")):
                # `const Index d0 = distances.at(node); ... d0 + 1`
                v0 = fk0.locals.get(n.get("d"))
                if v0 is not None and v0.get("init") is not None and not v0.get("ref"):
                    n = strip(v0["init"])
                    while n is not None and n.get("k") in ("Construct", "TempObj") and len(n.get("a", [])) == 1:
                        n = strip(n["a"][0])
            sub = _subscript(n) if n is not None and n.get("k") != "Cast" else None
            if sub is not None and sub[0].get("k") == "Ref" and sub[0].get("d") in sent:
                # (text with the array's own name, so that the key does not depend on the alias a helper uses)
                return render(strip(n)).replace(sub[0].get("n"), sent[sub[0]["d"]], 1)
            return None

        def tests_not_sentinel(cond, etext, positive=True):
            c = strip(cond)
            if c is None:
                return False
            if c.get("k") == "Un" and c.get("op") == "!":
                return tests_not_sentinel(c["e"], etext, not positive)
            if c.get("k") == "Bin" and c.get("op") == "&&" and positive:
                return tests_not_sentinel(c["lhs"], etext, True) or tests_not_sentinel(c["rhs"], etext, True)
            if c.get("k") == "Bin" and c.get("op") == "||" and not positive:
                return tests_not_sentinel(c["lhs"], etext, False) or tests_not_sentinel(c["rhs"], etext, False)
            if c.get("k") == "Bin" and c.get("op") in ("!=", "==", "<", ">="):
                l, r = strip(c["lhs"]), strip(c["rhs"])
                for a, b in ((l, r), (r, l)):
                    if (render(a) == etext or elem_of(a) == etext or (a.get("k") == "Ref" and a.get("n") in mirror_for.get(etext, ()))) and _is_limits_max(b):
                        op = c["op"] if positive else {"!=": "==", "==": "!=", "<": ">=", ">=": "<"}[c["op"]]
                        return op in ("!=", "<") and (a is l or op == "!=")
            return False
        # ---- a priority queue that mirrors the array: key(x) == max - A[x] for every queued x --------------------------------------
        # Established structurally: the queue is filled with key 0 (= max - max, the array's fill value); every store A[x] = v has, in the same
        # context and behind it, an update/insert of the queue for the same x with key max - v (v == 0: key max); every other update has such
        # a store in front of it.  Then a pair  n = Q.front_value(), d = max - Q.front_key()  read from the same queue state satisfies d == A[n],
        # and a guard on d is a guard on A[n].  Anything that does not fit leaves the mirror unproved (no guard through it is accepted).
        mirror_for = {}
        mirror_why = ""
        queues = {v["d"]: v["n"] for v in fn.nodes() if v.get("k") == "Var" and "mutable_priority_queue" in (fn.type(v.get("t")) or "")}
        if queues and len(set(sent.values())) == 1:
            aname = list(sent.values())[0]
            stores = [e for e in fk0.events if e.kind == "sub" and e.mode == "write" and e.arr is not None and e.arr.key == aname]
            maxc = None
            for v in fn.nodes():
                if v.get("k") == "Var" and v.get("d") in sent and v.get("init") is not None and not v.get("ref"):
                    maxc = fk0.canon(strip(v["init"])["a"][1])
            for qd, qn in queues.items():
                ups = [e for e in fk0.events if e.kind == "call" and e.obj == qn and e.name in ("insert", "update") and len(e.args_canon or []) == 2]
                other_mut = [e for e in fk0.events if e.kind == "call" and e.obj == qn and e.name not in ("insert", "update", "pop", "size", "count", "front_value", "front_key", "empty")]
                init_ins = [e for e in ups if e.name == "insert" and e.args_canon[1] == "0"]
                rest = [e for e in ups if e not in init_ins]
                okm = bool(init_ins) and not other_mut and maxc is not None and all(st_.op == "=" for st_ in stores)

                def key_of(vc):
                    return maxc if vc == "0" else "(%s - %s)" % (maxc, vc)
                for st_ in stores:
                    if not any(u.seq > st_.seq and frames_key(u.frames) == frames_key(st_.frames) and u.args_canon[0] == st_.idx_canon and u.args_canon[1] == key_of(st_.val_canon) for u in rest):
                        okm = False
                        mirror_why = "the store %s[%s] = %s has no matching %s.update(%s, max - value) behind it" % (aname, st_.idx_canon, st_.val_canon, qn, st_.idx_canon)
                for u in rest:
                    if not any(st_.seq < u.seq and frames_key(u.frames) == frames_key(st_.frames) and u.args_canon[0] == st_.idx_canon and u.args_canon[1] == key_of(st_.val_canon) for st_ in stores):
                        okm = False
                        mirror_why = "%s.%s(%s, %s) is not paired with a store of the mirrored value into %s" % (qn, u.name, u.args_canon[0], u.args_canon[1], aname)
                # values stored inside loops are sums `A[..] + c` (judged below) or constants: never the sentinel itself
                for st_ in stores:
                    vv = strip(st_.val)
                    vv = fk0._resolve_local(vv) if vv is not None else vv
                    if not (vv is not None and (vv.get("k") in ("Int",) or (vv.get("k") in ("Construct", "TempObj", "Cast") and not _is_limits_max(vv)) or
                                                (vv.get("k") == "Bin" and vv.get("op") == "+" and (elem_of(vv["lhs"]) or elem_of(vv["rhs"]))))):
                        okm = False
                        mirror_why = "the value %s stored into %s is not a constant / an incremented element" % (st_.val_canon, aname)
                if not okm:
                    continue
                # pairs (n, d) read from one queue state
                for blk in [x for x in walk(fn.body) if x.get("k") == "Block"]:
                    nd = dd = None
                    for st0 in blk.get("s", []):
                        if st0.get("k") == "Decl" and len(st0.get("vars", [])) == 1:
                            v0 = st0["vars"][0]
                            i0 = strip(v0.get("init"))
                            while i0 is not None and i0.get("k") in ("Construct", "TempObj") and len(i0.get("a", [])) == 1:
                                i0 = strip(i0["a"][0])
                            if i0 is not None and i0.get("k") == "MCall" and i0.get("n") == "front_value" and strip(i0.get("obj")).get("d") == qd and not fk0.mut.get(v0["d"]):
                                nd = v0
                                continue
                            if i0 is not None and i0.get("k") == "Bin" and i0.get("op") == "-" and _is_limits_max(i0["lhs"]) and not fk0.mut.get(v0["d"]):
                                r0 = strip(i0["rhs"])
                                if r0.get("k") == "MCall" and r0.get("n") == "front_key" and strip(r0.get("obj")).get("d") == qd:
                                    dd = v0
                                    continue
                        if any(x.get("k") == "MCall" and x.get("obj") is not None and strip(x["obj"]).get("k") == "Ref" and strip(x["obj"]).get("d") == qd
                               and x.get("n") in ("pop", "update", "insert") for x in walk(st0)):
                            if (nd is None) != (dd is None):
                                nd = dd = None          # the queue changed between the two reads
                            if nd is not None and dd is not None:
                                break
                    if nd is not None and dd is not None:
                        for et_ in ("%s.at(%s)" % (aname, nd["n"]), "%s[%s]" % (aname, nd["n"])):
                            mirror_for.setdefault(et_, set()).add(dd["n"])
        for n in fn.nodes():
            if n.get("k") not in ("Bin", "Assign") or n.get("op") not in ("+", "+="):
                continue
            a, b = strip(n["lhs"]), strip(n["rhs"])
            et = elem_of(a) or (elem_of(b) if n.get("k") == "Bin" else None)
            if et is None:
                continue
            other = b if elem_of(a) else a
            if other.get("k") not in ("Int",) and not (other.get("k") in ("Construct", "TempObj", "Cast")):
                continue
            guarded = False
            cur = n
            while id(cur) in par and not guarded:
                p_ = par[id(cur)]
                if p_.get("k") == "If" and cur is p_.get("then") and tests_not_sentinel(p_.get("c"), et, True):
                    guarded = True
                if p_.get("k") == "If" and cur is p_.get("else") and tests_not_sentinel(p_.get("c"), et, False):
                    guarded = True
                if p_.get("k") == "Block":
                    for s0 in p_.get("s", []):
                        if s0 is cur:
                            break
                        if s0.get("k") == "If" and s0.get("else") is None and norm_c12.always_leaves(s0.get("then")) and tests_not_sentinel(s0.get("c"), et, False):
                            guarded = True
                cur = p_
            key = "%s/%s + %s" % (name, et, render(other))
            if not guarded and mirror_why:
                # a queue exists whose keys may mirror the array, but the mirror invariant is not established: a guard through the queue is neither accepted nor refuted
                obs.setdefault(key, []).append((None, "`%s`: no direct test of %s, and the queue/array mirror is not established (%s)" % (render(n)[:50], et, mirror_why), fn.file, n.get("l")))
                continue
            obs.setdefault(key, []).append((guarded, ("`%s` is only evaluated when %s is not the sentinel" % (render(n)[:50], et)) if guarded else
                                            "`%s`: %s may still be numeric_limits<>::max() ('not reached': the array is filled with it and the node is taken from the queue whatever "
                                            "its distance), and max() + 1 wraps to 0 - the unreached neighbours then look NEAREST to this centre (a mesh whose cells are not all "
                                            "facet-connected: whole components are attached to the wrong centre, other patches stay empty)" % (render(n)[:50], et), fn.file, n.get("l")))
    for key, lst in sorted(obs.items()):
        bad = [x for x in lst if x[0] is False]
        unk = [x for x in lst if x[0] is None]
        if unk and not bad:
            ck.incomplete(R, "%s: %s" % (key, unk[0][1]))
            continue
        pick = bad[0] if bad else lst[0]
        ck.ob(R, key, not bad, pick[1], pick[2], pick[3])
    if fns and not obs:
        ck.incomplete(R, "parti_iterative_distance: no increment of a sentinel-filled array element found")


# -------------------------------------------------------------------------------------------------
# a patch registered under a key that may already exist
# -------------------------------------------------------------------------------------------------

def rule_patch_key_fresh(w):
    """add_patch inserts with a non-replacing map insertion and returns the entry found under the key: a caller that goes on with the returned pointer as
    'the part just built' needs the key to be absent (erase / not-found check before), otherwise the SECOND registration under a key silently keeps the first part"""
    ck = w.ck
    R = "E7.patch-key-fresh"
    n_inst = 0
    for fn in w.find(r"Geometry::RootMeshNode<.*>::extract_patch$"):
        fk = w.fk(fn)
        name = re.sub(r"<.*?>::", "::", short(fn).split("(")[0], count=1) + "(" + ",".join(p["n"] for p in fn.params) + ")"
        for n in list(fn.nodes()):
            if n.get("k") != "MCall" or n.get("n") != "add_patch" or not n.get("a"):
                continue
            callee = w.findex.lookup(n)
            if callee is None:
                continue
            ins = [x for x in walk(callee.body) if x.get("k") == "MCall" and x.get("n") in ("emplace", "insert", "try_emplace") and (x.get("callee") or "").startswith("std::map")]
            repl = [x for x in walk(callee.body) if (x.get("k") == "MCall" and x.get("n") in ("insert_or_assign", "erase")) or (x.get("k") == "OpCall" and x.get("op") == "[]" and (x.get("callee") or "").startswith("std::map"))]
            checked = [x for x in walk(callee.body) if x.get("k") == "Member" and x.get("n") == "second" and any(y is not x and y.get("k") == "MCall" and y.get("n") in ("emplace", "insert", "try_emplace") for y in walk(x)) and
                       not any(y.get("k") == "Member" and y.get("n") == "first" for y in walk(x))]
            # is the returned pointer used by the caller?
            par = _parent_of(fn, n)
            used = par is not None and par.get("k") not in ("Block", "If", "For", "While", "ForRange", "Case", "Default")
            if not ins or repl or not used:
                continue
            n_inst += 1
            keyexpr = render(strip(n["a"][0]))
            key = "%s/add_patch(%s)" % (name, keyexpr)
            guards = [e for e in fk.events if e.kind == "call" and e.name in ("erase", "clear", "find", "count") and (e.obj or "").endswith("._patches") and e.node.get("l", 0) < n.get("l", 0)]
            kc = fk.canon(n["a"][0])
            erased = [e for e in guards if (e.name == "clear" or (e.name == "erase" and e.args_canon and e.args_canon[0] == kc)) and not any(f.kind == "if" for f in e.frames)]
            if erased:
                ck.ob(R, key, True, "the key %s is removed from _patches (%s(), line %s) before the new part is registered: the returned pointer is the part just built" % (
                    keyexpr, erased[0].name, erased[0].node.get("l")), fn.file, n.get("l"))
                continue
            if checked or guards:
                ck.incomplete(R, "%s: the insertion result / a lookup of the key is consulted (%s): not read by this rule" % (key, "callee checks .second" if checked else "caller calls %s()" % guards[0].name))
                continue
            ck.ob(R, key, False, "add_patch(%s, ...) registers the new patch mesh part with %s(), which does NOT replace an existing entry, and returns the entry found under the key; "
                  "%s goes on with that pointer as the part it just built (deduction, patch mesh, halos). Called a second time for the same key on one node (key %s%s) it silently builds "
                  "the FIRST patch again and the new part is destroyed" % (keyexpr, ins[0].get("n"), fn.name, keyexpr, " is the same for every call" if keyexpr.lstrip("-").isdigit() else ""), fn.file, n.get("l"))
    if n_inst == 0:
        ck.incomplete(R, "no use of the pointer returned by add_patch found in extract_patch")


def _parent_of(fn, node):
    st = [fn.body]
    while st:
        x = st.pop()
        for c in children(x):
            if c is node:
                return x
            st.append(c)
    return None


# -------------------------------------------------------------------------------------------------
# deduced target sets list the base entities in ascending order
# -------------------------------------------------------------------------------------------------

def rule_deduct_ascending(w):
    """TargetSetComputer::top_to_bottom (the helper behind deduct_target_sets_from_top): the collection pass appends the marked base entities in ascending base
    order - the stored value is the variable of ONE ascending counted loop from 0, appended through a counter from 0 advanced once per store, and the final
    copy is the identity.  PatchHaloBuild lists halo entities in patch-local order, so two neighbouring halos agree only if both patch numberings follow the base order."""
    ck = w.ck
    R = "E2.deduct-ascending"
    fns = [fn for fn in w.find(r"Intern::TargetSetComputer<.*>::top_to_bottom<") if fn.body is not None and [x for x in fn.body.get("s", []) if not FnKinds._is_noise(x)]]
    if not fns:
        ck.incomplete(R, "no non-trivial instantiation of Intern::TargetSetComputer::top_to_bottom in the fact base")
    for fn in fns:
        fk = w.fk(fn)
        m = re.search(r"TargetSetComputer<(\d+), (\d+)>", fn.cls or "")
        name = "TargetSetComputer<%s>::top_to_bottom" % (", ".join(m.groups()) if m else "?")
        if fk.unknown:
            ck.incomplete(R, "%s: %s" % (name, "; ".join(x[0] for x in fk.unknown)))
            continue
        # collection stores: T[counter] = value with a local counter that is incremented
        coll = []
        for e in fk.events:
            if e.kind == "sub" and e.mode == "write" and e.op == "=" and e.arr is not None and any(f.kind == "loop" for f in e.frames):
                ix = strip(e.idx)
                if ix.get("k") == "Ref" and ix.get("dk") == "local" and fk.mut.get(ix.get("d")) and ix.get("d") not in [f.loop.var for f in e.frames if f.kind == "loop" and f.loop is not None]:
                    coll.append(e)
        if len(coll) != 1:
            why = elsewhere(fk, (), names=C12NAMES)
            ck.incomplete(R, "%s: %d stores through an append counter found%s" % (name, len(coll), ("; " + why) if why else ""))
            continue
        st = coll[0]
        lps = [f.loop for f in st.frames if f.kind == "loop"]
        ix = strip(st.idx)
        cv = fk.locals.get(ix["d"])
        incs = [e for e in fk.events if e.kind == "scalar" and e.var == ix["d"]]
        c0 = fk.size(cv.get("init")) if cv is not None and cv.get("init") is not None else None
        if any(lp is None for lp in lps) or len(incs) != 1 or incs[0].op != "++" or frames_key(incs[0].frames) != frames_key(st.frames) or c0 != Lin.const(0):
            ck.incomplete(R, "%s: the append counter %s is not a counter from 0 advanced once per stored entity / a loop is not read" % (name, ix["n"]))
            continue
        problems = []
        if len(lps) != 1 or lps[0].kind != "range" or lps[0].lo != 0 or st.val_canon != "$%d" % lps[0].depth:
            problems.append("the appended value %s is not the variable of a single ascending loop over the base entities (loops: %s): the deduced target set lists the same entities in "
                            "first-encounter order of the parent entities instead of ascending base order; halo lists built from it (patch-local order) then differ between the two "
                            "neighbours of an irregular patch pair" % (st.val_canon, " > ".join(lp.canon for lp in lps)))
        # the compaction copy into the final target set is the identity
        srcs = (st.arr.key + "[", st.arr.key + ".get_indices()[")
        copies = [e for e in fk.events if e.kind == "sub" and e.mode == "write" and e is not st and e.val_canon is not None and e.val_canon.startswith(srcs)]
        for e in copies:
            if e.val_canon not in ("%s[%s]" % (st.arr.key, e.idx_canon), "%s.get_indices()[%s]" % (st.arr.key, e.idx_canon)):
                problems.append("the collected entities are copied as %s[%s] = %s (not position by position)" % (e.arr.key, e.idx_canon, e.val_canon))
        if not copies:
            # a MISSING copy: definite only if the list is handed to nothing that could copy it (any call that receives it, also by const reference, a move, an assignment)
            takers = [e for e in fk.events if e.kind in ("call", "obj-assign") and e.seq > st.seq and any(
                x.get("k") == "Ref" and x.get("n") == st.arr.key for a_ in ([e.get("rhs")] if e.kind == "obj-assign" else e.node.get("a", [])) if a_ is not None for x in walk(a_))]
            if takers or elsewhere(fk, (st.arr.key,), names=C12NAMES):
                ck.incomplete(R, "%s: no element-wise copy of %s found, but it is handed to %s (line %s), which is not read" % (
                    name, st.arr.key, (takers[0].get("name") or "an assignment") if takers else "a helper", takers[0].node.get("l") if takers else "?"))
                continue
            problems.append("the collected list %s is never copied into the target set" % st.arr.key)
        ck.ob(R, name, not problems, "; ".join(problems) if problems else
              "marked base entities are appended in the order of the ascending loop %s (counter %s from 0, one advance per entity) and copied position by position" % (lps[0].canon, ix["n"]),
              fn.file, st.node.get("l"))


# -------------------------------------------------------------------------------------------------
# the cell list of a patch has the length of the row it is copied from
# -------------------------------------------------------------------------------------------------

def rule_cell_list_extent(w):
    ck = w.ck
    R = "E2.cell-list-extent"
    fns = [fn for fn in w.find(r"Geometry::PatchMeshPartFactory<.*>::PatchMeshPartFactory$") if [p["n"] for p in fn.params] == ["my_rank", "elems_at_rank"]]
    if not fns:
        ck.incomplete(R, "PatchMeshPartFactory(my_rank, elems_at_rank) not instantiated")
    for fn in fns:
        fk = w.fk(fn)
        name = short(fn)
        C = "this._cells_patch"
        if fk.unknown:
            ck.incomplete(R, "%s: %s" % (name, "; ".join(x[0] for x in fk.unknown)))
            continue
        pushes = [e for e in fk.events if e.kind == "call" and e.obj == C and e.name in ("push_back", "emplace_back")]
        stores = [e for e in fk.events if e.kind == "sub" and e.mode == "write" and e.arr is not None and e.arr.key == C]
        sizing = [e for e in fk.events if e.kind == "call" and e.obj == C and e.name in ("resize", "assign")] + \
                 [e for e in fk.events if e.kind == "alloc" and e.arr.key == C and getattr(e.arr, "extent_expr", None) is not None]
        fills = pushes + stores
        rows = set()
        for e in fills:
            adj = [f.loop for f in e.frames if f.kind == "loop" and f.loop is not None and f.loop.kind == "adj" and not getattr(f.loop, "container", False)]
            rows.add((adj[0].obj, fk.canon(adj[0].node_expr)) if len(adj) == 1 and len([f for f in e.frames if f.kind == "loop"]) == 1 else None)
        if not fills or None in rows or len(rows) != 1:
            why = elsewhere(fk, (C,), names=C12NAMES)
            ck.incomplete(R, "%s: the cell list is not filled from one adjacency list of the graph (%d pushes, %d stores)%s" % (name, len(pushes), len(stores), ("; " + why) if why else ""))
            continue
        g, row = rows.pop()
        problems, unclear = [], []
        if stores and not sizing:
            unclear.append("the cell list is written by index but never sized")
        for e in sizing:
            x = strip(e.node["a"][0]) if e.kind == "call" and e.node.get("a") else strip(getattr(e.arr, "extent_expr", None)) if e.kind == "alloc" else None
            x = _through_locals(fk, x) if x is not None else None
            if x is not None and pushes and not stores and fk.size(x) != Lin.const(0) and (not e.frames) and e.seq < pushes[0].seq:
                problems.append("the cell list is first sized to %s entries and the cells of row %s are then APPENDED behind them: the list starts with that many zeros (cell 0 repeated)" % (
                    render(x)[:40], row))
            elif x is not None and x.get("k") == "MCall" and x.get("n") == "degree" and fk.okey(x.get("obj")) == g:
                if not x.get("a"):
                    problems.append("the cell list is sized by %s.degree() - without a node argument that is the MAXIMUM degree over all ranks - while the cells of row %s are copied: a patch "
                                    "smaller than the largest one is padded with cell 0 (listed again and again; the patch meshes no longer contain every cell exactly once)" % (g, row))
                elif fk.canon(x["a"][0]) != row:
                    problems.append("the cell list is sized by %s.degree(%s) but filled from the row of %s" % (g, fk.canon(x["a"][0]), row))
            elif x is not None and pushes and not stores:
                problems.append("the cell list is sized to %s entries and the cells of row %s are then APPENDED behind them" % (render(x)[:40], row))
            else:
                unclear.append("the size expression %s of the cell list is not the degree of a row of %s" % (render(x)[:40] if x is not None else "?", g))
        if unclear and not problems:
            ck.incomplete(R, "%s: %s" % (name, "; ".join(unclear)))
            continue
        ck.ob(R, name, not problems, "; ".join(problems) if problems else
              ("the cell list receives exactly the entries of row %s of %s (%s)" % (row, g, "appended one by one" if pushes else "sized by the degree of that row")), fn.file, fills[0].node.get("l"))


def run(tier):
    ck = Check("C12", tier)
    ck.rule("E1.member-binding", "the halo builders are wired to the right sets: PatchHaloBuild<Shape,codim> binds the patch part's target set of the face dimension and the "
            "transposed base index set <shape_dim, face_dim>; wrapper/factory pass (target sets of the patch part, index sets of the base mesh) "
            "(a wrong dimension/holder compiles and only shows with more than one patch)", 9)
    ck.rule("E2.patch-kinds", "index spaces are not confused: target sets are subscripted by patch entity indices and yield base entity indices, adjacency lookups "
            "(elements-at-face, ranks-at-element, index sets, inverse maps, base vertex sets) take base-mesh indices, rank graphs are entered by element; "
            "kinds from accessor contracts, equalities only from XASSERTs, constructions and the documented parameter roles "
            "(breaks as soon as a patch is a proper subset of the base mesh)", 45)
    ck.rule("E2.graph-algebra", "RootMeshNode::extract_patch: every composite render Graph(a,b) has Img(a) = Dom(b) under the kinds E>R := (R>E)^T, V>E := (E>V)^T, V>R, R>V, R>R, "
            "and PatchHaloFactory receives a graph with one node per base-mesh element (operands swapped / forgotten transpose pass when #ranks = #elements = #vertices is small)", 3)
    ck.rule("E2.monotone-push", "halo index lists (PatchHaloBuild::_indices, the halo index list of PatchInvMap::split that PatchHaloSplitPart::intersect merges) are filled by a single "
            "push_back of the ascending loop variable: ascending by construction on both ranks", 4)
    ck.rule("E2.parti-coverage", "the elements-at-rank graphs of Parti2Lvl / PartiIterative have (ranks, elements, elements) dimensions, the pointer array is defined on [0,ranks], "
            "Parti2Lvl's index array is the identity on [0,elements)", 6)
    ck.rule("E7.success-guard", "Parti2Lvl reports success only under count == num_ranks with count = #elements * factor^k", 1)
    ck.rule("E2.neighbour-dim", "RootMeshNode::extract_patch: the ranks entered into comm_ranks are those adjacent through shared entities of a dimension <= the lowest "
            "dimension for which PatchHaloBuild builds halos (vertices): 'who is a neighbour' agrees with 'for which entities halos exist' "
            "(otherwise patches touching in a single vertex / edge get no halo)", 1)
    ck.rule("E9.parti-level", "Parti2Lvl: whenever success() is true (ranks = #elems * factor^power) the refined element count #elems * ref_fac^_ref_lvl is a multiple of the "
            "rank count - decided by folding the level formula for power = 0..12 with the shape's constants (a level rounded down yields empty patches for power not a multiple "
            "of the dimension)", 1)
    ck.rule("E3.merge-bounds", "PatchHaloSplitPart::intersect merges two ascending index lists with two cursors: each cursor is bounded by the length of the list it "
            "subscripts (a container's size(), or the amount the buffer offset is advanced by for a buffer section); a bound by the other length / the minimum loses the "
            "matches of the longer list", 2)
    ck.rule("E7.halo-rebuild", "extract_patch reuses one PatchHaloFactory for all neighbour ranks, so every path through PatchHaloFactory::build, every "
            "PatchHaloBuildWrapper<.,d>::build and PatchHaloBuild::build must rebuild (clear) the list of its dimension and of the lower dimensions "
            "(an early return leaves the previous neighbour's entities in the halo); likewise the reused PatchMeshPartSplitter: PatchMeshPartSplitter::build and "
            "PatchPartMap::build clear every member container they fill on every path", 12)
    ck.rule("E4.wrapper-all-levels", "recursion-scheme wrappers over the entity dimensions (PatchInvMapWrapper, PatchHaloBuildWrapper, PatchPartMapHolder, PatchIndexMapping*): "
            "in every function that recurses to the lower level, the lower-level call and every state-changing call of the own level lie on EVERY path (CFG must-pass); "
            "a call in the short-circuited operand of ||/&& or behind an early return leaves that dimension's lists unbuilt", 40)
    ck.rule("E7.halo-refined", "RootMeshNode::refine_unique hands every existing halo / patch mesh part to StandardRefinery<MeshPart>; a copy instead of a refinement is only "
            "admissible under get_num_entities(1) == 0 (no edges), for every shape dimension the driver instantiates (2D and 3D); the map that is walked and the action agree "
            "(parts of _halos go to add_halo, parts of _patches to add_patch)", 8)
    ck.rule("E7.rekey-fresh", "RootMeshNode::rename_halos moves every halo into a fresh map that then replaces _halos; re-inserting into _halos itself with a dropped "
            "insertion result loses a halo whenever a new rank equals the old rank of a halo not yet renamed (rank swaps)", 1)
    ck.rule("E7.parti-retry", "PartiIterative's centre search repeats when a cell was not reached: the loop flag can become true inside the loop "
            "(a flag reset to false and then only `&=`-ed is dead: unreached cells keep an uninitialised patch number)", 1)
    ck.rule("E7.nonnull-arg", "extract_patch hands a mesh part to add_halo/add_patch (which assert a non-null part) only if it is non-null on that path: assigned on every path, "
            "created in place (make_unique), or the call is control dependent on a non-null test of the argument (if(p), if(p != nullptr), `if(!p) continue;`, ...); "
            "a part that does not intersect the patch leaves the local null, so an unguarded call aborts", 2)
    ck.rule("E12.bcast-agree", "PartiIterative::build_elems_at_rank: sending and receiving branch broadcast identical counts into sufficiently long arrays and build graphs of identical dimensions", 1)
    ck.rule("E7.parti-precond", "PartiIterative checks num_patches > 0 and num_elems >= num_patches before drawing distinct centre cells", 2)
    ck.rule("E3.parti-two-pass", "PartiIterative::build_elems_at_rank: the offset pass (ptr[i+1] = |C[i]| + ptr[i]) and the fill pass (for r: for x in C[r]: idx[counter++] = x) "
            "enumerate the same rows [0,N) of the same container, N = number of domain nodes of the graph, one store and one cursor advance per element "
            "(patch count and communicator size are different extents: for num_patches != comm.size() a fill over the wrong one loses the cells of the remaining patches)", 1)
    ck.rule("E13.deduct-effect", "every deduct_target_sets_from_top/bottom<end_dim> call of RootMeshNode reaches an instantiation of TargetSetComputer that derives something: "
            "the <d,d> end of the template recursion is an empty function, so from_bottom<shape_dim> / from_top<0> leave the mesh part with the one target set it already had", 3)
    ck.rule("E13.patch-part-siblings", "sibling constructions of the same object agree: every RootMeshNode function that builds a patch mesh part with PatchMeshPartFactory "
            "(both extract_patch overloads, create_patch_meshpart) derives the lower-dimensional target sets by the same deduction on the index set holder of the node's own mesh", 1)
    ck.rule("E7.patch-reindex", "PatchMeshFactory::fill_index_sets: on EVERY path the index sets of the patch mesh are produced by Intern::PatchIndexMapping::apply(out, index sets of "
            "the base mesh, target sets of the patch part) and by nothing else (a shortcut that copies the base topology assumes the patch map is the identity, which the cell "
            "target set - the caller's cell order - need not be)", 1)
    ck.rule("E2.partition-kinds", "Partition wraps the elements-at-rank graph: get_num_patches() = Dom(_patches), get_num_elements() = Img(_patches); PartitionSet::find_partition "
            "compares its documented rank-count parameter `size` with an accessor of kind Dom (rank count vs element count must not be confused; fact base extended to "
            "kernel/geometry/partition_set.hpp, which the domain controls use to pick an explicitly given assignment)", 3)
    ck.rule("E2.sentinel-overflow", "Intern::parti_iterative_distance: elements of an array filled with numeric_limits<Index>::max() ('not reached') are incremented only under a test "
            "that they are not the sentinel (max() + 1 == 0: for meshes that are not facet-connected the unreached component looks nearest and patches stay empty)", 1)
    ck.rule("E7.patch-key-fresh", "RootMeshNode::extract_patch continues with the pointer returned by add_patch(key, part) as the part it just built; add_patch inserts with a "
            "non-replacing map insertion, so the key must be known to be absent (a second extraction under the same key returns the first patch)", 2)
    ck.rule("E2.deduct-ascending", "Intern::TargetSetComputer::top_to_bottom (the helper behind deduct_target_sets_from_top; fact base extended to intern/target_set_computer.hpp): the "
            "deduced target sets list the base entities in ASCENDING base order - the collection pass appends the variable of one ascending loop over the base entity range, "
            "through a counter from 0; halo lists are built in patch-local order and agree between neighbours only if both patch numberings follow the base order", 2)
    ck.rule("E2.cell-list-extent", "PatchMeshPartFactory(my_rank, elems_at_rank): the cell list has exactly the entries of row my_rank - appended one by one, or sized by "
            "degree(my_rank) of the same graph and row (degree() without argument is the maximum over all rows: smaller patches would be padded with cell 0)", 1)
    w = World(ck, tier)
    rule_member_binding(w)
    rule_kinds(w)
    rule_monotone(w)
    rule_parti(w)
    rule_neighbour_dim(w)
    rule_parti_level(w)
    rule_merge(w)
    rule_halo_rebuild(w)
    rule_wrapper_levels(w)
    rule_halo_refined(w)
    rule_rekey(w)
    rule_parti_retry(w)
    rule_nonnull_arg(w)
    rule_parti_two_pass(w)
    rule_patch_part_deduct(w)
    rule_patch_reindex(w)
    rule_partition_kinds(w)
    rule_sentinel_overflow(w)
    rule_patch_key_fresh(w)
    rule_deduct_ascending(w)
    rule_cell_list_extent(w)
    if w.norm.log:
        ck.note("read through normalisation (lib/norm_c12.py): " + "; ".join("%s: %s" % (k.replace("FEAT::Geometry::", "")[:70], ", ".join(sorted(set(v)))) for k, v in sorted(w.norm.log.items()))[:1500])
    ck.assume("TargetSet: entries are indices of the parent (base) mesh entities, one per part entity; IndexSet(i,j): i < get_num_entities(), value < get_index_bound(); "
              "Graph accessor contracts as in C19")
    ck.assume("documented parameter roles: tsh = target set holder of the patch mesh part (into the base mesh), ish = index set holder of the base mesh, ranks_at_elem = one node per "
              "base-mesh element, pim = one entry per base entity, tsf = one entry per base face; Factory protocol: the set to fill has get_num_entities(dim) entries")
    ck.note("NOT decided: that two neighbouring ranks enumerate the same halo set (needs order-isomorphism of the patch numberings), symmetry/completeness of the neighbour "
            "relation, survival under joint refinement, the std::map based PatchPartMap/PatchMeshPartSplitter, the pointer arithmetic of PatchHaloSplitPart::serialize/intersect, "
            "PatchIndexMapping::_build_tsf (arrays of arrays), non-emptiness of PartiIterative patches beyond its own size assertions, quality/termination of the genetic search")
    return ck.finish("Narrow structural clauses of C12 decided by index-kind inference over the clang facts of the patch/halo factories and the partitioners, instantiated for %s: "
                     "member wiring of the halo builders, index kinds of every subscript / adjacency lookup in the listed functions, the graph algebra of extract_patch, "
                     "ascending-by-construction halo lists, complete definition of the elements-at-rank graphs and the success/size guards of the partitioners. "
                     "Halo set equality between ranks and neighbour symmetry are runtime facts and are not decided." % (
                         "ConformalMesh<Hypercube<2>>" + (", Simplex<2>, Simplex<3>, Hypercube<3>" if tier == "thorough" else "")))
