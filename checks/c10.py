"""C10 — refined meshes are conforming and every mesh part follows its parent entities.

Engine E10: the 2-level refinement of conformal meshes is cell-local and table driven.  The check
extracts, from the clang facts (no FEAT3 code is executed),

  * the 20 `StandardIndexRefiner<Shape,cell_dim,face_dim>::refine` templates symbolically in the
    coarse entity number i, the index offsets and the coarse index-set entries,
  * `StandardRefinementTraits`, `Shape::FaceTraits`, `EntityCounter`, `FaceIndexMapping`,
    `CongruencyMapping`, the decision trees of `CongruencySampler::compare`, the glue classes
    `SubIndexMapping` / `TargetIndexMapping`, the vertex refiners and the `StandardTargetRefiner`s,

and decides, as a complete finite case analysis on the reference cell of every shape and for every
admissible orientation of its sub-entities, the clauses listed in run().  Because refinement is
cell-local (a template reads only the index sets of the coarse cell, of its faces and of its edges)
the case analysis covers every conforming mesh.
"""
import itertools
import re
from fractions import Fraction

import featlib
from featlib import Check, rel
import refine_tables as rt
from refine_tables import Lin, Unsupported, SymEval, targs, shape_of, shape_name

GEO = featlib.repo_path("kernel/geometry/")
FILES = GEO + "|" + featlib.repo_path("kernel/shape.hpp") + "|/verif/tu/c10_"

SHAPES = [("H", 1), ("H", 2), ("H", 3), ("S", 1), ("S", 2), ("S", 3)]


def face_shape(sh, d):
    return ("V", 0) if d == 0 else (sh[0], d)


def sname(sh):
    return shape_name(sh)


def tname(sh, cd, fd):
    return "%s,%d,%d" % (sname(sh), cd, fd)


# =================================================================================================
# domain objects of the symbolic extraction
# =================================================================================================

class Ctx:
    """what one symbolic run of a refine() body produced"""

    def __init__(self):
        self.writes = []     # (row Lin, j or None, value, line, in_loop)
        self.sims = {}       # id -> dict(cls, args, line)
        self.rows = {}       # rowkey -> Lin


class Holder:
    def __init__(self, ctx, tag):
        self.ctx, self.tag = ctx, tag

    def mcall(self, ev, name, node, args):
        if name == "get_index_set":
            ta = targs(node.get("cfull", ""))
            if len(ta) != 2:
                raise Unsupported("get_index_set without <cell,face> arguments (line %s)" % node.get("l"))
            return IdxSet(self.ctx, self.tag, int(ta[0]), int(ta[1]))
        raise Unsupported("IndexSetHolder::%s (line %s)" % (name, node.get("l")))


class IdxSet:
    def __init__(self, ctx, tag, cd, fd):
        self.ctx, self.tag, self.cd, self.fd = ctx, tag, cd, fd

    def mcall(self, ev, name, node, args):
        if name == "get_num_entities":
            return Lin.atom(("num", self.tag, self.cd))
        raise Unsupported("IndexSet::%s (line %s)" % (name, node.get("l")))

    def op_index(self, ev, i, node):
        return IdxRow(self.ctx, self, rt.lin(i))

    def __repr__(self):
        return "%s<%d,%d>" % (self.tag, self.cd, self.fd)


class IdxRow:
    def __init__(self, ctx, iset, row):
        self.ctx, self.iset, self.row = ctx, iset, row

    def op_index(self, ev, k, node):
        kk = rt.lin(k).as_int()
        key = repr(self.row)
        self.ctx.rows[key] = self.row
        return Lin.atom(("ent", self.iset.tag, self.iset.cd, self.iset.fd, key, kk))

    def __repr__(self):
        return "%r[%s]" % (self.iset, self.row)


class OutSet:
    def __init__(self, ctx):
        self.ctx = ctx

    def op_index(self, ev, i, node):
        return OutRow(self.ctx, rt.lin(i))


class OutRow:
    def __init__(self, ctx, row):
        self.ctx, self.row = ctx, row

    def op_index(self, ev, j, node):
        return OutSlot(self.ctx, self.row, rt.lin(j).as_int())


class OutSlot:
    def __init__(self, ctx, row, j):
        self.ctx, self.row, self.j = ctx, row, j

    def get(self):
        raise Unsupported("read of an output slot")

    def set(self, v, ev, node):
        self.ctx.writes.append((self.row, self.j, v, node.get("l"), ev.loop_depth > 0))


class OffsArr:
    def op_index(self, ev, i, node):
        return Lin.atom(("off", rt.lin(i).as_int()))


class MapObj:
    """SubIndexMapping / TargetIndexMapping instance inside a template"""

    def __init__(self, ctx, kind, cls, args, line):
        self.ctx, self.kind, self.cls, self.args, self.line = ctx, kind, cls, args, line
        self.id = len(ctx.sims)
        ctx.sims[self.id] = self

    def mcall(self, ev, name, node, args):
        if name != "map":
            raise Unsupported("%s::%s (line %s)" % (self.cls, name, node.get("l")))
        ints = [rt.lin(a).as_int() for a in args]
        if self.kind == "sim" and len(ints) == 2:
            return Lin.atom(("sim", self.id, ints[0], ints[1]))
        if self.kind == "tim" and len(ints) == 1:
            return Lin.atom(("tim", self.id, ints[0]))
        raise Unsupported("%s::map with %d arguments" % (self.cls, len(ints)))


class THolder:
    def __init__(self, ctx):
        self.ctx = ctx

    def mcall(self, ev, name, node, args):
        if name == "get_target_set":
            ta = targs(node.get("cfull", ""))
            if len(ta) != 1:
                raise Unsupported("get_target_set without <dim> (line %s)" % node.get("l"))
            return TgtSet(self.ctx, int(ta[0]))
        if name == "get_num_entities" and len(args) == 1:
            return Lin.atom(("tnum", rt.lin(args[0]).as_int()))
        raise Unsupported("TargetSetHolder::%s (line %s)" % (name, node.get("l")))


class TgtSet:
    def __init__(self, ctx, d):
        self.ctx, self.d = ctx, d

    def mcall(self, ev, name, node, args):
        if name == "get_num_entities":
            return Lin.atom(("tnum", self.d))
        raise Unsupported("TargetSet::%s (line %s)" % (name, node.get("l")))

    def op_index(self, ev, i, node):
        row = rt.lin(i)
        key = repr(row)
        self.ctx.rows[key] = row
        return Lin.atom(("tgt", self.d, key))

    def __repr__(self):
        return "target<%d>" % self.d


class TgtOut:
    def __init__(self, ctx):
        self.ctx = ctx

    def op_index(self, ev, i, node):
        return OutSlot(self.ctx, rt.lin(i), None)


def hook_assert(ev, node, env, fn):
    ev.asserts.append(node)
    return None


def make_eval(facts, ctx):
    def c_sim(ev, node, args):
        return MapObj(ctx, "sim", node.get("ccls", ""), args, node.get("l"))

    def c_tim(ev, node, args):
        return MapObj(ctx, "tim", node.get("ccls", ""), args, node.get("l"))

    return SymEval([facts], call_hooks=[(r"^FEAT::assertion$", hook_assert)],
                   construct_hooks=[(r"Intern::SubIndexMapping<", c_sim), (r"Intern::TargetIndexMapping<", c_tim)])


class Template:
    pass


def extract_index_template(facts, fn):
    """symbolic run of StandardIndexRefiner<Shape,cd,fd>::refine -> Template"""
    ta = targs(fn.cls)
    t = Template()
    t.fn = fn
    t.shape, t.cd, t.fd = shape_of(ta[0]), int(ta[1]), int(ta[2])
    if len(fn.params) != 4:
        raise Unsupported("refine() with %d parameters" % len(fn.params))
    ctx = Ctx()
    ev = make_eval(facts, ctx)
    ret = ev.run(fn, [OutSet(ctx), Lin.atom(("offset",)), OffsArr(), Holder(ctx, "in")])
    t.ctx, t.ret, t.loops = ctx, ret, ev.loops
    return t


def extract_target_template(facts, fn):
    ta = targs(fn.cls)
    t = Template()
    t.fn = fn
    t.shape, t.cd = shape_of(ta[0]), int(ta[1])
    ctx = Ctx()
    ev = make_eval(facts, ctx)
    args = [TgtOut(ctx), Lin.atom(("offset",)), OffsArr(), THolder(ctx)]
    if len(fn.params) == 6:
        args += [Holder(ctx, "src"), Holder(ctx, "trg")]
    elif len(fn.params) != 4:
        raise Unsupported("refine() with %d parameters" % len(fn.params))
    ret = ev.run(fn, args)
    t.ctx, t.ret, t.loops, t.asserts = ctx, ret, ev.loops, ev.asserts
    return t


def run(tier):
    ck = Check("C10", tier)
    facts = featlib.extract("tu/c10_refine.cpp", files=FILES)
    ck.tu(facts)
    for f in facts.find(qn_re=r"Intern::StandardIndexRefiner<.*>::refine$"):
        t = extract_index_template(facts, f)
        print(tname(t.shape, t.cd, t.fd), t.ret, t.loops, len(t.ctx.writes))
        for w in t.ctx.writes[:6]:
            print("   ", w)
    for f in facts.find(qn_re=r"Intern::StandardTargetRefiner<.*>::refine$"):
        try:
            t = extract_target_template(facts, f)
        except Unsupported as e:
            print(f.cls, "UNSUPPORTED", e)
            continue
        print(f.cls, t.ret, t.loops, len(t.ctx.writes))
        for w in t.ctx.writes[:6]:
            print("   ", w)
    return 2
