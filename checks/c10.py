"""C10 — refined meshes are conforming and every mesh part follows its parent entities.

Engine E10: the 2-level refinement of conformal meshes is cell-local and table driven.  The check
extracts, from the clang facts (no FEAT3 code is executed),

  * the 20 `StandardIndexRefiner<Shape,cell_dim,face_dim>::refine` templates symbolically in the
    coarse entity number i, the index offsets and the coarse index-set entries,
  * `StandardRefinementTraits`, `Shape::FaceTraits`, `EntityCounter`, `FaceIndexMapping`,
    `CongruencyMapping`, the decision trees of `CongruencySampler::compare`, the glue classes
    `SubIndexMapping` / `TargetIndexMapping`, the vertex refiners and the `StandardTargetRefiner`s,

and decides, as a complete finite case analysis on the reference cell of every shape and for every
admissible orientation of its sub-entities, the clauses listed in run().  Because refinement is
cell-local (a template reads only the index sets of the coarse cell, of its faces and of its edges)
the case analysis covers every conforming mesh.
"""
import itertools
import re
from fractions import Fraction

import featlib
from featlib import Check, rel
import refine_tables as rt
from refine_tables import Lin, Unsupported, SymEval, targs, shape_of, shape_name
import norm_c10

GEO = featlib.repo_path("kernel/geometry/")
FILES = GEO + "|" + featlib.repo_path("kernel/shape.hpp") + "|/verif/tu/c10_"

SHAPES = [("H", 1), ("H", 2), ("H", 3), ("S", 1), ("S", 2), ("S", 3)]


def face_shape(sh, d):
    return ("V", 0) if d == 0 else (sh[0], d)


def sname(sh):
    return shape_name(sh)


def tname(sh, cd, fd):
    return "%s,%d,%d" % (sname(sh), cd, fd)


# =================================================================================================
# domain objects of the symbolic extraction
# =================================================================================================

class Ctx:
    """what one symbolic run of a refine() body produced"""

    def __init__(self):
        self.writes = []     # (row Lin, j or None, value, line, in_loop, tag)
        self.sims = {}       # id -> MapObj
        self.rows = {}       # rowkey -> Lin
        self.vtx = {}        # rowkey -> VtxAcc (vertex refiners)


class Holder:
    def __init__(self, ctx, tag):
        self.ctx, self.tag = ctx, tag

    def mcall(self, ev, name, node, args):
        if name == "get_index_set":
            ta = targs(node.get("cfull", ""))
            if len(ta) != 2:
                raise Unsupported("get_index_set without <cell,face> arguments (line %s)" % node.get("l"))
            return IdxSet(self.ctx, self.tag, int(ta[0]), int(ta[1]))
        if name == "get_index_set_wrapper":
            ta = targs(node.get("cfull", ""))
            if len(ta) != 1:
                raise Unsupported("get_index_set_wrapper without <dim> (line %s)" % node.get("l"))
            return InWrapper(self.ctx, self.tag, int(ta[0]))
        raise Unsupported("IndexSetHolder::%s (line %s)" % (name, node.get("l")))


class InWrapper:
    def __init__(self, ctx, tag, cd):
        self.ctx, self.tag, self.cd = ctx, tag, cd

    def mcall(self, ev, name, node, args):
        if name == "get_index_set":
            ta = targs(node.get("cfull", ""))
            if len(ta) == 1:
                return IdxSet(self.ctx, self.tag, self.cd, int(ta[0]))
        raise Unsupported("IndexSetWrapper::%s (line %s)" % (name, node.get("l")))


class HolderOut:
    def __init__(self, ctx):
        self.ctx = ctx

    def mcall(self, ev, name, node, args):
        ta = targs(node.get("cfull", ""))
        if name == "get_index_set_wrapper" and len(ta) == 1:
            return OutWrapper(self.ctx, int(ta[0]))
        if name == "get_index_set" and len(ta) == 2:
            return OutSet(self.ctx, (int(ta[0]), int(ta[1])))
        raise Unsupported("output IndexSetHolder::%s (line %s)" % (name, node.get("l")))


class OutWrapper:
    def __init__(self, ctx, cd):
        self.ctx, self.cd = ctx, cd

    def mcall(self, ev, name, node, args):
        ta = targs(node.get("cfull", ""))
        if name == "get_index_set" and len(ta) == 1:
            return OutSet(self.ctx, (self.cd, int(ta[0])))
        raise Unsupported("output IndexSetWrapper::%s (line %s)" % (name, node.get("l")))


class IdxSet:
    def __init__(self, ctx, tag, cd, fd):
        self.ctx, self.tag, self.cd, self.fd = ctx, tag, cd, fd

    def mcall(self, ev, name, node, args):
        if name == "get_num_entities":
            return Lin.atom(("num", self.tag, self.cd))
        raise Unsupported("IndexSet::%s (line %s)" % (name, node.get("l")))

    def op_index(self, ev, i, node):
        return IdxRow(self.ctx, self, rt.lin(i))

    def __repr__(self):
        return "%s<%d,%d>" % (self.tag, self.cd, self.fd)


class IdxRow:
    def __init__(self, ctx, iset, row):
        self.ctx, self.iset, self.row = ctx, iset, row

    def op_index(self, ev, k, node):
        kk = rt.lin(k).as_int()
        key = repr(self.row)
        self.ctx.rows[key] = self.row
        return Lin.atom(("ent", self.iset.tag, self.iset.cd, self.iset.fd, key, kk))

    def __repr__(self):
        return "%r[%s]" % (self.iset, self.row)


class OutSet:
    def __init__(self, ctx, tag=None):
        self.ctx, self.tag = ctx, tag

    def op_index(self, ev, i, node):
        return OutRow(self.ctx, rt.lin(i), self.tag)


class OutRow:
    def __init__(self, ctx, row, tag=None):
        self.ctx, self.row, self.tag = ctx, row, tag

    def op_index(self, ev, j, node):
        return OutSlot(self.ctx, self.row, rt.lin(j).as_int(), self.tag)


class OutSlot:
    def __init__(self, ctx, row, j, tag=None):
        self.ctx, self.row, self.j, self.tag = ctx, row, j, tag

    def get(self):
        raise Unsupported("read of an output slot")

    def set(self, v, ev, node):
        self.ctx.writes.append((self.row, self.j, v, node.get("l"), ev.loop_depth > 0, self.tag))


class OffsArr:
    def op_index(self, ev, i, node):
        return Lin.atom(("off", rt.lin(i).as_int()))


class MapObj:
    """SubIndexMapping / TargetIndexMapping instance inside a template"""

    def __init__(self, ctx, kind, cls, args, line):
        self.ctx, self.kind, self.cls, self.args, self.line = ctx, kind, cls, args, line
        self.id = len(ctx.sims)
        ctx.sims[self.id] = self

    def mcall(self, ev, name, node, args):
        if name != "map":
            raise Unsupported("%s::%s (line %s)" % (self.cls, name, node.get("l")))
        ints = [rt.lin(a).as_int() for a in args]
        if self.kind == "sim" and len(ints) == 2:
            return Lin.atom(("sim", self.id, ints[0], ints[1]))
        if self.kind == "tim" and len(ints) == 1:
            return Lin.atom(("tim", self.id, ints[0]))
        raise Unsupported("%s::map with %d arguments" % (self.cls, len(ints)))


class THolder:
    def __init__(self, ctx):
        self.ctx = ctx

    def mcall(self, ev, name, node, args):
        if name == "get_target_set":
            ta = targs(node.get("cfull", ""))
            if len(ta) != 1:
                raise Unsupported("get_target_set without <dim> (line %s)" % node.get("l"))
            return TgtSet(self.ctx, int(ta[0]))
        if name == "get_num_entities" and len(args) == 1:
            return Lin.atom(("tnum", rt.lin(args[0]).as_int()))
        raise Unsupported("TargetSetHolder::%s (line %s)" % (name, node.get("l")))


class TgtSet:
    def __init__(self, ctx, d):
        self.ctx, self.d = ctx, d

    def mcall(self, ev, name, node, args):
        if name == "get_num_entities":
            return Lin.atom(("tnum", self.d))
        raise Unsupported("TargetSet::%s (line %s)" % (name, node.get("l")))

    def op_index(self, ev, i, node):
        row = rt.lin(i)
        key = repr(row)
        self.ctx.rows[key] = row
        return Lin.atom(("tgt", self.d, key))

    def __repr__(self):
        return "target<%d>" % self.d


class TgtOut:
    def __init__(self, ctx, tag=None):
        self.ctx, self.tag = ctx, tag

    def op_index(self, ev, i, node):
        return OutSlot(self.ctx, rt.lin(i), None, self.tag)


class THolderOut:
    def __init__(self, ctx):
        self.ctx = ctx

    def mcall(self, ev, name, node, args):
        ta = targs(node.get("cfull", ""))
        if name == "get_target_set" and len(ta) == 1:
            return TgtOut(self.ctx, int(ta[0]))
        raise Unsupported("output TargetSetHolder::%s (line %s)" % (name, node.get("l")))


class VIn:
    def __init__(self, ctx):
        self.ctx = ctx

    def mcall(self, ev, name, node, args):
        if name == "get_num_vertices":
            return Lin.atom(("num", "in", 0))
        raise Unsupported("VertexSet::%s (line %s)" % (name, node.get("l")))

    def op_index(self, ev, i, node):
        return VtxRef(rt.lin(i))


class VtxRef:
    def __init__(self, idx):
        self.idx = idx


class VOut:
    def __init__(self, ctx):
        self.ctx = ctx

    def mcall(self, ev, name, node, args):
        if name == "get_num_vertices":
            return Lin.atom(("vout",))
        raise Unsupported("VertexSet::%s (line %s)" % (name, node.get("l")))

    def op_index(self, ev, i, node):
        row = rt.lin(i)
        key = repr(row)
        if key not in self.ctx.vtx:
            self.ctx.vtx[key] = VtxAcc(row, node.get("l") if node else None, ev.loop_depth > 0)
        return self.ctx.vtx[key]


class VtxAcc:
    """an output vertex: linear combination of input vertices"""

    def __init__(self, row, line, in_loop):
        self.row, self.line, self.in_loop = row, line, in_loop
        self.coef = None      # None: not yet defined (uninitialised memory)
        self.problems = []

    def mcall(self, ev, name, node, args):
        if name == "format":
            a = args[0] if args else Lin(0)
            if not (isinstance(a, Lin) and a.is_const() and a.c == 0) and a != 0:
                raise Unsupported("vertex.format(%s) (line %s)" % (a, node.get("l")))
            self.coef = {}
            return None
        if name == "axpy" and len(args) == 2 and isinstance(args[1], VtxRef):
            if self.coef is None:
                self.problems.append("axpy onto an output vertex that was not cleared first (line %s)" % node.get("l"))
                self.coef = {}
            al = args[0] if isinstance(args[0], Fraction) else Fraction(rt.lin(args[0]).as_int())
            k = args[1].idx
            self.coef[k] = self.coef.get(k, Fraction(0)) + al
            return self
        raise Unsupported("Tiny::Vector::%s on an output vertex (line %s)" % (name, node.get("l")))

    def op_assign(self, ev, v, node):
        if not isinstance(v, VtxRef):
            raise Unsupported("assignment of %r to an output vertex (line %s)" % (v, node.get("l")))
        self.coef = {v.idx: Fraction(1)}


def hook_assert(ev, node, env, fn):
    try:
        val = ev.rvalue(ev.eval(node["a"][0], env, fn))
    except Unsupported as e:
        val = e
    ev.asserts.append((node, val, fn))
    return None


def make_eval(facts, ctx):
    def c_sim(ev, node, args):
        return MapObj(ctx, "sim", node.get("ccls", ""), args, node.get("l"))

    def c_tim(ev, node, args):
        return MapObj(ctx, "tim", node.get("ccls", ""), args, node.get("l"))

    ev = SymEval([facts], call_hooks=[(r"^FEAT::assertion$", hook_assert)],
                 construct_hooks=[(r"Intern::SubIndexMapping<", c_sim), (r"Intern::TargetIndexMapping<", c_tim)])

    def save():
        return (list(ctx.writes), dict(ctx.sims), dict(ctx.rows), dict(ctx.vtx))

    def restore(d):
        ctx.writes[:] = d[0]
        ctx.sims.clear(); ctx.sims.update(d[1])
        ctx.rows.clear(); ctx.rows.update(d[2])
        ctx.vtx.clear(); ctx.vtx.update(d[3])
    ev.state_hooks.append((save, restore))
    return ev


class Template:
    pass


def extract_index_template(facts, fn):
    """symbolic run of StandardIndexRefiner<Shape,cd,fd>::refine -> Template"""
    ta = targs(fn.cls)
    t = Template()
    t.fn = fn
    t.shape, t.cd, t.fd = shape_of(ta[0]), int(ta[1]), int(ta[2])
    if len(fn.params) != 4:
        raise Unsupported("refine() with %d parameters" % len(fn.params))
    ctx = Ctx()
    ev = make_eval(facts, ctx)
    ret = ev.run(fn, [OutSet(ctx), Lin.atom(("offset",)), OffsArr(), Holder(ctx, "in")])
    t.ctx, t.ret, t.loops = ctx, ret, ev.loops
    return t


def extract_target_template(facts, fn):
    ta = targs(fn.cls)
    t = Template()
    t.fn = fn
    t.shape, t.cd = shape_of(ta[0]), int(ta[1])
    ctx = Ctx()
    ev = make_eval(facts, ctx)
    args = [TgtOut(ctx), Lin.atom(("offset",)), OffsArr(), THolder(ctx)]
    if len(fn.params) == 6:
        args += [Holder(ctx, "src"), Holder(ctx, "trg")]
    elif len(fn.params) != 4:
        raise Unsupported("refine() with %d parameters" % len(fn.params))
    ret = ev.run(fn, args)
    t.ctx, t.ret, t.loops, t.asserts = ctx, ret, ev.loops, ev.asserts
    return t



# =================================================================================================
# extracted tables
# =================================================================================================

class Bad(Exception):
    """a definite inconsistency met while evaluating the tables on the reference cell"""
    pass


class Tables:
    def __init__(self, facts):
        self.facts = facts
        self.ft = {}        # (shape, d) -> Shape::FaceTraits<shape,d>::count
        self.rc = {}        # (shape, d) -> StandardRefinementTraits<shape,d>::count
        self.fim = {}       # (shape, cd, fd) -> FaceIndexMapping rows
        self.fim_fn = {}
        self.cm = {}        # (shape, fd) -> CongruencyMapping rows
        self.cm_fn = {}
        self.paths = {}     # compare instantiation (full name) -> decision paths
        self.tmpl = {}      # (shape, cd, fd) -> Template (normalised: .slots)
        self.syms = {}      # shape -> admissible vertex permutations (symmetries of the shape)
        self.models = {}    # class name of a Sub/TargetIndexMapping -> MapModel

    def sampler_paths(self, fn):
        if fn.full not in self.paths:
            self.paths[fn.full] = rt.decision_paths(fn)
        return self.paths[fn.full]


def harvest_constants(T, facts):
    for f in facts.functions:
        if f.tk == "pattern":
            continue
        for n in f.nodes():
            if n.get("k") != "Ref" or "v" not in n:
                continue
            qn = n.get("qn", "")
            m = re.match(r"^FEAT::(Shape::FaceTraits|Geometry::Intern::StandardRefinementTraits)<(.*), (\d+)>::count$", qn)
            if not m:
                continue
            sh = shape_of(m.group(2))
            if sh is None:
                continue
            (T.ft if "FaceTraits" in m.group(1) else T.rc)[(sh, int(m.group(3)))] = int(n["v"])


def compute_symmetries(T):
    for sh in [("H", 1), ("S", 1), ("H", 2), ("S", 2)]:
        nv = T.ft[(sh, 0)]
        perms = list(itertools.permutations(range(nv)))
        if sh[1] == 1:
            T.syms[sh] = perms
            continue
        edges = {frozenset(r) for r in T.fim[(sh, 1, 0)]}
        T.syms[sh] = [p for p in perms if {frozenset(p[v] for v in e) for e in edges} == edges]
    T.syms[("V", 0)] = [(0,)]


# ---- glue classes (SubIndexMapping / TargetIndexMapping): what `map()` computes ------------------

class SymArr:
    def __init__(self, name, depth):
        self.name, self.depth = name, depth

    def op_index(self, ev, i, node):
        i = rt.lin(i)
        if self.depth == 1:
            return Lin.atom((self.name, i.key()))
        return SymArr((self.name, i.key()), self.depth - 1)


def sym_value(x, binding):
    """value of an index expression built from SymArr atoms under a binding base name -> container"""
    def atom_val(a):
        if len(a) != 2:
            raise Unsupported("unexpected atom %r in an orientation lookup" % (a,))
        base, key = a
        cont = binding[base] if isinstance(base, str) else atom_val(base)
        return cont[key_val(key)]

    def key_val(key):
        c, items = key
        if c == 0 and len(items) == 1 and items[0][1] == 1:
            return atom_val(items[0][0])
        v = c
        for a, k in items:
            v += k * atom_val(a)
        return v
    return key_val(rt.lin(x).key())


class MapModel:
    """map(key) = CongruencyMapping<Y,z>[ compare_n(src, trg) ][idx]"""
    pass


def build_map_model(T, cls, kind):
    facts = T.facts
    ctors = [f for f in facts.functions if f.cls == cls and f.d.get("ctor") and f.tk != "pattern" and len(f.params) == 3]
    maps = [f for f in facts.functions if f.cls == cls and f.name == "map" and f.tk != "pattern"]
    if len(ctors) < 1 or len(maps) != 1:
        raise Unsupported("%s: constructor/map not found in the fact base" % cls)
    ta = targs(cls)
    model = MapModel()
    model.cls, model.kind = cls, kind
    model.shape = shape_of(ta[0])
    model.cmp, model.map, model.fn = [], {}, maps[0]

    def elem(ev, obj, k):
        if hasattr(obj, "op_index"):
            return obj.op_index(ev, Lin(k), None)
        if isinstance(obj, rt.UObj):
            fs = ev.by_qn.get((obj.cls + "::operator[]", 1))
            if fs:
                return ev.run(fs[0], [Lin(k)], this=obj)
        raise Unsupported("%s: cannot index %r" % (cls, obj))

    def h_compare(ev, node, env, fn):
        X = shape_of(node.get("ccls", ""))
        target = ev.lookup(node)
        if X is None or target is None or len(node.get("a", [])) != 2:
            raise Unsupported("%s: compare call not resolvable (line %s)" % (cls, node.get("l")))
        a0 = ev.rvalue(ev.eval(node["a"][0], env, fn))
        a1 = ev.rvalue(ev.eval(node["a"][1], env, fn))
        nv = T.ft[(X, 0)]
        model.cmp.append({"shape": X, "fn": target, "src": [elem(ev, a0, k) for k in range(nv)],
                          "trg": [elem(ev, a1, k) for k in range(nv)]})
        return Lin.atom(("orient", len(model.cmp) - 1))

    def h_cm(ev, node, env, fn):
        tb = targs(node.get("ccls", ""))
        Y, z = shape_of(tb[0]), int(tb[1])
        o = rt.lin(ev.rvalue(ev.eval(node["a"][0], env, fn)))
        idx = rt.lin(ev.rvalue(ev.eval(node["a"][1], env, fn))).as_int()
        if o.c != 0 or len(o.t) != 1 or list(o.t.values()) != [1] or list(o.t)[0][0] != "orient":
            raise Unsupported("%s: orientation argument of CongruencyMapping::map is %s" % (cls, o))
        return Lin.atom(("cm", Y, z, list(o.t)[0][1], idx))

    ev = SymEval([facts], call_hooks=[(r"Intern::CongruencySampler<.*>::compare$", h_compare),
                                      (r"Intern::CongruencyMapping<.*>::map$", h_cm),
                                      (r"^FEAT::assertion$", hook_assert)])
    obj = rt.UObj(cls)
    if kind == "sim":
        args = [SymArr("sv", 1), SymArr("sc", 1), SymArr("cv", 2)]
        cd, fd = int(ta[1]), int(ta[2])
        ncell = T.ft[(model.shape, cd)]
        nface = T.ft[(face_shape(model.shape, cd), fd)]
        keys = [(a, b) for a in range(ncell) for b in range(nface)]
    else:
        args = [SymArr("tv", 1), SymArr("sv", 1), SymArr("vi", 1)]
        fd = int(ta[1])
        keys = [(b,) for b in range(T.ft[(model.shape, fd)])]
    ev.run(ctors[0], args, this=obj)
    model.asserts = ev.asserts
    for key in keys:
        r = rt.lin(ev.run(maps[0], [Lin(x) for x in key], this=obj))
        if r.c != 0 or len(r.t) != 1 or list(r.t.values()) != [1] or list(r.t)[0][0] != "cm":
            raise Unsupported("%s::map%s is not a CongruencyMapping lookup: %s" % (cls, key, r))
        model.map[key] = list(r.t)[0][1:]
    return model


def map_model(T, cls, kind):
    if cls not in T.models:
        try:
            T.models[cls] = build_map_model(T, cls, kind)
        except Unsupported as e:
            T.models[cls] = e
    m = T.models[cls]
    if isinstance(m, Exception):
        raise m
    return m


def model_eval(T, model, key, binding):
    if key not in model.map:
        raise Bad("%s::map%s: arguments out of range" % (model.cls, key))
    Y, z, n, idx = model.map[key]
    c = model.cmp[n]
    src = [sym_value(x, binding) for x in c["src"]]
    trg = [sym_value(x, binding) for x in c["trg"]]
    code = rt.decide(T.sampler_paths(c["fn"]), src, trg)
    rows = T.cm.get((Y, z))
    if rows is None:
        raise Unsupported("CongruencyMapping<%s,%d> not extracted" % (sname(Y), z))
    if code is None or not (0 <= code < len(rows)):
        raise Bad("CongruencySampler<%s>::compare(%s, %s) returns %s (no valid orientation code)" % (sname(c["shape"]), src, trg, code))
    if not (0 <= idx < len(rows[code])):
        raise Bad("CongruencyMapping<%s,%d>::map(%d,%d) out of range" % (sname(Y), z, code, idx))
    return rows[code][idx]


# =================================================================================================
# template normalisation (clause 1)
# =================================================================================================

class Slot:
    def __init__(self, p, m, parent, child, line):
        self.p, self.m, self.parent, self.child, self.line = p, m, parent, child, line

    def __repr__(self):
        par = "i" if self.parent[0] == "self" else "<%d>[%d]" % (self.parent[1], self.parent[2])
        ch = str(self.child[1]) if self.child[0] == "const" else "map#%d(%d,%d)" % self.child[1:]
        return "off[%d]+%d*%s+%s" % (self.p, self.m, par, ch)


def decompose(T, tm, value, line):
    """value = index_offsets[p] + m*parent + child  ->  (Slot, problem or None)"""
    sd = tm.shape[1]
    value = rt.lin(value)
    offs = [(a, k) for a, k in value.t.items() if a[0] == "off"]
    loops = [(a, k) for a, k in value.t.items() if a[0] == "loop"]
    ents = [(a, k) for a, k in value.t.items() if a[0] == "ent"]
    sims = [(a, k) for a, k in value.t.items() if a[0] == "sim"]
    other = [a for a in value.t if a[0] not in ("off", "loop", "ent", "sim")]
    if other:
        raise Unsupported("unexpected term %s in %s (line %s)" % (rt.atom_name(other[0]), value, line))
    if len(offs) != 1 or offs[0][1] != 1:
        return None, "value %s does not contain exactly one index offset" % value
    p = offs[0][0][1]
    if len(loops) + len(ents) != 1:
        return None, "value %s does not refer to exactly one coarse entity" % value
    if loops:
        parent, m, origin = ("self",), loops[0][1], sd
    else:
        a, m = ents[0]
        _, tag, cd, fd, rowkey, kk = a
        row = tm.ctx.rows[rowkey]
        if not (tag == "in" and cd == sd and row == Lin.atom(tm.loops[0]["atom"])):
            return None, "value %s reads index set <%d,%d> at row %s (not the index set row of the coarse entity i of dimension %d)" % (value, cd, fd, row, sd)
        if not (0 <= kk < T.ft[(tm.shape, fd)]):
            return None, "local face index %d out of range in %s" % (kk, value)
        parent, origin = ("face", fd, kk), fd
    if len(sims) > 1 or (sims and sims[0][1] != 1):
        return None, "value %s has more than one orientation lookup" % value
    child = ("sim",) + sims[0][0][1:] if sims else ("const", value.c)
    slot = Slot(p, m, parent, child, line)
    if p != origin:
        return slot, "index_offsets[%d] is added to an index of an entity of dimension %d (%s)" % (p, origin, value)
    want = T.rc.get((face_shape(tm.shape, origin), tm.fd))
    if m != want:
        return slot, "multiplier %d of the parent index, but a coarse %d-entity has %s fine %d-entities (%s)" % (m, origin, want, tm.fd, value)
    if sims:
        if value.c != 0:
            return slot, "constant %d added to an orientation lookup (%s)" % (value.c, value)
        sim = tm.ctx.sims[sims[0][0][1]]
        ta = targs(sim.cls)
        if sim.kind != "sim" or shape_of(ta[0]) != tm.shape or int(ta[1]) != origin:
            return slot, "%s used for children of a %d-face of %s" % (sim.cls.rsplit("::", 1)[-1], origin, sname(tm.shape))
        if parent[0] != "face" or sims[0][0][2] != parent[2]:
            return slot, "orientation of local face %d used for a child of local face %s (%s)" % (sims[0][0][2], parent[2:] and parent[2], value)
        if not (len(sim.args) == 3 and isinstance(sim.args[0], IdxRow) and isinstance(sim.args[1], IdxRow) and isinstance(sim.args[2], IdxSet)):
            raise Unsupported("SubIndexMapping at line %s is constructed from %r (not index-set rows / an index set)" % (sim.line, sim.args))
        ok = (len(sim.args) == 3 and isinstance(sim.args[0], IdxRow) and isinstance(sim.args[1], IdxRow) and isinstance(sim.args[2], IdxSet)
              and (sim.args[0].iset.tag, sim.args[0].iset.cd, sim.args[0].iset.fd) == ("in", sd, 0)
              and (sim.args[1].iset.tag, sim.args[1].iset.cd, sim.args[1].iset.fd) == ("in", sd, origin)
              and (sim.args[2].tag, sim.args[2].cd, sim.args[2].fd) == ("in", origin, 0)
              and sim.args[0].row == Lin.atom(tm.loops[0]["atom"]) and sim.args[1].row == Lin.atom(tm.loops[0]["atom"]))
        if not ok:
            return slot, "SubIndexMapping at line %s is not built from (vertices of cell i, %d-faces of cell i, vertices-at-%d-face set): %r" % (sim.line, origin, origin, sim.args)
        nb = T.ft[(face_shape(tm.shape, origin), int(ta[2]))]
        if not (0 <= sims[0][0][3] < nb):
            return slot, "second argument of map(%d,%d) out of range %d" % (sims[0][0][2], sims[0][0][3], nb)
    else:
        if not (0 <= value.c < m):
            return slot, "child number %d is not below the number %d of children (%s)" % (value.c, m, value)
    return slot, None


def analyse_template(T, ck, tm):
    """-> True iff tm.slots is complete and usable for the reference-cell analysis"""
    name = tname(tm.shape, tm.cd, tm.fd)
    fn = tm.fn
    sd = tm.shape[1]
    tm.slots = {}
    prob = []
    if len(tm.loops) != 1:
        raise Unsupported("%d loops with different ranges (expected loops over the coarse %d-entities only)" % (len(tm.loops), sd))
    b = tm.loops[0]["bound"]
    if b != Lin.atom(("num", "in", sd)):
        if b.c == 0 and len(b.t) == 1 and list(b.t)[0][0] == "num" and list(b.t.values()) == [1]:
            prob.append("the loop runs over the coarse %d-entities, not over the coarse %d-entities" % (list(b.t)[0][2], sd))
        else:
            raise Unsupported("loop bound %s is not an entity count" % b)
    if any(not w[4] for w in tm.ctx.writes):
        raise Unsupported("index tuples written outside the loop over the coarse entities")
    c = None
    rows = {}
    if not prob:
        i_atom = tm.loops[0]["atom"]
        for row, j, val, line, _, _tag in tm.ctx.writes:
            cc = row.t.get(i_atom, 0)
            rest = row - Lin.atom(("offset",)) - Lin.atom(i_atom) * cc
            if not rest.is_const() or cc <= 0:
                prob.append("output row %s (line %s) is not offset + c*i + k" % (row, line))
                break
            if c is None:
                c = cc
            elif c != cc:
                prob.append("output rows use different strides %d and %d" % (c, cc))
                break
            rows.setdefault((rest.c, j), []).append((val, line))
    want = T.rc.get((tm.shape, tm.cd))
    if not tm.ctx.writes and want:
        raise Unsupported("no write to the output index set was recognised")
    if not prob:
        if c != want:
            prob.append("%s fine entities per coarse entity are written, StandardRefinementTraits<%s,%d>::count = %s" % (c, sname(tm.shape), tm.cd, want))
        if tm.ret is None or rt.lin(tm.ret) != Lin.atom(("num", "in", sd)) * (want or 0):
            prob.append("returns %s, expected %s*(number of coarse %d-entities)" % (tm.ret, want, sd))
    ck.ob("E10.template-form", name, not prob, "; ".join(prob) or "out[offset + %d*i + k], k<%d; returns %d*num" % (c, c, c), fn.file, fn.line,
          sample={"children": c, "writes": len(tm.ctx.writes)})
    if prob:
        return False
    nidx = T.ft[(face_shape(tm.shape, tm.cd), tm.fd)]
    bad = []
    for k in range(c):
        for j in range(nidx):
            if not rows.get((k, j)):
                bad.append("child %d index %d is never assigned" % (k, j))
    for (k, j) in rows:
        if not (0 <= k < c and 0 <= j < nidx):
            bad.append("write to child %d index %d outside %dx%d (line %s)" % (k, j, c, nidx, rows[(k, j)][0][1]))
    ck.ob("E10.slot-once", name, not bad, "; ".join(bad[:6]) or "%d x %d slots assigned" % (c, nidx), fn.file, fn.line)
    complete = not bad
    for (k, j), ws in sorted(rows.items()):
        val, line = ws[-1]
        try:
            slot, problem = decompose(T, tm, val, line)
        except Unsupported as e:
            ck.incomplete("E10.slot-origin", "%s child %d index %d: %s" % (name, k, j, e))
            complete = False
            continue
        ck.ob("E10.slot-origin", "%s/child%d/idx%d" % (name, k, j), problem is None, problem or repr(slot), fn.file, line)
        if problem is None:
            tm.slots[(k, j)] = slot
        else:
            complete = False
    return complete


# =================================================================================================
# reference cell (clause 2)
# =================================================================================================

class RefMesh:
    """one coarse cell of `shape` with all its faces as separate coarse entities; every face of
    dimension 1..D-1 carries its own vertex numbering = the parent's view permuted by a symmetry of
    the face shape (self.orient chooses it; choices actually read are recorded in self.consulted).
    Entity ids: vertices are ints, higher entities the frozenset of their vertices (the templates
    treat ids as opaque, this is verified by E10.slot-origin)."""

    def __init__(self, T, shape, cell=None, orient=None):
        self.T, self.shape, self.D = T, shape, shape[1]
        nv = T.ft[(shape, 0)]
        self.cell = tuple(cell) if cell is not None else tuple(range(nv))
        self.orient = orient or {}
        self.consulted = set()
        self.view = {}
        self.local = {}
        for d in range(1, self.D):
            self.local[d] = []
            for row in T.fim[(shape, d, 0)]:
                vt = tuple(self.cell[x] for x in row)
                self.view[(d, frozenset(vt))] = vt
                self.local[d].append(frozenset(vt))
        self.cell_id = frozenset(self.cell)
        self.local[self.D] = [self.cell_id]
        self.local[0] = list(self.cell)

    def own(self, d, eid):
        if d == self.D:
            if eid != self.cell_id:
                raise Bad("unknown cell %s" % (eid,))
            return self.cell
        if (d, eid) not in self.view:
            raise Bad("entity %s is not a %d-face of the reference cell" % (sorted(eid) if isinstance(eid, frozenset) else eid, d))
        vt = self.view[(d, eid)]
        syms = self.T.syms[face_shape(self.shape, d)]
        self.consulted.add((d, eid))
        p = syms[self.orient.get((d, eid), 0)]
        own = [None] * len(vt)
        for k in range(len(vt)):
            own[p[k]] = vt[k]
        return tuple(own)

    def idx(self, cd, fd, eid):
        """row `eid` of the coarse index set <cd,fd>"""
        if not (0 <= fd < cd <= self.D):
            raise Bad("index set <%d,%d> does not exist for %s" % (cd, fd, sname(self.shape)))
        if fd == 0:
            return self.own(cd, eid)
        if cd == self.D:
            if eid != self.cell_id:
                raise Bad("unknown cell %s" % (eid,))
            return tuple(self.local[fd])
        own = self.own(cd, eid)
        fs = face_shape(self.shape, cd)
        return tuple(frozenset(own[x] for x in row) for row in self.T.fim[(fs, fd, 0)])

    def entities(self, d):
        return list(self.local[d])


class RowMap:
    def __init__(self, mesh, cd, fd):
        self.mesh, self.cd, self.fd = mesh, cd, fd

    def __getitem__(self, eid):
        return self.mesh.idx(self.cd, self.fd, eid)


def resolve(T, mesh, tm, slot, eid):
    """fine entity (dim, origin dim, coarse parent id, child number) named by a template slot,
    for the coarse entity `eid` of shape tm.shape"""
    sd = tm.shape[1]
    if slot.parent[0] == "self":
        p, pid = sd, eid
    else:
        p = slot.parent[1]
        pid = mesh.idx(sd, p, eid)[slot.parent[2]]
    if slot.child[0] == "const":
        ch = slot.child[1]
    else:
        _, simid, a, b = slot.child
        sim = tm.ctx.sims[simid]
        model = map_model(T, sim.cls, "sim")
        binding = {"sv": mesh.idx(sim.args[0].iset.cd, sim.args[0].iset.fd, eid),
                   "sc": mesh.idx(sim.args[1].iset.cd, sim.args[1].iset.fd, eid),
                   "cv": RowMap(mesh, sim.args[2].cd, sim.args[2].fd)}
        ch = model_eval(T, model, (a, b), binding)
    return (tm.fd, p, pid, ch)


def fine_verts(T, mesh, X):
    f, p, pid, ch = X
    if f == 0:
        return (X,)
    shp = face_shape(mesh.shape, p)
    tm = T.tmpl.get((shp, f, 0))
    n = T.rc.get((shp, f))
    if tm is None or not getattr(tm, "usable", False):
        raise Unsupported("template %s not available" % tname(shp, f, 0))
    if not (0 <= ch < n):
        raise Bad("child %d of a coarse %d-entity does not exist (it has %d fine %d-entities)" % (ch, p, n, f))
    nv = T.ft[(face_shape(shp, f), 0)]
    return tuple(resolve(T, mesh, tm, tm.slots[(ch, j)], pid) for j in range(nv))


def all_orientations(T, shape, cond, cell=None, limit=5000):
    """evaluate cond(mesh) for every combination of orientations of the sub-entities it reads"""
    pending = [dict()]
    seen = set()
    out = []
    while pending:
        asg = pending.pop()
        key = frozenset(asg.items())
        if key in seen:
            continue
        seen.add(key)
        if len(seen) > limit:
            raise Unsupported("more than %d orientation combinations" % limit)
        mesh = RefMesh(T, shape, cell, asg)
        out.append((asg, cond(mesh)))
        for c in mesh.consulted:
            n = len(T.syms[face_shape(shape, c[0])])
            for o in range(n):
                if asg.get(c, 0) != o:
                    new = dict(asg)
                    if o == 0:
                        new.pop(c, None)
                    else:
                        new[c] = o
                    pending.append(new)
    return out


def fmt_ent(X):
    f, p, pid, ch = X
    names = {0: "vertex", 1: "edge", 2: "face", 3: "cell"}
    pv = sorted(pid) if isinstance(pid, frozenset) else [pid]
    if f == 0:
        return "v(%s)" % ",".join(map(str, pv))
    return "%s#%d of coarse %s(%s)" % (names[f], ch, names[p], ",".join(map(str, pv)))


def fmt_asg(T, shape, asg):
    if not asg:
        return "all sub-entities in reference orientation"
    return ", ".join("%d-face(%s) numbered by symmetry %s" % (d, ",".join(map(str, sorted(e))), T.syms[face_shape(shape, d)][o])
                     for (d, e), o in sorted(asg.items(), key=repr))


def check_reference_cell(T, ck, shape):
    D = shape[1]
    base = RefMesh(T, shape)
    cell = base.cell_id
    ncomb = 0
    for cd in range(1, D + 1):
        t0 = T.tmpl.get((shape, cd, 0))
        if t0 is None or not t0.usable:
            ck.incomplete("E10.incidence", "template %s not usable" % tname(shape, cd, 0))
            continue
        cshape = face_shape(shape, cd)
        for fd in range(1, cd):
            tf = T.tmpl.get((shape, cd, fd))
            if tf is None or not tf.usable:
                ck.incomplete("E10.incidence", "template %s not usable" % tname(shape, cd, fd))
                continue
            for k in range(T.rc[(shape, cd)]):
                for j in range(T.ft[(cshape, fd)]):
                    def cond(mesh, k=k, j=j, tf=tf, cd=cd, fd=fd, cshape=cshape):
                        try:
                            V = fine_verts(T, mesh, (cd, D, cell, k))
                            Y = resolve(T, mesh, tf, tf.slots[(k, j)], cell)
                            VY = set(fine_verts(T, mesh, Y))
                            exp = {V[t] for t in T.fim[(cshape, fd, 0)][j]}
                        except Bad as e:
                            return (False, str(e))
                        if VY != exp:
                            return (False, "entry names %s with vertices {%s}, but local %d-face %d of the fine cell has vertices {%s}" % (
                                fmt_ent(Y), ", ".join(sorted(fmt_ent(v) for v in VY)), fd, j, ", ".join(sorted(fmt_ent(v) for v in exp))))
                        return (True, fmt_ent(Y))
                    key = "%s/%d-cell%d/%d-face%d" % (sname(shape), cd, k, fd, j)
                    try:
                        res = all_orientations(T, shape, cond)
                    except Unsupported as e:
                        ck.incomplete("E10.incidence", "%s: %s" % (key, e))
                        continue
                    ncomb += len(res)
                    bad = [(a, r) for a, r in res if not r[0]]
                    line = tf.slots[(k, j)].line
                    if bad:
                        a, r = bad[0]
                        ck.ob("E10.incidence", key, False, "%s [%s; %d of %d orientation combinations fail]" % (r[1], fmt_asg(T, shape, a), len(bad), len(res)), tf.fn.file, line)
                    else:
                        ck.ob("E10.incidence", key, True, "%d orientation combinations: %s" % (len(res), res[0][1][1]), tf.fn.file, line,
                              sample={"combinations": len(res), "entity": res[0][1][1]})
    # ---- every fine sub-entity in the closure of the refined cell is used; facets the right number of times
    for fd in range(0, D):
        tf = T.tmpl.get((shape, D, fd))
        if tf is None or not tf.usable:
            ck.incomplete("E10.facet-count", "template %s not usable" % tname(shape, D, fd))
            continue
        groups = {}
        for (k, j), slot in sorted(tf.slots.items()):
            groups.setdefault(slot.parent, []).append((k, j, slot))
        parents = [("self",)] + [("face", p, a) for p in range(fd, D) for a in range(T.ft[(shape, p)])]
        for par in parents:
            p = D if par[0] == "self" else par[1]
            nchild = T.rc[(face_shape(shape, p), fd)]
            slots = groups.get(par, [])
            facet = fd == D - 1
            expect = (2 if par[0] == "self" else 1) if facet else None
            pname = "interior" if par[0] == "self" else "%d-face%d" % (p, par[2])
            key = "%s/%d-entities/%s" % (sname(shape), fd, pname)
            if nchild == 0 and not slots:
                continue

            def cond(mesh, slots=slots, nchild=nchild, expect=expect):
                cnt = {}
                try:
                    for k, j, slot in slots:
                        Y = resolve(T, mesh, tf, slot, cell)
                        cnt[Y[3]] = cnt.get(Y[3], 0) + 1
                except Bad as e:
                    return (False, str(e))
                for ch in range(nchild):
                    n = cnt.get(ch, 0)
                    if (expect is not None and n != expect) or n == 0:
                        return (False, "child %d is referenced by %d fine cells%s" % (ch, n, " (expected %d)" % expect if expect is not None else " (never used)"))
                extra = [ch for ch in cnt if not (0 <= ch < nchild)]
                if extra:
                    return (False, "non-existent child %s referenced" % extra)
                return (True, "%d children, each referenced %s" % (nchild, "%d time(s)" % expect if expect is not None else "at least once"))
            try:
                res = all_orientations(T, shape, cond)
            except Unsupported as e:
                ck.incomplete("E10.facet-count", "%s: %s" % (key, e))
                continue
            ncomb += len(res)
            bad = [(a, r) for a, r in res if not r[0]]
            rule = "E10.facet-count" if facet else "E10.no-orphan"
            if bad:
                a, r = bad[0]
                ck.ob(rule, key, False, "%s [%s]" % (r[1], fmt_asg(T, shape, a)), tf.fn.file, tf.fn.line)
            else:
                ck.ob(rule, key, True, "%d orientation combinations: %s" % (len(res), res[0][1][1]), tf.fn.file, tf.fn.line)
    return ncomb


# =================================================================================================
# counts (clause 1, second half)
# =================================================================================================

def binom(n, k):
    from math import comb
    return comb(n, k)


def check_counts(T, ck, facts):
    # Euler characteristic: the open d-cell contributes (-1)^d; its refinement contributes
    # sum_f (-1)^f * (number of fine f-entities created inside it)
    for sh in [("V", 0)] + SHAPES:
        d = sh[1]
        vals = [T.rc.get((sh, f)) for f in range(d + 1)]
        if any(v is None for v in vals):
            ck.incomplete("E10.traits-euler", "StandardRefinementTraits<%s,*>::count not found" % sname(sh))
            continue
        s = sum((-1) ** f * v for f, v in enumerate(vals))
        ck.ob("E10.traits-euler", sname(sh), s == (-1) ** d,
              "fine entities per coarse %s by dimension %s: alternating sum %d, open %d-cell contributes %d" % (sname(sh), vals, s, d, (-1) ** d),
              featlib.repo_path("kernel/geometry/intern/standard_refinement_traits.hpp"), None, sample={"counts": vals})
    for sh in [("H", 1), ("H", 2), ("H", 3), ("S", 1)]:
        d = sh[1]
        for f in range(d + 1):
            want = 2 ** f * binom(d, f)
            got = T.rc.get((sh, f))
            ck.ob("E10.cube-counts", "%s/%d" % (sname(sh), f), got == want,
                  "StandardRefinementTraits<%s,%d>::count = %s, regular refinement creates 2^%d*C(%d,%d) = %d" % (sname(sh), f, got, f, d, f, want),
                  featlib.repo_path("kernel/geometry/intern/standard_refinement_traits.hpp"), None)
    # EntityCounter / EntityCountWrapper: symbolic in the coarse entity counts n_d
    for sh in SHAPES:
        D = sh[1]
        ev = SymEval([facts], call_hooks=[(r"^FEAT::assertion$", hook_assert)])
        pre = "FEAT::Geometry::Intern::EntityCountWrapper<FEAT::Geometry::Intern::StandardRefinementTraits, FEAT::Shape::%s, %d>::query" % (sname(sh), D)
        q = [f for f in facts.functions if f.full == pre]
        if len(q) != 1:
            ck.incomplete("E10.entity-counter", "%s not in the fact base" % pre)
            continue
        num = rt.Arr([Lin.atom(("n", d)) for d in range(D + 1)])
        try:
            ev.run(q[0], [num])
        except Unsupported as e:
            ck.incomplete("E10.entity-counter", "%s: %s" % (pre, e))
            continue
        for f in range(D + 1):
            want = Lin(0)
            for d in range(f, D + 1):
                want = want + Lin.atom(("n", d)) * T.rc[(face_shape(sh, d), f)]
            ck.ob("E10.entity-counter", "%s/count%d" % (sname(sh), f), rt.lin(num[f]) == want,
                  "EntityCountWrapper::query gives fine n_%d = %s; sum over the coarse entities of dimension >= %d of their fine %d-entities = %s" % (f, num[f], f, f, want),
                  q[0].file, q[0].line, sample={"fine": repr(num[f])})
            on = "FEAT::Geometry::Intern::EntityCounter<FEAT::Geometry::Intern::StandardRefinementTraits, FEAT::Shape::%s, %d, %d>::offset" % (sname(sh), f, D)
            o = [g for g in facts.functions if g.full == on]
            if len(o) != 1:
                ck.incomplete("E10.entity-counter", "%s not in the fact base" % on)
                continue
            offs = rt.Arr([None] * (D + 1))
            coarse = rt.Arr([Lin.atom(("n", d)) for d in range(D + 1)])
            try:
                SymEval([facts]).run(o[0], [offs, coarse])
            except Unsupported as e:
                ck.incomplete("E10.entity-counter", "%s: %s" % (on, e))
                continue
            bad = []
            for pdim in range(f, D + 1):
                w = Lin(0)
                for d in range(f, pdim):
                    w = w + Lin.atom(("n", d)) * T.rc[(face_shape(sh, d), f)]
                if offs[pdim] is None or rt.lin(offs[pdim]) != w:
                    bad.append("offsets[%d] = %s, fine %d-entities created by coarse entities of dimension < %d: %s" % (pdim, offs[pdim], f, pdim, w))
            ck.ob("E10.entity-counter", "%s/offset%d" % (sname(sh), f), not bad, "; ".join(bad) or "offsets %s" % [repr(x) for x in offs[f:]], o[0].file, o[0].line)


# =================================================================================================
# literal tables and orientation tables (clause 3)
# =================================================================================================

def extract_tables(T, ck, facts):
    for f in facts.find(qn_re=r"^FEAT::Geometry::Intern::FaceIndexMapping<.*>::map$"):
        ta = targs(f.cls)
        key = (shape_of(ta[0]), int(ta[1]), int(ta[2]))
        try:
            T.fim[key] = rt.extract_table2(f)
            T.fim_fn[key] = f
        except Unsupported as e:
            ck.incomplete("E10.face-tables", str(e))
    for f in facts.find(qn_re=r"^FEAT::Geometry::Intern::CongruencyMapping<.*>::map$"):
        ta = targs(f.cls)
        key = (shape_of(ta[0]), int(ta[1]))
        try:
            T.cm[key] = rt.extract_table2(f)
            T.cm_fn[key] = f
        except Unsupported as e:
            ck.incomplete("E10.orient-perm", str(e))


def check_face_tables(T, ck):
    """FaceIndexMapping<S,d,0>: every row lists distinct vertices, rows are distinct, counts match
    FaceTraits; <S,2,1>: edge j of face a is the edge whose vertices are the face's local edge j"""
    for (sh, cd, fd), rows in sorted(T.fim.items()):
        fn = T.fim_fn[(sh, cd, fd)]
        key = "FaceIndexMapping<%s,%d,%d>" % (sname(sh), cd, fd)
        prob = []
        if len(rows) != T.ft.get((sh, cd)):
            prob.append("%d rows, %s has %s %d-faces" % (len(rows), sname(sh), T.ft.get((sh, cd)), cd))
        nf = T.ft.get((face_shape(sh, cd), fd))
        nall = T.ft.get((sh, fd))
        for a, r in enumerate(rows):
            if len(r) != nf or len(set(r)) != len(r) or any(not (0 <= x < nall) for x in r):
                prob.append("row %d = %s is not a list of %s distinct %d-faces of the cell" % (a, r, nf, fd))
        if len({frozenset(r) for r in rows}) != len(rows):
            prob.append("two rows describe the same face")
        ck.ob("E10.face-tables", key, not prob, "; ".join(prob) or "%d rows of %d entries" % (len(rows), nf), fn.file, fn.line)
    for sh in [("H", 3), ("S", 3)]:
        if not all(k in T.fim for k in [(sh, 2, 1), (sh, 2, 0), (sh, 1, 0), ((sh[0], 2), 1, 0)]):
            ck.incomplete("E10.face-tables", "FaceIndexMapping tables of %s incomplete" % sname(sh))
            continue
        fn = T.fim_fn[(sh, 2, 1)]
        edges = {frozenset(r): e for e, r in enumerate(T.fim[(sh, 1, 0)])}
        for a, row in enumerate(T.fim[(sh, 2, 1)]):
            fv = T.fim[(sh, 2, 0)][a]
            for j, e in enumerate(row):
                loc = T.fim[((sh[0], 2), 1, 0)][j]
                vs = frozenset(fv[x] for x in loc)
                want = edges.get(vs)
                ck.ob("E10.face-tables", "FaceIndexMapping<%s,2,1>/face%d/edge%d" % (sname(sh), a, j), want == e,
                      "entry %d; local edge %d of face %d has the cell vertices %s = cell edge %s" % (e, j, a, sorted(vs), want), fn.file, fn.line)


def perm_str(p):
    return "(" + ",".join(map(str, p)) + ")"


def check_orientation_tables(T, ck, facts):
    for sh in [("H", 1), ("S", 1), ("H", 2), ("S", 2)]:
        rows = T.cm.get((sh, 0))
        if rows is None:
            ck.incomplete("E10.sampler-code", "CongruencyMapping<%s,0> not extracted" % sname(sh))
            continue
        syms = T.syms[sh]
        comps = [f for f in facts.functions if f.tk != "pattern" and f.qn == "FEAT::Geometry::Intern::CongruencySampler<FEAT::Shape::%s>::compare" % sname(sh)]
        if not comps:
            ck.incomplete("E10.sampler-code", "no instantiation of CongruencySampler<%s>::compare" % sname(sh))
            continue
        codes_of = {}
        for cf in comps:
            srcty = cf.type(cf.params[0]["t"])
            m = re.search(r"(SubIndexMapping|TargetIndexMapping)<FEAT::Shape::(\w+<\d>), (\d)(?:, (\d))?>", srcty)
            tag = "%s<%s>" % (m.group(1), ",".join(x for x in m.groups()[1:] if x)) if m else srcty[-40:]
            try:
                paths = T.sampler_paths(cf)
            except Unsupported as e:
                ck.incomplete("E10.sampler-code", str(e))
                continue
            nv = T.ft[(sh, 0)]
            trg = tuple(100 + k for k in range(nv))
            for p in syms:
                src = tuple(trg[p[k]] for k in range(nv))      # src[k] == trg[p(k)]
                try:
                    code = rt.decide(paths, src, trg)
                except Unsupported as e:
                    ck.incomplete("E10.sampler-code", "%s: %s" % (cf.full, e))
                    break
                okc = code is not None and 0 <= code < len(rows) and tuple(rows[code]) == tuple(p)
                row = rows[code] if code is not None and 0 <= code < len(rows) else None
                ck.ob("E10.sampler-code", "%s/src=trg*%s/%s" % (sname(sh), perm_str(p), tag), okc,
                      "compare returns %s for src[k]==trg[p(k)], p=%s; CongruencyMapping<%s,0> row %s = %s" % (code, perm_str(p), sname(sh), code, row), cf.file, cf.line)
                if okc:
                    codes_of[p] = code
        fn0 = T.cm_fn[(sh, 0)]
        for p in syms:
            code = codes_of.get(p)
            if code is None:
                continue
            r = rows[code]
            ck.ob("E10.orient-perm", "CongruencyMapping<%s,0>/row%d" % (sname(sh), code), sorted(r) == list(range(len(r))) and tuple(r) in set(syms),
                  "row %d = %s is %sa symmetry of the shape" % (code, r, "" if tuple(r) in set(syms) else "not "), fn0.file, fn0.line)
        if sh[1] == 2:
            erows = T.cm.get((sh, 1))
            if erows is None:
                ck.incomplete("E10.edge-map", "CongruencyMapping<%s,1> not extracted" % sname(sh))
                continue
            fn1 = T.cm_fn[(sh, 1)]
            fim = T.fim[(sh, 1, 0)]
            eid = {frozenset(r): e for e, r in enumerate(fim)}
            for p, code in sorted(codes_of.items(), key=lambda t: t[1]):
                for j, r in enumerate(fim):
                    want = eid.get(frozenset(p[v] for v in r))
                    got = erows[code][j] if code < len(erows) and j < len(erows[code]) else None
                    ck.ob("E10.edge-map", "CongruencyMapping<%s,1>/row%d/edge%d" % (sname(sh), code, j), got == want,
                          "entry %s; vertex row %s maps edge %d = vertices %s onto vertices %s = edge %s" % (got, list(p), j, r, [p[v] for v in r], want), fn1.file, fn1.line)


# =================================================================================================
# whole-wrapper symbolic runs: numbering agreement, vertex refiners (clauses 1 and 4)
# =================================================================================================

def find_full(facts, full):
    fs = [f for f in facts.functions if f.full == full and f.tk != "pattern"]
    return fs[0] if len(fs) >= 1 else None


def short(cls):
    return re.sub(r"\bFEAT::|\bGeometry::|\bIntern::|\bShape::", "", cls or "")


def report_asserts(ck, ev, what):
    """assertions met in a symbolic run whose condition is decidable must hold"""
    for node, val, fn in ev.asserts:
        if isinstance(val, bool) or (isinstance(val, Lin) and val.is_const()):
            ok = bool(val) if isinstance(val, bool) else val.c != 0
            txt = node["a"][1].get("v") if len(node.get("a", [])) > 1 else "?"
            ck.ob("E10.assert-true", "%s/%s/%s" % (what, short(fn.cls) or fn.name, txt), ok,
                  "XASSERT(%s) evaluates to %s for every mesh" % (txt, ok), fn.file, node.get("l"))


def split_row(row):
    """row = base + c*loop + k  ->  (loop atom, c, k, base)"""
    la = [a for a in row.t if a[0] == "loop"]
    if len(la) != 1:
        raise Unsupported("output row %s does not contain exactly one loop counter" % row)
    base = Lin(0, {a: k for a, k in row.t.items() if a[0] != "loop"})
    return la[0], row.t[la[0]], row.c, base


def loop_dim(ev, atom, kinds=("num",)):
    b = ev.loops[atom[1]]["bound"]
    if b.c == 0 and len(b.t) == 1:
        a, k = list(b.t.items())[0]
        if k == 1 and a[0] in kinds:
            return a[-1]
    raise Unsupported("loop bound %s is not an entity count" % b)


def run_vertex_wrappers(T, ck, facts):
    """-> {shape: {origin dim p: base Lin of the fine vertex numbers}}"""
    out = {}
    for sh in SHAPES:
        fns = [f for f in facts.functions if f.tk != "pattern" and f.name == "refine" and
               re.match(r"^FEAT::Geometry::Intern::StandardVertexRefineWrapper<FEAT::Shape::%s, " % re.escape(sname(sh)), f.cls)]
        if not fns:
            ck.incomplete("E10.vertex-mean", "StandardVertexRefineWrapper<%s,...>::refine not instantiated" % sname(sh))
            continue
        for fn in fns:
            vs = targs(fn.cls)[1].rsplit("::", 1)[-1]
            ctx = Ctx()
            ev = make_eval(facts, ctx)
            try:
                ret = ev.run(fn, [VOut(ctx), VIn(ctx), Holder(ctx, "in")])
                bases = {}
                for key, acc in sorted(ctx.vtx.items()):
                    atom, c, k, base = split_row(acc.row)
                    p = loop_dim(ev, atom)
                    inst = "%s/%s/from-%d-entities" % (sname(sh), vs, p)
                    prob = list(acc.problems)
                    if c != 1 or k != 0:
                        prob.append("output vertex row %s is not base + i" % acc.row)
                    if acc.coef is None:
                        prob.append("output vertex never defined")
                    elif p == 0:
                        if acc.coef != {Lin.atom(atom): Fraction(1)}:
                            prob.append("coarse vertex i is not copied: %s" % acc.coef)
                    else:
                        nv = T.ft[(face_shape(sh, p), 0)]
                        want = {Lin.atom(("ent", "in", p, 0, repr(Lin.atom(atom)), kk)): Fraction(1, nv) for kk in range(nv)}
                        if acc.coef != want:
                            got = ", ".join("%s*x[%s]" % (v, kx) for kx, v in sorted(acc.coef.items(), key=repr))
                            prob.append("new vertex = %s, expected the mean of the %d vertices of coarse %d-entity i (sum of coefficients %s)" % (got, nv, p, sum(acc.coef.values())))
                    ck.ob("E10.vertex-mean", inst, not prob, "; ".join(prob) or ("copy of coarse vertex i" if p == 0 else "mean of the %d vertices of the coarse entity" % T.ft[(face_shape(sh, p), 0)]),
                          fn.file, acc.line)
                    bases[p] = base
                want_ret = Lin(0)
                for p in range(sh[1] + 1):
                    want_ret = want_ret + Lin.atom(("num", "in", p)) * T.rc[(face_shape(sh, p), 0)]
                ck.ob("E10.vertex-mean", "%s/%s/count" % (sname(sh), vs), ret is not None and rt.lin(ret) == want_ret and
                      set(bases) == {p for p in range(sh[1] + 1) if T.rc[(face_shape(sh, p), 0)] > 0},
                      "returns %s fine vertices (expected %s); vertices created from coarse entities of dimensions %s" % (ret, want_ret, sorted(bases)), fn.file, fn.line)
                report_asserts(ck, ev, "vertex/%s/%s" % (sname(sh), vs))
                if sh in out and out[sh] != bases:
                    ck.ob("E10.numbering", "%s/vertices/%s" % (sname(sh), vs), False, "vertex numbering differs between vertex set types: %s vs %s" % (out[sh], bases), fn.file, fn.line)
                out.setdefault(sh, bases)
            except Unsupported as e:
                ck.incomplete("E10.vertex-mean", "%s: %s" % (fn.cls, e))
    return out


def run_index_wrapper(T, ck, facts, sh, vbases):
    """symbolic run of IndexRefineWrapper<Shape>::refine: global number of the fine cd-entity k of coarse p-entity i
    as defined by the output rows  ==  as referenced in the values (index_offsets from EntityCounter)"""
    D = sh[1]
    full = "FEAT::Geometry::Intern::IndexRefineWrapper<FEAT::Shape::%s, %d>::refine" % (sname(sh), D)
    fn = find_full(facts, full)
    if fn is None:
        ck.incomplete("E10.numbering", "%s not in the fact base" % full)
        return None
    ctx = Ctx()
    ev = make_eval(facts, ctx)
    num = rt.Arr([Lin.atom(("num", "in", d)) for d in range(D + 1)])
    try:
        ev.run(fn, [HolderOut(ctx), num, Holder(ctx, "in")])
        G = {}
        uses = {}
        for row, j, val, line, inloop, tag in ctx.writes:
            if tag is None:
                raise Unsupported("write to an untagged index set (line %s)" % line)
            cd, fd = tag
            atom, c, k, base = split_row(row)
            p = loop_dim(ev, atom)
            G.setdefault((cd, p), {}).setdefault(base, []).append((fd, line))
            v = rt.lin(val)
            O = Lin(0, {a: kk for a, kk in v.t.items() if a[0] not in ("loop", "ent", "sim")})
            par = [a for a in v.t if a[0] in ("loop", "ent")]
            if len(par) != 1:
                raise Unsupported("value %s at line %s has no unique parent entity" % (v, line))
            origin = p if par[0][0] == "loop" else par[0][3]
            uses.setdefault((fd, origin), {}).setdefault(O, []).append(line)
    except Unsupported as e:
        ck.incomplete("E10.numbering", "%s: %s" % (full, e))
        return None
    report_asserts(ck, ev, "index/%s" % sname(sh))
    numbering = {}
    for (cd, p), bases in sorted(G.items()):
        okb = len(bases) == 1
        b = list(bases)[0]
        ck.ob("E10.numbering", "%s/%d-entities/origin%d/rows" % (sname(sh), cd, p), okb,
              "all index sets <%d,*> place the children of the coarse %d-entities at rows %s + c*i + k" % (cd, p, b) if okb else
              "index sets of fine %d-entities disagree on the first row of the children of coarse %d-entities: %s" % (cd, p, {repr(x): y[:2] for x, y in bases.items()}), fn.file, fn.line)
        numbering[(cd, p)] = b
    for p, b in (vbases or {}).items():
        numbering[(0, p)] = b
    for (fd, p), offs in sorted(uses.items()):
        want = numbering.get((fd, p))
        for O, lines in sorted(offs.items(), key=repr):
            ck.ob("E10.numbering", "%s/%d-entities/origin%d/used-offset=%s" % (sname(sh), fd, p, O), want is not None and O == want,
                  "index_offsets[%d] = %s where fine %d-entities are referenced (%d values, e.g. line %s); the fine %d-entities of coarse %d-entities are numbered from %s" % (
                      p, O, fd, len(lines), lines[0], fd, p, want), featlib.repo_path("kernel/geometry/intern/standard_index_refiner.hpp"), lines[0])
    return numbering


# =================================================================================================
# mesh parts: StandardTargetRefiner (clause 5)
# =================================================================================================

def subst(l, f):
    out = Lin(l.c)
    for a, k in l.t.items():
        out = out + Lin.atom(f(a)) * k
    return out


def check_targets(T, ck, facts, numbering):
    tts = {}
    for f in facts.find(qn_re=r"^FEAT::Geometry::Intern::StandardTargetRefiner<.*>::refine$"):
        if f.tk == "pattern":
            continue
        ta = targs(f.cls)
        sh, cd = shape_of(ta[0]), int(ta[1])
        if sh == ("V", 0):
            continue    # decided through the whole-wrapper run (its `offset` argument is the literal 0)
        name = "StandardTargetRefiner<%s,%d>" % (sname(sh), cd)
        try:
            tt = extract_target_template(facts, f)
        except Unsupported as e:
            ck.incomplete("E10.target-form", "%s: %s" % (name, e))
            continue
        dim = sh[1]
        if dim == 3:
            # the repository does not implement 3D parts (XASSERT num_cells == 0); nothing to decide
            if tt.ctx.writes:
                ck.incomplete("E10.target-form", "%s writes targets: 3D mesh-part cells are not analysed" % name)
            else:
                ck.note("%s: no targets written (repository aborts for parts with 3D cells) - not covered" % name)
            continue
        c = T.rc[(sh, cd)]
        prob = []
        slots = {}
        if c == 0:
            if tt.ctx.writes:
                prob.append("writes targets although a %s creates no %d-entities" % (sname(sh), cd))
            ck.ob("E10.target-form", name, not prob, "; ".join(prob) or "nothing to create", f.file, f.line)
            continue
        if len(tt.loops) != 1 or tt.loops[0]["bound"] != Lin.atom(("tnum", dim)):
            ck.incomplete("E10.target-form", "%s: loops %s are not loops over the part's %d-entities only" % (name, [repr(l["bound"]) for l in tt.loops], dim))
            continue
        else:
            i_atom = tt.loops[0]["atom"]
            for row, j, val, line, inloop, tag in tt.ctx.writes:
                rest = row - Lin.atom(("offset",)) - Lin.atom(i_atom) * c
                if not inloop:
                    raise_inc = "%s: target written outside the loop (line %s)" % (name, line)
                    ck.incomplete("E10.target-form", raise_inc)
                    prob.append(None)
                    continue
                if not rest.is_const():
                    prob.append("output row %s (line %s) is not offset + %d*i + k" % (row, line, c))
                    continue
                slots.setdefault(rest.c, []).append((rt.lin(val), line))
            for k in range(c):
                if not slots.get(k):
                    prob.append("child %d is never assigned" % k)
            for k in slots:
                if not (0 <= k < c):
                    prob.append("child %d does not exist" % k)
        if None in prob:
            continue
        ck.ob("E10.target-form", name, not prob, "; ".join(prob) or "out[offset + %d*i + k], k<%d" % (c, c), f.file, f.line)
        if prob:
            continue
        tt.children = {}
        usable = True
        for k in range(c):
            v, line = slots[k][-1]
            pr = None
            offs = [a for a in v.t if a[0] == "off"]
            tg = [a for a in v.t if a[0] == "tgt"]
            tims = [a for a in v.t if a[0] == "tim"]
            other = [a for a in v.t if a[0] not in ("off", "tgt", "tim")]
            child = None
            if other:
                ck.incomplete("E10.target-form", "%s child %d: unexpected term in %s" % (name, k, v))
                usable = False
                continue
            if len(offs) != 1 or v.t[offs[0]] != 1 or offs[0][1] != dim:
                pr = "value %s does not add index_offsets[%d] (offset of the fine %d-entities created by the parent's %d-entities)" % (v, dim, cd, dim)
            elif len(tg) != 1 or tg[0][1] != dim or tt.ctx.rows[tg[0][2]] != Lin.atom(tt.loops[0]["atom"]) or v.t[tg[0]] != c:
                pr = "value %s is not %d*target<%d>[i] + child" % (v, c, dim)
            elif len(tims) > 1 or (tims and (v.t[tims[0]] != 1 or v.c != 0)):
                pr = "value %s mixes orientation lookups and constants" % v
            elif tims:
                tim = tt.ctx.sims[tims[0][1]]
                ta2 = targs(tim.cls)
                if not (tim.kind == "tim" and len(tim.args) == 3 and isinstance(tim.args[0], IdxRow) and isinstance(tim.args[1], IdxRow) and isinstance(tim.args[2], TgtSet)):
                    ck.incomplete("E10.target-form", "%s child %d: TargetIndexMapping at line %s constructed from %r" % (name, k, tim.line, tim.args))
                    usable = False
                    continue
                okargs = (tim.kind == "tim" and shape_of(ta2[0]) == sh and len(tim.args) == 3 and isinstance(tim.args[0], IdxRow) and isinstance(tim.args[1], IdxRow)
                          and isinstance(tim.args[2], TgtSet) and tim.args[2].d == 0
                          and (tim.args[0].iset.tag, tim.args[0].iset.cd, tim.args[0].iset.fd) == ("trg", dim, 0)
                          and (tim.args[1].iset.tag, tim.args[1].iset.cd, tim.args[1].iset.fd) == ("src", dim, 0)
                          and tim.args[0].row == Lin.atom(("tgt", dim, repr(Lin.atom(tt.loops[0]["atom"])))) and tim.args[1].row == Lin.atom(tt.loops[0]["atom"]))
                if not okargs:
                    pr = "TargetIndexMapping at line %s is not built from (parent's vertices of target<%d>[i], part's vertices of entity i, vertex targets): %r" % (tim.line, dim, tim.args)
                else:
                    child = ("tim", tim, tims[0][2])
            else:
                if not (0 <= v.c < c):
                    pr = "child number %d is not below %d" % (v.c, c)
                else:
                    child = ("const", v.c)
            ck.ob("E10.target-form", "%s/child%d" % (name, k), pr is None, pr or repr(v), f.file, line)
            if pr is None:
                tt.children[k] = child
            else:
                usable = False
        if usable and cd >= 1:
            tts[(sh, cd)] = tt
    # ---- semantic check: the fine part entity and its target have corresponding vertices --------------
    for (sh, cd), tt in sorted(tts.items()):
        dim = sh[1]
        nv = T.ft[(sh, 0)]
        ident = tuple(range(nv))
        for p in T.syms[sh]:
            t = [None] * nv
            for k in range(nv):
                t[p[k]] = k          # part vertex k (-> same parent vertex) is the parent's local vertex p(k)
            part = RefMesh(T, sh)
            par = RefMesh(T, sh, cell=t)
            for k in range(T.rc[(sh, cd)]):
                key = "%s/%d-child%d/parent-numbering%s" % (sname(sh), cd, k, perm_str(tuple(t)))
                line = tt.fn.line
                try:
                    ch = tt.children[k]
                    if ch[0] == "const":
                        kk = ch[1]
                    else:
                        model = map_model(T, ch[1].cls, "tim")
                        kk = model_eval(T, model, (ch[2],), {"tv": tuple(t), "sv": ident, "vi": ident})
                    A = set(fine_verts(T, part, (cd, dim, part.cell_id, k)))
                    B = set(fine_verts(T, par, (cd, dim, par.cell_id, kk)))
                    if part.consulted or par.consulted:
                        raise Unsupported("vertex lists of the children depend on sub-entity orientations")
                    ok = A == B
                    detail = "part child %d -> parent child %d; vertices {%s} vs {%s}" % (k, kk, ", ".join(sorted(fmt_ent(x) for x in A)), ", ".join(sorted(fmt_ent(x) for x in B)))
                except Bad as e:
                    ok, detail = False, str(e)
                except Unsupported as e:
                    ck.incomplete("E10.target-child", "%s: %s" % (key, e))
                    continue
                ck.ob("E10.target-child", key, ok, detail, tt.fn.file, line)
    # ---- whole wrapper: rows follow the part's own fine numbering, values the parent's ---------------
    for sh in SHAPES:
        D = sh[1]
        full = "FEAT::Geometry::Intern::TargetRefineWrapper<FEAT::Shape::%s, %d>::refine" % (sname(sh), D)
        fn = find_full(facts, full)
        nb = numbering.get(sh)
        if fn is None or nb is None:
            ck.incomplete("E10.target-numbering", "%s not analysable" % full)
            continue
        ctx = Ctx()
        ev = make_eval(facts, ctx)
        ntrg = rt.Arr([Lin.atom(("np", d)) for d in range(D + 1)])
        try:
            ev.run(fn, [THolderOut(ctx), ntrg, THolder(ctx), Holder(ctx, "src"), Holder(ctx, "trg")])
            seen = {}
            for row, j, val, line, inloop, tag in ctx.writes:
                atom, c, k, base = split_row(row)
                p = loop_dim(ev, atom, kinds=("tnum",))
                v = rt.lin(val)
                O = Lin(0, {a: kk for a, kk in v.t.items() if a[0] not in ("tgt", "tim")})
                tg = [a for a in v.t if a[0] == "tgt"]
                if len(tg) != 1 or tt_row(ctx, tg[0]) != Lin.atom(atom) or tg[0][1] != p:
                    raise Unsupported("value %s (line %s) is not based on target<%d>[i]" % (v, line, p))
                seen.setdefault((tag, p), set()).add((base, O, line))
        except Unsupported as e:
            ck.incomplete("E10.target-numbering", "%s: %s" % (full, e))
            continue
        report_asserts(ck, ev, "target/%s" % sname(sh))
        for (cd, p), items in sorted(seen.items()):
            want = nb.get((cd, p))
            wrow = subst(want, lambda a: ("tnum", a[2])) if want is not None else None
            wval = subst(want, lambda a: ("np", a[2])) if want is not None else None
            pairs = sorted({(b, o) for b, o, _ in items}, key=repr)
            bad = [(b, o) for b, o in pairs if want is None or b != wrow or o != wval]
            line = sorted(l for _, _, l in items)[0]
            b, o = (bad or pairs)[0]
            ck.ob("E10.target-numbering", "%s/%d-entities/origin%d" % (sname(sh), cd, p), not bad,
                  "targets of the fine %d-entities of the part's %d-entities are stored from row %s (part's own numbering: %s) and point to parent entities numbered from %s (parent's numbering: %s)" % (
                      cd, p, b, wrow, o, wval), fn.file, line)


def check_simple_targets(T, ck, facts, numbering):
    """parts without topology (SimpleTargetRefineWrapper): the fine entities of part entity i are mapped onto all
    fine entities of the parent entity target[i]"""
    for sh in SHAPES:
        D = sh[1]
        full = "FEAT::Geometry::Intern::SimpleTargetRefineWrapper<FEAT::Shape::%s, %d>::refine" % (sname(sh), D)
        fn = find_full(facts, full)
        nb = numbering.get(sh)
        if fn is None or nb is None:
            ck.incomplete("E10.simple-target", "%s not analysable" % full)
            continue
        ctx = Ctx()
        ev = make_eval(facts, ctx)
        ntrg = rt.Arr([Lin.atom(("np", d)) for d in range(D + 1)])
        try:
            ev.run(fn, [THolderOut(ctx), ntrg, THolder(ctx)])
            seen = {}
            for row, j, val, line, inloop, tag in ctx.writes:
                atom, c, k, base = split_row(row)
                p = loop_dim(ev, atom, kinds=("tnum",))
                v = rt.lin(val)
                tg = [a for a in v.t if a[0] == "tgt"]
                if len(tg) != 1 or tt_row(ctx, tg[0]) != Lin.atom(atom) or tg[0][1] != p:
                    raise Unsupported("value %s (line %s) is not based on target<%d>[i]" % (v, line, p))
                O = Lin(0, {a: kk for a, kk in v.t.items() if a[0] != "tgt"})
                seen.setdefault((tag, p), []).append((c, k, base, v.t[tg[0]], v.c, O, line))
        except Unsupported as e:
            ck.incomplete("E10.simple-target", "%s: %s" % (full, e))
            continue
        for (cd, p), items in sorted(seen.items()):
            want = nb.get((cd, p))
            n = T.rc[(face_shape(sh, p), cd)]
            wrow = subst(want, lambda a: ("tnum", a[2])) if want is not None else None
            wval = subst(want, lambda a: ("np", a[2])) if want is not None else None
            prob = []
            if want is None:
                prob.append("no fine %d-entities of coarse %d-entities in the mesh numbering" % (cd, p))
            for c, k, base, m, ch, O, line in items:
                if c != n or m != n or base != wrow or O != wval:
                    prob.append("line %s: out[%s + %d*i + %d] = %s + %d*target[i] + %d, expected rows from %s, values from %s, stride %d" % (line, base, c, k, O, m, ch, wrow, wval, n))
            if sorted(k for _, k, *_r in items) != list(range(n)) or sorted(it[4] for it in items) != list(range(n)):
                prob.append("children written %s -> children referenced %s, expected a bijection of 0..%d" % (sorted(it[1] for it in items), sorted(it[4] for it in items), n - 1))
            ck.ob("E10.simple-target", "%s/%d-entities/origin%d" % (sname(sh), cd, p), not prob, "; ".join(prob[:3]) or
                  "%d children of part entity i -> the %d children of parent entity target[i]; rows from %s, values from %s" % (n, n, wrow, wval), fn.file, items[0][6])


def tt_row(ctx, atom):
    return ctx.rows.get(atom[2])


# =================================================================================================
# geometry of the children on the reference cell (orientation, volume)
# =================================================================================================

def det(m):
    n = len(m)
    if n == 1:
        return m[0][0]
    if n == 2:
        return m[0][0] * m[1][1] - m[0][1] * m[1][0]
    s = Fraction(0)
    for j in range(n):
        minor = [row[:j] + row[j + 1:] for row in m[1:]]
        s += (-1) ** j * m[0][j] * det(minor)
    return s


def check_child_geometry(T, ck, facts):
    """the fine cells of the reference cell (vertex coordinates = means, see E10.vertex-mean) have the orientation
    sign of the coarse cell and their volumes add up to the coarse volume"""
    for sh in SHAPES:
        D = sh[1]
        key0 = sname(sh)
        full = "FEAT::Shape::ReferenceCell<FEAT::Shape::%s>::vertex<int>" % sname(sh)
        fn = find_full(facts, full)
        tm = T.tmpl.get((sh, D, 0))
        if fn is None or tm is None or not tm.usable:
            ck.incomplete("E10.child-orientation", "%s: reference cell or template %s not available" % (key0, tname(sh, D, 0)))
            continue
        nv = T.ft[(sh, 0)]
        try:
            ev = SymEval([facts])
            X = {v: [Fraction(rt.lin(ev.run(fn, [Lin(v), Lin(c)])).as_int()) for c in range(D)] for v in range(nv)}
        except Unsupported as e:
            ck.incomplete("E10.child-orientation", "%s: %s" % (full, e))
            continue

        def coord(fv):
            pid = fv[2]
            vs = sorted(pid) if isinstance(pid, frozenset) else [pid]
            return [sum(X[v][c] for v in vs) / len(vs) for c in range(D)]

        def signed(V):
            if sh[0] == "S":
                rows = [[V[j + 1][c] - V[0][c] for c in range(D)] for j in range(D)]
                return det(rows) / Fraction(__import__("math").factorial(D))
            rows = [[V[1 << j][c] - V[0][c] for c in range(D)] for j in range(D)]
            return det(rows)
        parent = signed([X[v] for v in range(nv)])
        mesh = RefMesh(T, sh)
        total = Fraction(0)
        okall = parent != 0
        for k in range(T.rc[(sh, D)]):
            try:
                V = [coord(fv) for fv in fine_verts(T, mesh, (D, D, mesh.cell_id, k))]
            except (Bad, Unsupported) as e:
                ck.incomplete("E10.child-orientation", "%s child %d: %s" % (key0, k, e))
                okall = False
                continue
            vol = signed(V)
            total += abs(vol)
            ck.ob("E10.child-orientation", "%s/child%d" % (key0, k), vol * parent > 0,
                  "signed volume %s on the reference cell (coarse cell: %s)" % (vol, parent), tm.fn.file, tm.slots[(k, 0)].line)
        if okall:
            ck.ob("E10.child-volume", key0, total == abs(parent), "volumes of the %d children add up to %s, coarse reference cell %s" % (T.rc[(sh, D)], total, abs(parent)), tm.fn.file, tm.fn.line)


# =================================================================================================
# run
# =================================================================================================

def declare_rules(ck):
    ck.rule("E10.traits-euler", "for every shape the fine entities created inside one coarse entity have alternating sum (-1)^dim, so refinement "
            "leaves the Euler characteristic of every conforming mesh unchanged (breaks for any mesh containing that shape)", min_instances=7)
    ck.rule("E10.cube-counts", "StandardRefinementTraits<Hypercube<d>|Simplex<1>, f>::count = 2^f*C(d,f), the closed formula of regular refinement", min_instances=11)
    ck.rule("E10.entity-counter", "EntityCountWrapper::query and EntityCounter::offset, symbolic in the coarse counts n_d: fine n_f = sum_{d>=f} count<d-face,f>*n_d "
            "(coarse counts, not already refined ones), offsets[p] = fine f-entities created by coarse entities of dimension < p (any mesh with >0 entities breaks otherwise)", min_instances=36)
    ck.rule("E10.template-form", "StandardIndexRefiner<Shape,cd,fd>::refine is one loop over the coarse Shape entities writing out[offset + c*i + k], "
            "c = StandardRefinementTraits<Shape,cd>::count, and returns c*num (any mesh with a cell of that shape breaks otherwise)", min_instances=20)
    ck.rule("E10.slot-once", "every index out[offset+c*i+k][j], k<c, j<number of fd-faces of a cd-cell, is assigned (the last straight-line assignment counts) and no row/index outside "
            "that range is written (a write to row k>=c lands in the children of the next coarse entity)", min_instances=20)
    ck.rule("E10.slot-origin", "every written value is index_offsets[p] + m*(coarse p-entity) + child with p the dimension of that entity, m the number of fine fd-entities "
            "a coarse p-entity creates, child<m either constant or SubIndexMapping(vertices, p-faces of cell i, vertices-at-p-face).map(same local face, .)", min_instances=670)
    ck.rule("E10.face-tables", "FaceIndexMapping tables: rows are distinct faces with distinct vertices, row counts = FaceTraits; edges-at-face rows agree with "
            "vertices-at-face and vertices-at-edge (3D)", min_instances=8 + 36)
    ck.rule("E10.sampler-code", "CongruencySampler<S>::compare (every path of its decision tree) returns code o exactly when src[k]==trg[CongruencyMapping<S,0>(o,k)], "
            "for every symmetry of the shape (an entity numbered by that symmetry relative to its parent's view gets wrong children otherwise)", min_instances=80)
    ck.rule("E10.orient-perm", "rows of CongruencyMapping<S,0> the sampler can return are symmetries (permutations) of the shape", min_instances=18)
    ck.rule("E10.edge-map", "CongruencyMapping<S,1> row o is the edge permutation induced by the vertex row o through FaceIndexMapping<S,1,0>", min_instances=50)
    ck.rule("E10.incidence", "reference cell, every orientation of its faces/edges: the fine entity named by faces_at_cell[c][j] has exactly the vertices of local face j "
            "of fine cell c (vertices through the <.,d,0> templates of the coarse cell, face or edge that created it)", min_instances=388)
    ck.rule("E10.facet-count", "reference cell, every orientation: every fine facet inside the coarse cell is referenced by exactly two fine cells, every child of a coarse "
            "boundary facet by exactly one (so interior facets of the fine mesh have two, boundary facets one adjacent cell)", min_instances=27)
    ck.rule("E10.numbering", "whole IndexRefineWrapper<Shape> run, symbolic in the coarse counts: all index sets <cd,*> store the children of coarse p-entities from the same row, "
            "and every value referencing a fine fd-entity of a coarse p-entity adds exactly the row/vertex number where those entities start (EntityCounter offsets = running offsets of the shape wrappers = vertex refiner offsets)", min_instances=50)
    ck.rule("E10.assert-true", "XASSERTs met in the symbolic wrapper runs whose condition is decidable hold for every mesh (otherwise refinement aborts)", min_instances=62)
    ck.rule("E10.vertex-mean", "StandardVertexRefiner: coarse vertices are copied; the vertex created by a coarse entity is cleared first and then the arithmetic mean of all vertices of "
            "that entity (equal coefficients summing to 1); returned counts = StandardRefinementTraits<.,0>::count*num", min_instances=29 + 12)
    ck.rule("E10.target-form", "StandardTargetRefiner<Shape,cd> (1D/2D shapes): out[offset + c*i + k] = index_offsets[dim Shape] + c*target[i] + child, c = number of fine cd-entities of the shape, "
            "child<c constant or TargetIndexMapping(parent's vertices of target[i], part's vertices of i, vertex targets).map(k)", min_instances=32)
    ck.rule("E10.target-child", "for every relative numbering (symmetry) of a part entity and its parent entity: the vertices (through the vertex targets) of fine part entity k are the vertices of "
            "the parent's fine entity it is mapped to - same child numbering as the index refiner of that shape", min_instances=114)
    ck.rule("E10.target-numbering", "whole TargetRefineWrapper<Shape> run: target rows follow the part's own fine numbering, target values the parent's fine numbering (both = numbering of E10.numbering)", min_instances=28)
    ck.rule("E10.simple-target", "parts without topology (SimpleTargetRefineWrapper run): the fine cd-entities of part entity i are stored at the part's own fine numbering and mapped bijectively "
            "onto the children of parent entity target[i] in the parent's fine numbering", min_instances=36)
    ck.rule("E10.refine-parent", "mesh_node.hpp: every StandardRefinery<MeshPart> built while a node is refined (halos, patches, MeshPartNode::refine) and every MeshPartNode::refine(parent) call gets the coarse mesh "
            "of the node being refined - the object the mesh refinery of the same function refines, or a const parent parameter - never something derived from a refinery product / the node under construction "
            "(the parent supplies the coarse entity counts for the target offsets: any halo/patch/part with edges or cells is mis-targeted otherwise)", min_instances=36)
    ck.rule("E10.perm-inverse-pair", "MeshPermutation: a member that establishes forward permutations _perms[d] (assignment, whole array handed to a helper, delegation) also establishes _inv_perms[d] = _perms[d].inverse() "
            "(or the corresponding copy) for the same dimensions d, after the forward one and under the same conditions (an empty inverse means 'not renumbered' to TargetSet::permute_map: parts with cells keep stale cell targets)", min_instances=56)
    ck.rule("E10.perm-inverse-coverage", "MeshPermutation: a member that (re)builds inverse permutations from forward ones it did not establish itself (create_inverse_permutations, the documented "
            "second step of a custom permutation filled through create_other()) assigns _inv_perms[d] = _perms[d].inverse() for EVERY dimension d = 0..shape_dim; an inverse left empty means "
            "'dimension not renumbered' to TargetSet::permute_map, so mesh parts with entities of that dimension (cells for d = shape_dim) keep stale targets", min_instances=18)
    ck.rule("E10.permute-coverage", "MeshPart::permute(mesh_perm) (called for every mesh part, halo and patch when a mesh is permuted), followed through TargetSetHolder::permute_map: for every "
            "dimension d = 0..shape_dim the target set <d> is mapped through the INVERSE permutation of the same dimension d on every path; the mapping may be skipped only under a test that "
            "the permutation of that very dimension (or the whole MeshPermutation) is empty - every dimension of a mesh permutation may be empty on its own, so a guard on one dimension "
            "(e.g. get_perm() with its default argument shape_dim) must not skip the others", min_instances=18)
    ck.rule("E10.boundary-facet-select", "BoundaryFaceComputer<Shape,n,n>::compute_all / compute_masks (the worker of BoundaryFactory / MaskedBoundaryFactory / GlobalMaskedBoundaryFactory), evaluated "
            "facet by facet over (number of adjacent cells 1|2) x (facet masked 0|1, the values add_mask_* store): the per-facet counter starts at 0 and is incremented once per (cell, local "
            "facet) incidence, and a facet is put into the boundary exactly if it has ONE adjacent cell and is not masked - a masked facet is never selected whatever its cell count "
            "(masks of patch / region / interface parts contain interior facets)", min_instances=8)
    ck.rule("E10.target-wrapper-choice", "TargetSetRefineParentWrapper<Parent>::fill_target_sets (StandardRefinery<MeshPart>): decision table over 'the coarse part has a topology' (coarse_ish != nullptr): "
            "the SimpleTargetRefineWrapper, which ignores the part's topology, is reached ONLY on paths where the part has none; with a topology the orientation-aware TargetRefineWrapper is "
            "used or the input is refused (XASSERT); every path that returns normally passes one of the two refiners (the refined sets are sized for every dimension by the constructor), "
            "an early return without refinement only under a condition that establishes zero entities of EVERY dimension - the part's own index sets are refined in the part's orientation, so simply refined targets map refined sub-entities onto the wrong "
            "children of the right parent entity", min_instances=12)
    ck.rule("E10.transfer-siblings", "kernel/geometry classes: move constructor, move assignment, clone(other) and clone() of one class transfer the same data members - a member transferred by one sibling is "
            "transferred or re-established by every other (otherwise the destination keeps a stale member, e.g. the facet neighbours of the mesh that was overwritten)", min_instances=137)
    ck.rule("E10.collection-guards", "mesh_node.hpp: a loop over one member collection of a node (mesh part nodes, halos, patches, ...) is not reached only under a condition on a different member collection "
            "(an early-out on the emptiness of one collection must not skip the processing of the others, e.g. permuting the halos of a node without mesh parts); loops whose "
            "iterators are obtained before the loop and calls of helpers that loop over a member collection (their own, or the one handed over as argument) count as loops", min_instances=96)
    ck.rule("E10.dual-adapt", "DualAdaptor::adapt (refine_unique with AdaptMode::dual): the only fine vertices modified are the cell midpoints, numbered like the vertex refiner numbers them "
            "(sum of the coarse entity counts of lower dimension + i), each written once (cleared first) as the mean of the facet midpoints of its own cell, addressed by the facet-midpoint offset "
            "of the same numbering (any hexahedral mesh with AdaptMode::dual otherwise gets wrong geometry)", min_instances=6)
    ck.rule("E10.flip-induced", "CongruencyMapping<S,1>::flip permutes the edges-at-face tuple by the edge permutation that CongruencyMapping<S,0>::flip induces through FaceIndexMapping<S,1,0> "
            "(FacetFlipper applies both to every negatively oriented boundary facet: otherwise edges-at-face of such facets are inconsistent, e.g. a single tetrahedron after deduct_topology_from_top)", min_instances=2)
    ck.rule("E10.flip-reverses", "CongruencyMapping<S,0>::flip is a reflection (orientation reversing symmetry) of the shape, so a flipped boundary facet becomes positively oriented", min_instances=4)
    ck.rule("E10.orientation-sign", "CongruencySampler<S>::orientation(code) is +1 exactly for the codes whose vertex row is a proper motion of the shape, -1 for reflections, 0 for the invalid code", min_instances=22)
    ck.rule("E10.callsite-roles", "call sites in StandardRefinery / TargetSetRefineParentWrapper: index/vertex refinement gets the coarse counts (never the array refined by EntityCountWrapper::query) "
            "and the sets of the same coarse mesh; target refinement gets the parent's counts and topology as target and the part's topology/target sets as source (a swap compiles: same types)", min_instances=72)
    ck.rule("E10.child-orientation", "on the reference cell (new vertices = means) every fine cell of the vertices-at-cell template has the orientation sign of the coarse cell "
            "(otherwise every affine cell of that shape gets children with negative Jacobian determinant)", min_instances=32)
    ck.rule("E10.child-volume", "the volumes of the fine cells of one reference cell add up to its volume (total volume preserved on affine cells)", min_instances=6)
    if ck.tier == "thorough":
        ck.rule("E10.build-same", "the anchored functions instantiated by the repository's own refinement tests are (structurally) the functions analysed in the driver TU", min_instances=5)
    ck.rule("E10.topology-coverage", "functions that (re)build the topology held by an IndexSetHolder<Shape> - RedundantIndexSetBuilder<Shape>::compute (all redundant sets "
            "<m,f>, 1 <= f < m <= dim) and MeshPart::deduct_topology (all sets <m,f>, 0 <= f < m <= dim, of the part's new holder) - define every such index set on every path, "
            "followed through the template recursions and helpers down to the stores; a definition may be skipped only where the holder has no entities of a dimension d <= m "
            "(then it has no m-entities either), never depending on the count of a higher dimension: the holder of a mesh part is typed by the parent's shape, so a surface "
            "part of a 3D mesh has no cells but needs edges-at-face, and a full-dimensional part needs vertices-at-cell (the refined part otherwise no longer follows its parent entities)", min_instances=28)
    ck.rule("E10.holder-established", "MeshPart::deduct_topology stores the deduced index sets into a holder that exists on every path: where the function's own null test of the "
            "holder pointer finds it null, the holder is created before it is dereferenced (a part without a topology - what BoundaryFactory and the other part factories produce - "
            "is exactly the case in which the test finds null)", min_instances=1)
    ck.rule("E10.no-orphan", "every fine entity of lower dimension created in the closure of the coarse cell is referenced by some fine cell", min_instances=83)


# =================================================================================================
# dual adaption of the refined vertex set (Intern::DualAdaptor, RootMeshNode::refine_unique(AdaptMode::dual))
# =================================================================================================

class DMesh:
    """coarse ('in') or fine mesh argument of DualAdaptor::adapt"""

    def __init__(self, ctx, fine):
        self.ctx, self.fine = ctx, fine

    def mcall(self, ev, name, node, args):
        if name == "get_num_entities" and len(args) == 1 and not self.fine:
            return Lin.atom(("num", "in", rt.lin(args[0]).as_int()))
        if name == "get_vertex_set" and self.fine:
            return FineVtxSet(self.ctx)
        if name == "get_index_set" and not self.fine:
            ta = targs(node.get("cfull", ""))
            if len(ta) == 2:
                return IdxSet2(self.ctx, "in", int(ta[0]), int(ta[1]))
        raise Unsupported("%s mesh::%s (line %s)" % ("fine" if self.fine else "coarse", name, node.get("l")))


class IdxSet2(IdxSet):
    def op_call(self, ev, args, node):
        if len(args) != 2:
            raise Unsupported("index set called with %d arguments" % len(args))
        return self.op_index(ev, args[0], node).op_index(ev, args[1], node)


class FineVtxSet:
    def __init__(self, ctx):
        self.ctx = ctx

    def op_index(self, ev, i, node):
        row = rt.lin(i)
        key = repr(row)
        if key not in self.ctx.vtx:
            self.ctx.vtx[key] = FineVtx(row, node.get("l") if node else None)
        return self.ctx.vtx[key]


class Scaled:
    def __init__(self, idx, coef):
        self.idx, self.coef = idx, coef


class FineVtx(VtxAcc):
    """vertex of the refined mesh: may be read (as a summand) and redefined"""

    def __init__(self, row, line):
        VtxAcc.__init__(self, row, line, True)
        self.written = False

    def mcall(self, ev, name, node, args):
        self.written = True
        return VtxAcc.mcall(self, ev, name, node, args)

    def op_bin(self, ev, op, other, left, node):
        if op == "*" and not isinstance(other, (FineVtx, Scaled)):
            return Scaled(self.row, other if isinstance(other, Fraction) else Fraction(rt.lin(other).as_int()))
        if op in ("+=", "-=") and left and isinstance(other, (Scaled, FineVtx)):
            self.written = True
            if self.coef is None:
                self.problems.append("sum onto a vertex that was not cleared first (line %s)" % node.get("l"))
                self.coef = {}
            idx, c = (other.idx, other.coef) if isinstance(other, Scaled) else (other.row, Fraction(1))
            self.coef[idx] = self.coef.get(idx, Fraction(0)) + (c if op == "+=" else -c)
            return self
        raise Unsupported("vertex operator%s (line %s)" % (op, node.get("l")))


def check_dual_adaptor(T, ck, facts, vbases):
    for sh in SHAPES:
        D = sh[1]
        fns = [f for f in facts.functions if f.tk != "pattern" and f.name == "adapt" and f.body is not None and
               re.match(r"^FEAT::Geometry::Intern::DualAdaptor<(FEAT::)?(Geometry::)?ConformalMesh<(FEAT::)?(Shape::)?%s, " % re.escape(sname(sh)), f.cls)]
        key = "DualAdaptor<%s>" % sname(sh)
        if len(fns) != 1:
            ck.incomplete("E10.dual-adapt", "%s::adapt not instantiated (%d)" % (key, len(fns)))
            continue
        fn = fns[0]
        ctx = Ctx()
        ev = make_eval(facts, ctx)
        try:
            ev.run(fn, [DMesh(ctx, True), DMesh(ctx, False)])
            written = [v for v in ctx.vtx.values() if v.written]
            if not written:
                ck.ob("E10.dual-adapt", key, True, "no vertex of the refined mesh is modified", fn.file, fn.line)
                continue
            nb = vbases.get(sh)
            if nb is None or D not in nb or (D - 1) not in nb:
                ck.incomplete("E10.dual-adapt", "%s: vertex numbering of the refined %s mesh not available" % (key, sname(sh)))
                continue
            prob = []
            nf = T.ft[(sh, D - 1)]
            for v in written:
                atom, c, k, base = split_row(v.row)
                p = loop_dim(ev, atom)
                prob += v.problems
                if p != D or c != 1 or k != 0 or base != nb[D]:
                    prob.append("modifies fine vertex %s; the vertices created by the coarse %d-cells are numbered %s + i" % (v.row, D, nb[D]))
                    continue
                want = {nb[D - 1] + Lin.atom(("ent", "in", D, D - 1, repr(Lin.atom(atom)), j)): Fraction(1, nf) for j in range(nf)}
                if v.coef != want:
                    got = ", ".join("%s*x[%s]" % (cf, kx) for kx, cf in sorted((v.coef or {}).items(), key=repr))
                    prob.append("cell vertex = %s; expected the mean of the %d facet midpoints x[%s + facet(i,j)] of the same cell" % (got, nf, nb[D - 1]))
            ck.ob("E10.dual-adapt", key, not prob, "; ".join(prob[:3]) or "vertex %s + i := mean of the %d facet midpoints %s + facet(i,j)" % (nb[D], nf, nb[D - 1]), fn.file, fn.line)
        except Unsupported as e:
            ck.incomplete("E10.dual-adapt", "%s: %s" % (key, e))


# =================================================================================================
# boundary facet re-orientation: CongruencyMapping::flip, CongruencySampler::orientation
# =================================================================================================

def ref_coords(T, facts, sh):
    full = "FEAT::Shape::ReferenceCell<FEAT::Shape::%s>::vertex<int>" % sname(sh)
    fn = find_full(facts, full)
    if fn is None:
        raise Unsupported("%s not instantiated" % full)
    ev = SymEval([facts])
    return {v: [Fraction(rt.lin(ev.run(fn, [Lin(v), Lin(c)])).as_int()) for c in range(sh[1])] for v in range(T.ft[(sh, 0)])}


def perm_sign(sh, X, p):
    """orientation sign of the vertex permutation p of the reference cell: +1 proper, -1 mirrored"""
    D = sh[1]
    def sv(q):
        step = (lambda j: j + 1) if sh[0] == "S" else (lambda j: 1 << j)
        return det([[X[q[step(j)]][c] - X[q[0]][c] for c in range(D)] for j in range(D)])
    a, b = sv(list(p)), sv(list(range(len(p))))
    if a == 0 or b == 0:
        raise Unsupported("degenerate reference cell")
    return 1 if (a > 0) == (b > 0) else -1


def flip_perm(facts, fn, n):
    """flip(idx) as a permutation q: idx'[k] = idx[q[k]]"""
    def h_swap(ev, node, env, f):
        a = ev.eval(node["a"][0], env, f, want_lvalue=True)
        b = ev.eval(node["a"][1], env, f, want_lvalue=True)
        if not (hasattr(a, "set") and hasattr(b, "set")):
            raise Unsupported("std::swap of non-lvalues (line %s)" % node.get("l"))
        va, vb = a.get(), b.get()
        a.set(vb, ev, node)
        b.set(va, ev, node)
        return None
    arr = rt.Arr([Lin.atom(("x", k)) for k in range(n)])
    ev = SymEval([facts], call_hooks=[(r"^std::swap$", h_swap), (r"^FEAT::assertion$", hook_assert)])
    ev.run(fn, [arr])
    q = []
    for k in range(n):
        v = rt.lin(arr[k])
        if v.c != 0 or len(v.t) != 1 or list(v.t.values()) != [1] or list(v.t)[0][0] != "x":
            raise Unsupported("%s: element %d becomes %s" % (fn.full, k, v))
        q.append(list(v.t)[0][1])
    if sorted(q) != list(range(n)):
        raise Unsupported("%s does not permute its argument: %s" % (fn.full, q))
    return tuple(q)


def check_flips(T, ck, facts):
    for sh in [("H", 1), ("S", 1), ("H", 2), ("S", 2)]:
        nv = T.ft[(sh, 0)]
        try:
            X = ref_coords(T, facts, sh)
        except Unsupported as e:
            ck.incomplete("E10.flip-reverses", "%s: %s" % (sname(sh), e))
            continue
        # orientation(code) against the geometric sign of the vertex row
        of = [f for f in facts.functions if f.tk != "pattern" and f.qn == "FEAT::Geometry::Intern::CongruencySampler<FEAT::Shape::%s>::orientation" % sname(sh)]
        rows = T.cm.get((sh, 0))
        if len(of) == 1 and rows is not None:
            for code, r in enumerate(rows):
                if tuple(r) not in set(T.syms[sh]):
                    continue        # unused row
                try:
                    got = rt.lin(SymEval([facts]).run(of[0], [Lin(code)])).as_int()
                    want = perm_sign(sh, X, r)
                except Unsupported as e:
                    ck.incomplete("E10.orientation-sign", "%s code %d: %s" % (sname(sh), code, e))
                    continue
                ck.ob("E10.orientation-sign", "CongruencySampler<%s>::orientation(%d)" % (sname(sh), code), got == want,
                      "returns %d; vertex row %s of this code is a %s of the shape" % (got, r, "proper motion" if want > 0 else "reflection"), of[0].file, of[0].line)
            try:
                got = rt.lin(SymEval([facts]).run(of[0], [Lin(-1)])).as_int()
                ck.ob("E10.orientation-sign", "CongruencySampler<%s>::orientation(-1)" % sname(sh), got == 0, "returns %d for the invalid code" % got, of[0].file, of[0].line)
            except Unsupported as e:
                ck.incomplete("E10.orientation-sign", "%s code -1: %s" % (sname(sh), e))
        else:
            ck.incomplete("E10.orientation-sign", "CongruencySampler<%s>::orientation / CongruencyMapping<.,0> not available" % sname(sh))
        # flip of the vertex tuple: a reflection of the shape
        f0 = [f for f in facts.functions if f.tk != "pattern" and f.name == "flip" and f.cls == "FEAT::Geometry::Intern::CongruencyMapping<FEAT::Shape::%s, 0>" % sname(sh)]
        if not f0:
            ck.incomplete("E10.flip-reverses", "CongruencyMapping<%s,0>::flip not instantiated" % sname(sh))
            continue
        try:
            pi = flip_perm(facts, f0[0], nv)
            sg = perm_sign(sh, X, pi)
        except Unsupported as e:
            ck.incomplete("E10.flip-reverses", str(e))
            continue
        ck.ob("E10.flip-reverses", "CongruencyMapping<%s,0>::flip" % sname(sh), pi in set(T.syms[sh]) and sg == -1,
              "vertex tuple becomes (v[%s]): %s" % ("], v[".join(map(str, pi)), "a reflection of the shape" if (pi in set(T.syms[sh]) and sg == -1) else
                                                    ("not a symmetry of the shape" if pi not in set(T.syms[sh]) else "orientation preserving")), f0[0].file, f0[0].line)
        if sh[1] < 2:
            continue
        f1 = [f for f in facts.functions if f.tk != "pattern" and f.name == "flip" and f.cls == "FEAT::Geometry::Intern::CongruencyMapping<FEAT::Shape::%s, 1>" % sname(sh)]
        if not f1:
            ck.incomplete("E10.flip-induced", "CongruencyMapping<%s,1>::flip not instantiated" % sname(sh))
            continue
        fim = T.fim[(sh, 1, 0)]
        try:
            sg1 = flip_perm(facts, f1[0], len(fim))
        except Unsupported as e:
            ck.incomplete("E10.flip-induced", str(e))
            continue
        eid = {frozenset(r): e for e, r in enumerate(fim)}
        want = tuple(eid.get(frozenset(pi[v] for v in r)) for r in fim)
        bad = [j for j in range(len(fim)) if want[j] != sg1[j]]
        ck.ob("E10.flip-induced", "CongruencyMapping<%s,1>::flip" % sname(sh), not bad,
              "edge tuple becomes (e[%s]); after the vertex flip (v[%s]) local edge j has the vertices of old edge (%s)%s" % (
                  "], e[".join(map(str, sg1)), "], v[".join(map(str, pi)), ",".join(map(str, want)),
                  "" if not bad else ": edges-at-face entries %s of every flipped boundary facet name the wrong edge" % bad), f1[0].file, f1[0].line)


# =================================================================================================
# call sites of the wrappers in the refineries (argument roles, E1)
# =================================================================================================

def local_inits(fn):
    out = {}
    for n in fn.nodes():
        if n.get("k") == "Var" and n.get("init") is not None:
            out[n["d"]] = n["init"]
    return out


def provenance(n, fn, inits, depth=0):
    """root object an expression is derived from: (('param'|'member'|'local', name), (accessor methods...))"""
    if n is None or depth > 12:
        return None
    k = n.get("k")
    if k == "Cast":
        return provenance(n["e"], fn, inits, depth + 1)
    if k == "Un" and n.get("op") in ("*", "&"):
        return provenance(n["e"], fn, inits, depth + 1)
    if k == "Ref":
        if n.get("dk") == "param":
            return (("param", n["n"]), ())
        if n.get("dk") == "local":
            if n["d"] in inits:
                return provenance(inits[n["d"]], fn, inits, depth + 1)
            return (("local", n["n"], n["d"]), ())
        return None
    if k == "Member" and n.get("b", {}).get("k") == "This":
        return (("member", n["n"]), ())
    if k == "MCall" and n.get("obj") is not None:
        r = provenance(n["obj"], fn, inits, depth + 1)
        if r is None:
            return None
        return (r[0], r[1] + (n.get("n"),))
    return None


def array_sources(fns, is_array, depth=0):
    """provenances of everything assigned to elements of an array (over several functions); a whole-array copy
    (std::copy / std::copy_n / memcpy from another member or local array) contributes the sources of that array"""
    out = []

    def base(n):
        while n is not None and (n.get("k") == "Cast" or (n.get("k") == "Un" and n.get("op") == "&") or (n.get("k") == "Index" and const_int(n.get("idx")) == 0)):
            n = n["e"] if n.get("k") in ("Cast", "Un") else n["b"]
        return n
    for fn in fns:
        inits = local_inits(fn)
        for n in fn.nodes():
            if n.get("k") == "Call" and re.match(r"^(std::copy|std::copy_n|std::memcpy|memcpy)$", n.get("callee", "").split("<")[0]) and len(n.get("a", [])) == 3 and depth < 3:
                cal = n["callee"].split("<")[0]
                dst, src = (n["a"][0], n["a"][1]) if cal.endswith("memcpy") else (n["a"][2], n["a"][0])
                dst, src = base(resolve_alias(dst, inits)), base(resolve_alias(src, inits))
                if dst is not None and is_array(dst) and src is not None and src.get("k") in ("Member", "Ref"):
                    if src.get("k") == "Member" and src.get("b", {}).get("k") == "This":
                        same = lambda b, nm=src["n"]: b.get("k") == "Member" and b.get("n") == nm and b.get("b", {}).get("k") == "This"
                    elif src.get("k") == "Ref":
                        if src.get("dk") == "param":
                            out.append(((("param", src["n"]), ()), n.get("l")))
                            continue
                        same = lambda b, d=src["d"]: b.get("k") == "Ref" and b.get("d") == d
                    else:
                        out.append((None, n.get("l")))
                        continue
                    sub = array_sources(fns, same, depth + 1)
                    out.extend(sub if sub else [(None, n.get("l"))])
                continue
            if n.get("k") != "Assign":
                continue
            targets = []
            cur = n
            while cur.get("k") == "Assign":      # a[i] = b[i] = value
                targets.append(cur["lhs"])
                cur = cur["rhs"]
            for t in targets:
                if t.get("k") == "Index" and is_array(t["b"]):
                    out.append((provenance(cur, fn, inits), n.get("l")))
    return out


def resolve_alias(n, inits, depth=0):
    """follow local pointer/reference aliases of an array argument down to the member / array it names"""
    while n is not None and depth < 8:
        depth += 1
        if n.get("k") == "Cast" or (n.get("k") == "Un" and n.get("op") in ("&", "*")):
            n = n["e"]
        elif n.get("k") == "Ref" and n.get("dk") == "local" and n["d"] in inits:
            n = inits[n["d"]]
        elif n.get("k") == "Index" and n.get("idx", {}).get("k") == "Int" and n["idx"].get("v") == "0":
            n = n["b"]          # &a[0]
        else:
            break
    return n


def check_callsites(ck, facts):
    """E1: the wrappers receive the part's / parent's / coarse mesh's data in the documented parameter slots.
    Only positively identified wrong origins are violations; anything whose origin cannot be traced is incomplete."""
    R = "E10.callsite-roles"

    def arg_by_name(call, name):
        pn = call.get("pn", [])
        return call["a"][pn.index(name)] if name in pn and pn.index(name) < len(call.get("a", [])) else None

    def counts_of(srcs):
        """sources of an entity-count array -> (root, unknown?)"""
        if not srcs or any(s[0] is None or s[0][1] != ("get_num_entities",) for s in srcs):
            return None
        roots = {s[0][0] for s in srcs}
        return list(roots)[0] if len(roots) == 1 else ("mixed", tuple(sorted(map(repr, roots))))

    for f in facts.functions:
        if f.tk == "pattern" or f.body is None:
            continue
        if not (f.name in ("fill_target_sets", "fill_index_sets", "fill_vertex_set") or (f.d.get("ctor") and f.cls.startswith("FEAT::Geometry::StandardRefinery<"))):
            continue
        inits = local_inits(f)
        # (A) target set refinement: parent's counts and topology vs. the part's topology and target sets
        if f.name == "fill_target_sets" and "TargetSetRefineParentWrapper" in f.cls:
            for c in f.calls(callee_re=r"Intern::(Simple)?TargetRefineWrapper<.*>::refine$"):
                simple = "SimpleTargetRefineWrapper" in c["callee"]
                ptype = short(f.param_type("parent") or "?").replace("const ", "").replace(" &", "")
                key = "%s/parent=%s/%s" % (short(f.cls), ptype, "simple" if simple else "standard")
                num = resolve_alias(arg_by_name(c, "num_entities_trg"), inits)
                tin = provenance(arg_by_name(c, "target_set_holder_in"), f, inits)
                tout = provenance(arg_by_name(c, "target_set_holder_out"), f, inits)
                srcs = array_sources([f], lambda b: b.get("k") == "Ref" and b.get("d") == num.get("d")) if num is not None and num.get("k") == "Ref" else []
                parent = counts_of(srcs)
                trg = src = None
                if not simple:
                    trg = provenance(arg_by_name(c, "index_set_holder_trg"), f, inits)
                    src = provenance(arg_by_name(c, "index_set_holder_src"), f, inits)
                unknown = [w for w, v in (("num_entities_trg", parent), ("target_set_holder_in", tin), ("target_set_holder_out", tout)) if v is None]
                if not simple:
                    unknown += [w for w, v in (("index_set_holder_trg", trg), ("index_set_holder_src", src)) if v is None]
                    if trg is not None and parent is not None and trg[0] == parent and trg[1] not in (("get_topology",), ("get_index_set_holder",)):
                        unknown.append("index_set_holder_trg via %s" % (trg[1],))
                if unknown or (parent and parent[0] == "mixed"):
                    ck.incomplete(R, "%s: origin of %s not traceable" % (key, unknown or parent))
                    continue
                prob = []
                if not simple:
                    if trg[0] != parent:
                        prob.append("index_set_holder_trg is the topology of %s, but the entity counts passed as num_entities_trg are those of %s" % (trg[0], parent))
                    if src[0] == parent:
                        prob.append("index_set_holder_src is derived from the parent object %s" % (parent,))
                if tin[0] == parent:
                    prob.append("target_set_holder_in is derived from the parent object %s" % (parent,))
                if tout[0] == parent or tout[0] == tin[0]:
                    prob.append("target_set_holder_out is %s" % (tout,))
                ck.ob(R, key, not prob, "; ".join(prob) or "counts and topology of %s as target, part's sets %s as source" % (parent, tin), f.file, c.get("l"))
        # (B) the refinery of a mesh part hands the part's target sets/topology and the parent over
        if f.name == "fill_target_sets" and re.match(r"^FEAT::Geometry::StandardRefinery<FEAT::Geometry::MeshPart<", f.cls):
            for c in f.calls(callee_re=r"TargetSetRefineParentWrapper<.*>::fill_target_sets$"):
                a = {nm: provenance(arg_by_name(c, nm), f, inits) for nm in ("target_set_holder", "coarse_target_set_holder", "coarse_ish", "parent")}
                key = "%s/parent=%s" % (short(f.cls)[:120], a["parent"][0][1] if a["parent"] else "?")
                if any(v is None for v in a.values()) or a["coarse_target_set_holder"][1] != ("get_target_set_holder",) or a["coarse_ish"][1] != ("get_topology",) or a["parent"][1] != ():
                    ck.incomplete(R, "%s: origins %s not traceable" % (key, a))
                    continue
                prob = []
                if a["coarse_target_set_holder"][0] != a["coarse_ish"][0]:
                    prob.append("coarse target sets are those of %s but the coarse topology that of %s" % (a["coarse_target_set_holder"][0], a["coarse_ish"][0]))
                if a["parent"][0] in (a["coarse_ish"][0], a["coarse_target_set_holder"][0]):
                    prob.append("the parent argument is the coarse mesh part %s itself" % (a["parent"][0],))
                if a["target_set_holder"][0] in (a["parent"][0], a["coarse_ish"][0]):
                    prob.append("the output target set holder is %s" % (a["target_set_holder"][0],))
                ck.ob(R, key, not prob, "; ".join(prob) or "part %s, parent %s" % (a["coarse_ish"][0], a["parent"][0]), f.file, c.get("l"))
        # (C) index / vertex refinement: coarse counts (not the refined ones) and the coarse mesh's sets
        if re.match(r"^FEAT::Geometry::StandardRefinery<", f.cls) and f.name in ("fill_index_sets", "fill_vertex_set"):
            cls_fns = [g for g in facts.functions if g.cls == f.cls and g.tk != "pattern" and g.body is not None]
            for c in f.calls(callee_re=r"Intern::(IndexRefineWrapper|StandardVertexRefineWrapper)<.*>::refine$"):
                key = "%s::%s" % (short(f.cls)[:120], f.name)
                prob = []
                hin = provenance(arg_by_name(c, "index_set_holder_in"), f, inits)
                if hin is None or hin[0][0] != "member" or hin[1] not in (("get_index_set_holder",), ("get_topology",)):
                    ck.incomplete(R, "%s: origin of index_set_holder_in (%s) not traceable" % (key, hin))
                    continue
                num = resolve_alias(arg_by_name(c, "num_entities"), inits)
                if arg_by_name(c, "num_entities") is not None:
                    if not (num is not None and num.get("k") == "Member" and num.get("b", {}).get("k") == "This"):
                        ck.incomplete(R, "%s: num_entities is not a member array" % key)
                        continue
                    nm = num["n"]
                    srcs = array_sources(cls_fns, lambda b: b.get("k") == "Member" and b.get("n") == nm)
                    root = counts_of(srcs)
                    ctor_inits = {}
                    for g in cls_fns:
                        for ini in g.d.get("inits", []) or []:
                            if "member" in ini:
                                pv = provenance(ini["init"], g, {})
                                if pv:
                                    ctor_inits.setdefault(ini["member"], set()).add(pv[0])
                    if root is None or root[0] == "mixed" or hin[0][1] not in ctor_inits:
                        ck.incomplete(R, "%s: origin of the counts in %s (%s) or of member %s not traceable" % (key, nm, [s[0] for s in srcs], hin[0][1]))
                        continue
                    refined = [q for g in cls_fns for q in g.calls(callee_re=r"Intern::EntityCountWrapper<.*>::query$")
                               if q["a"] and (resolve_alias(q["a"][0], local_inits(g)) or {}).get("k") == "Member" and resolve_alias(q["a"][0], local_inits(g)).get("n") == nm]
                    if refined:
                        prob.append("%s is also passed to EntityCountWrapper::query (it holds the fine counts)" % nm)
                    if root not in ctor_inits[hin[0][1]]:
                        prob.append("%s counts %s but the refined index sets are those of member %s (initialised from %s)" % (nm, root, hin[0][1], sorted(ctor_inits[hin[0][1]])))
                vin = arg_by_name(c, "vertex_set_in")
                if vin is not None:
                    pv = provenance(vin, f, inits)
                    if pv is None or pv[1] != ("get_vertex_set",):
                        ck.incomplete(R, "%s: origin of vertex_set_in (%s) not traceable" % (key, pv))
                        continue
                    if pv[0] != hin[0]:
                        prob.append("vertex_set_in is the vertex set of %s, the index sets those of %s" % (pv[0], hin[0]))
                ck.ob(R, key, not prob, "; ".join(prob) or "coarse data of member %s" % (hin[0][1],), f.file, c.get("l"))
        # (D) the fine counts are computed from an array initialised with the coarse counts
        if re.match(r"^FEAT::Geometry::StandardRefinery<", f.cls) and f.d.get("ctor"):
            for c in f.calls(callee_re=r"Intern::EntityCountWrapper<.*>::query$"):
                key = "%s::ctor(%s)/query" % (short(f.cls)[:120], ",".join(p["n"] for p in f.params))
                arr = resolve_alias(c["a"][0], inits) if c.get("a") else None
                if not (arr is not None and arr.get("k") == "Member"):
                    ck.incomplete(R, "%s: argument of query is not a member array" % key)
                    continue
                srcs = array_sources([f], lambda b: b.get("k") == "Member" and b.get("n") == arr["n"])
                root = counts_of(srcs)
                if root is None or root[0] == "mixed":
                    ck.incomplete(R, "%s: origin of the counts in %s not traceable (%s)" % (key, arr["n"], [s[0] for s in srcs]))
                    continue
                # the member whose index sets fill_index_sets refines, and the constructor argument it is initialised from
                coarse = None
                for g in facts.functions:
                    if g.cls == f.cls and g.name == "fill_index_sets" and g.tk != "pattern" and g.body is not None:
                        for q in g.calls(callee_re=r"Intern::IndexRefineWrapper<.*>::refine$"):
                            hv = provenance(arg_by_name(q, "index_set_holder_in"), g, local_inits(g))
                            if hv is not None and hv[0][0] == "member":
                                coarse = hv[0][1]
                mine = {pv[0] for ini in (f.d.get("inits", []) or []) if ini.get("member") == coarse for pv in [provenance(ini["init"], f, {})] if pv}
                if coarse is None or not mine:
                    ck.incomplete(R, "%s: the member holding the coarse mesh is not identifiable" % key)
                    continue
                ok = root in mine
                ck.ob(R, key, ok, "fine counts computed from the counts of %s; the refined index sets are those of member %s, initialised from %s" % (root, coarse, sorted(mine)), f.file, c.get("l"))


# =================================================================================================
# mesh nodes: the parent handed to a mesh-part refinery; mesh permutations: forward/inverse pairs
# =================================================================================================

def origin(n, fn, inits, depth=0):
    """root of an object expression: ('member', name) | ('param', name) | ('local', name, decl id) | None"""
    while n is not None and depth < 16:
        depth += 1
        k = n.get("k")
        if k == "Cast":
            n = n["e"]
        elif k == "Un" and n.get("op") in ("*", "&"):
            n = n["e"]
        elif k == "OpCall" and n.get("op") in ("*", "->") and n.get("a"):
            n = n["a"][0]
        elif k == "MCall" and n.get("obj") is not None:
            n = n["obj"]
        elif k == "Index":
            n = n["b"]
        elif k == "Member":
            if n.get("b", {}).get("k") == "This":
                return ("member", n["n"])
            n = n.get("b")
        elif k == "Ref":
            if n.get("dk") == "param":
                return ("param", n["n"])
            if n.get("dk") == "local":
                ini = inits.get(n["d"])
                if ini is not None and ini.get("k") in ("Ref", "Member", "Un", "Cast", "MCall", "OpCall", "Index"):
                    r = origin(ini, fn, inits, depth)
                    if r is not None:
                        return r
                return ("local", n["n"], n["d"])
            return None
        else:
            return None
    return None


REFINE_PRODUCT = r"(::refine_unique$|MeshPartNode<.*>::refine$|::refine_children$)"


def tainted_by_refinement(n, fn, inits, seen=None):
    """the expression (or the initialiser of a local it names) contains the product of a refinery: a call on / a
    construction from an object of a StandardRefinery type (Factory::make, make_unique, Mesh(factory)), or a refine call"""
    seen = seen if seen is not None else set()
    for x in featlib.walk(n):
        if featlib.is_call(x):
            if re.search(REFINE_PRODUCT, x.get("callee", "")):
                return True
            operands = ([x["obj"]] if x.get("obj") is not None else []) + list(x.get("a", []))
            if any("StandardRefinery<" in (fn.ntype(o) or "") for o in operands):
                return True
        if x.get("k") == "Ref" and x.get("dk") == "local" and x["d"] in inits and x["d"] not in seen:
            seen.add(x["d"])
            if tainted_by_refinement(inits[x["d"]], fn, inits, seen):
                return True
    return False


def check_refine_parent(ck, facts):
    """every StandardRefinery<MeshPart> built while refining a node gets the *coarse* mesh of that node as parent.
    Helpers are followed: a refinery site inside a helper of mesh_node.hpp that is called from several places counts once per
    call site (each loop that refines parts through the helper is an instance), a parent argument that is a parameter of the
    helper is traced into the caller's argument, and the coarse mesh of the refinement step is the one of the calling function
    when the helper itself builds no mesh refinery."""
    R = "E10.refine-parent"
    fns = [f for f in facts.functions if f.tk != "pattern" and f.body is not None and "/kernel/geometry/mesh_node.hpp" in f.file]
    by_decl = {(f.qn, f.d.get("decl")): f for f in fns}
    by_id = {f.d.get("decl"): f for f in fns if f.d.get("decl") is not None}

    def is_closure_call(c):
        return c.get("k") == "OpCall" and c.get("op") == "()" and c.get("ccls") == "<lambda>"

    def lookup(c):
        t = by_decl.get((c.get("callee"), c.get("cdecl")))
        if t is None and is_closure_call(c):
            t = by_id.get(c.get("cdecl"))        # call of a local closure: the (specialised) call operator it resolved to
        return t

    def own_nodes(f):
        """nodes of f without the bodies of nested lambdas (those are functions of their own)"""
        return featlib.walk(f.body, prune=lambda y: y.get("k") == "Lambda")

    def lambda_home(f):
        """(enclosing function, ordinal of the lambda in it) for a lambda call operator, else None"""
        if "::<lambda@" not in f.qn:
            return None
        eq = f.qn.rsplit("::<lambda@", 1)[0]
        want = f.spec_of if getattr(f, "spec_of", None) is not None else f.d.get("decl")
        for g in fns:
            if g.qn == eq:
                lams = [x for x in g.nodes() if x.get("k") == "Lambda"]
                for j, x in enumerate(lams):
                    if x.get("op_decl") == want:
                        return g, j
        return None

    def sites_of(f):
        sites = []
        for n in own_nodes(f):
            if n.get("k") in ("Construct", "TempObj") and re.match(r"^FEAT::Geometry::StandardRefinery<FEAT::Geometry::MeshPart<", n.get("ccls", "")) and len(n.get("a", [])) == 2:
                sites.append(("refinery", n, n["a"][1]))
            if n.get("k") == "MCall" and re.search(r"MeshPartNode<.*>::refine$", n.get("callee", "")) and len(n.get("a", [])) == 1:
                sites.append(("refine-call", n, n["a"][0]))
        return sites

    def coarse_of(f, inits):
        # the coarse mesh of this refinement step: what the mesh refinery of the same function is built from
        return {origin(n["a"][0], f, inits) for n in f.nodes() if n.get("k") in ("Construct", "TempObj")
                and re.match(r"^FEAT::Geometry::StandardRefinery<FEAT::Geometry::(ConformalMesh|StructuredMesh)<", n.get("ccls", "")) and len(n.get("a", [])) == 1}

    site_map = {id(f): sites_of(f) for f in fns}
    callers = {}
    for g in fns:
        site_nodes = {id(n) for _, n, _ in site_map[id(g)]}
        for c in own_nodes(g):
            if featlib.is_call(c) and c.get("callee") and id(c) not in site_nodes:
                t = lookup(c)
                if t is not None and t is not g:
                    callers.setdefault(id(t), []).append((g, c))
    # a lambda that is not called directly (handed to an algorithm / stored) still belongs to the refinement step of its enclosing function
    home = {id(f): lambda_home(f) for f in fns}

    def judge(f, parg, ctx, depth=0):
        """-> (ok|None, detail); ctx = (caller fn, call node) the function f was entered through, or None"""
        inits = local_inits(f)
        if home.get(id(f)) is not None:
            # variables a lambda captures are locals of its enclosing function (same declaration ids)
            merged = dict(local_inits(home[id(f)][0]))
            merged.update(inits)
            inits = merged
        coarse = coarse_of(f, inits)
        up = ctx
        hops = 0
        if up is None and home.get(id(f)) is not None:
            up = (home[id(f)][0], None)
        while not coarse and up is not None and hops < 3:
            coarse = coarse_of(up[0], local_inits(up[0]))
            ups = callers.get(id(up[0]), [])
            up = ups[0] if len(ups) == 1 else ((home[id(up[0])][0], None) if home.get(id(up[0])) is not None else None)
            hops += 1
        o = origin(parg, f, inits)
        if o is None:
            return None, "origin of the parent argument %s not traceable" % featlib.render(parg)
        if o[0] == "member":
            ok = not coarse or o in coarse
            return ok, "parent is member %s%s" % (o[1], "" if ok else " but the mesh refinery of this refinement step refines %s" % sorted(coarse, key=repr))
        if o[0] == "param":
            if ctx is not None and depth < 3:
                g, c = ctx
                names = [p["n"] for p in f.params]
                off = 1 if is_closure_call(c) else 0       # the first operand of a closure call is the closure object
                if o[1] in names and names.index(o[1]) + off < len(c.get("a", [])):
                    arg = c["a"][names.index(o[1]) + off]
                    ups = callers.get(id(g), [])
                    ok, detail = judge(g, arg, ups[0] if len(ups) == 1 else None, depth + 1)
                    return ok, "parent is parameter %s of %s, bound at %s:%s to `%s`: %s" % (o[1], f.name, g.name, c.get("l"), featlib.render(arg), detail)
            pt = f.param_type(o[1]) or ""
            const_in = pt.lstrip().startswith("const ")
            return const_in, "parent is parameter %s (%s)%s" % (o[1], pt, "" if const_in else ": a mutable reference parameter is the node under construction, not the coarse parent")
        if tainted_by_refinement(parg, f, inits):
            return False, "parent %s is derived from the result of a refinery (the refined node/mesh), expected the coarse mesh %s" % (
                featlib.render(parg), sorted(coarse, key=repr) if coarse else "of the node being refined")
        return None, "parent argument %s is a computed local" % featlib.render(parg)

    # the specialisations of one generic lambda are one source function: their call sites are pooled
    groups = {}
    for f in fns:
        if site_map[id(f)]:
            gk = ("L", f.spec_of) if getattr(f, "spec_of", None) is not None else ("F", id(f))
            groups.setdefault(gk, []).append(f)
    for gk, members in groups.items():
        f = members[0]
        sites = site_map[id(f)]
        ctxs = []
        for mf in members:
            for g, c in callers.get(id(mf), []):
                # instantiations of one source function that call f from the same source line are one place
                if not any(g2.qn == g.qn and c2.get("l") == c.get("l") for g2, c2, _ in ctxs):
                    ctxs.append((g, c, mf))
        hm = home.get(id(f))
        fname = "%s::%s" % (short(f.cls)[:110], f.name) if hm is None else "%s::%s/lambda#%d" % (short(hm[0].cls)[:110], hm[0].name, hm[1])
        for num, (kind, n, parg) in enumerate(sites):
            base = "%s/%s%d" % (fname, kind, num)
            if len(ctxs) >= 2:
                # a shared helper: one instance per place that refines parts through it
                per_caller = {}
                for g, c, mf in ctxs:
                    j = per_caller[id(g)] = per_caller.get(id(g), -1) + 1
                    key = "%s@%s#%d" % (base, g.name, j)
                    msites = site_map[id(mf)]
                    if num >= len(msites):
                        ck.incomplete(R, "%s: the specialisations of the lambda differ in their refinery sites" % key)
                        continue
                    ok, detail = judge(mf, msites[num][2], (g, c))
                    if ok is None:
                        ck.incomplete(R, "%s: %s" % (key, detail))
                    else:
                        ck.ob(R, key, ok, detail + " (helper entered from %s line %s)" % (g.name, c.get("l")), f.file, n.get("l"))
            else:
                mf = ctxs[0][2] if ctxs else f
                if num >= len(site_map[id(mf)]):
                    ck.incomplete(R, "%s: the specialisations of the lambda differ in their refinery sites" % base)
                    continue
                ok, detail = judge(mf, site_map[id(mf)][num][2], ctxs[0][:2] if ctxs else None)
                if ok is None:
                    ck.incomplete(R, "%s: %s" % (base, detail))
                else:
                    ck.ob(R, base, ok, detail, f.file, n.get("l"))


def const_int(n):
    while n is not None and n.get("k") == "Cast":
        n = n["e"]
    if n is None:
        return None
    if n.get("k") == "Int":
        return int(n["v"])
    if n.get("k") == "Ref" and "v" in n:
        return int(n["v"])
    if n.get("k") == "Bin" and n.get("op") in ("+", "-"):
        a, b = const_int(n["lhs"]), const_int(n["rhs"])
        if a is not None and b is not None:
            return a + b if n["op"] == "+" else a - b
    return None


def loop_range(forn):
    """for(T v(lo); v < / <= / != hi; ++v) or for(T v(hi); v >= / > / != lo; --v) with constant bounds -> (decl id, range)"""
    init, c, inc = forn.get("init"), forn.get("c"), forn.get("inc")
    if not (init and init.get("k") == "Decl" and len(init["vars"]) == 1 and c and c.get("k") == "Bin" and inc and inc.get("k") == "Un" and inc.get("op") in ("++", "--")):
        return None
    var = init["vars"][0]
    start = const_int(var.get("init"))
    lhs, rhs, op = c["lhs"], c["rhs"], c.get("op")
    while lhs.get("k") == "Cast":
        lhs = lhs["e"]
    while rhs.get("k") == "Cast":
        rhs = rhs["e"]
    if not (lhs.get("k") == "Ref" and lhs.get("d") == var["d"]):
        lhs, rhs = rhs, lhs
        op = {"<": ">", ">": "<", "<=": ">=", ">=": "<="}.get(op, op)
    bound = const_int(rhs)
    e = inc["e"]
    while e.get("k") == "Cast":
        e = e["e"]
    if start is None or bound is None or lhs.get("k") != "Ref" or lhs.get("d") != var["d"] or e.get("k") != "Ref" or e.get("d") != var["d"]:
        return None
    if inc["op"] == "++" and op in ("<", "<=", "!="):
        return var["d"], range(start, bound + 1 if op == "<=" else bound)
    if inc["op"] == "--" and op in (">", ">=", "!="):
        return var["d"], range(bound if op == ">=" else bound + 1, start + 1)
    return None


def check_perm_pairs(ck, facts):
    """MeshPermutation: whoever establishes forward permutations _perms[d] establishes the inverse _inv_perms[d] of the same d"""
    R = "E10.perm-inverse-pair"
    classes = sorted({f.cls for f in facts.functions if f.tk != "pattern" and re.match(r"^FEAT::Geometry::MeshPermutation<FEAT::Shape::\w+<\d>>$", f.cls)})
    for cls in classes:
        fns = [f for f in facts.functions if f.cls == cls and f.tk != "pattern" and f.body is not None]
        sh = shape_of(cls)
        N = sh[1] + 1
        summaries = {}

        def slots_of(acc, anc):
            """slot set named by an accessor expression on _perms/_inv_perms: (member name, this?, slots, index text) or None"""
            e = acc
            for _ in range(6):
                if e.get("k") == "Cast":
                    e = e["e"]
                elif e.get("k") == "Ref" and e.get("dk") == "local" and e.get("d") in cur_inits[0]:
                    e = cur_inits[0][e["d"]]        # reference alias of a slot
                else:
                    break
            idx = None
            if e.get("k") == "MCall" and e.get("n") in ("at", "back", "front") and e.get("obj") is not None:
                base, idx = e["obj"], (e["a"][0] if e.get("n") == "at" and e.get("a") else None)
                kind = e["n"]
            elif e.get("k") == "OpCall" and e.get("op") == "[]" and len(e.get("a", [])) == 2:
                base, idx, kind = e["a"][0], e["a"][1], "at"
            elif e.get("k") == "Member":
                base, kind = e, "all"
            else:
                return None
            while base.get("k") == "Cast":
                base = base["e"]
            if base.get("k") != "Member" or base.get("n") not in ("_perms", "_inv_perms"):
                return None
            mine = base.get("b", {}).get("k") == "This"
            if kind == "all":
                return (base["n"], mine, set(range(N)), "*")
            if kind == "back":
                return (base["n"], mine, {N - 1}, "back")
            if kind == "front":
                return (base["n"], mine, {0}, "front")
            ci = const_int(idx)
            if ci is not None:
                return (base["n"], mine, {ci}, str(ci))
            ix = idx
            for _ in range(6):
                while ix is not None and ix.get("k") == "Cast":
                    ix = ix["e"]
                is_loop_var = ix is not None and ix.get("k") == "Ref" and any(a.get("k") == "For" and (loop_range(a) or (None,))[0] == ix.get("d") for a in anc)
                if ix is not None and ix.get("k") == "Ref" and ix.get("dk") == "local" and ix.get("d") in cur_inits[0] and not is_loop_var:
                    ix = cur_inits[0][ix["d"]]          # const local holding the (converted) loop variable
                else:
                    break
            if ix is not None and ix.get("k") == "Ref":
                for a in anc:
                    if a.get("k") == "For":
                        lr = loop_range(a)
                        if lr and lr[0] == ix.get("d"):
                            return (base["n"], mine, set(lr[1]), "loop:%s" % ix["d"])
            return (base["n"], mine, None, featlib.render(idx) if idx is not None else "?")

        cur_inits = [{}]

        def scan(f):
            fw, inv, unknown = [], [], []     # (slots, index text, if-chain, order, line[, rhs class])
            order = [0]
            cur_inits[0] = local_inits(f)

            def visit(n, anc):
                order[0] += 1
                here = order[0]
                k = n.get("k")
                lhs = rhs = None
                if k == "OpCall" and n.get("op") == "=" and len(n.get("a", [])) == 2:
                    lhs, rhs = n["a"]
                elif k == "Assign" and n.get("op") == "=":
                    lhs, rhs = n["lhs"], n["rhs"]
                ifs = tuple((a.get("i"), a.get("br")) for a in anc if a.get("k") == "IfBranch")
                if lhs is not None:
                    s = slots_of(lhs, anc)
                    if s is not None and s[1]:
                        if s[2] is None:
                            unknown.append("slot %s.at(%s) (line %s)" % (s[0], s[3], n.get("l")))
                        elif s[0] == "_perms":
                            fw.append((s[2], s[3], ifs, here, n.get("l")))
                        else:
                            r = rhs
                            while r.get("k") in ("Cast",) or (r.get("k") == "Call" and r.get("callee", "").startswith("std::") and len(r.get("a", [])) == 1):
                                r = r["e"] if r.get("k") == "Cast" else r["a"][0]
                            cls_r = "unknown"
                            if r.get("k") == "Cond":
                                # `_perms[d].empty() ? Permutation() : _perms[d].inverse()`: the inverse of an empty permutation is the empty one
                                arms = []
                                for arm in (r["then"], r["else"]):
                                    while arm.get("k") in ("Cast",):
                                        arm = arm["e"]
                                    if arm.get("k") in ("Construct", "TempObj") and not arm.get("a") and arm.get("ccls", "").endswith("Adjacency::Permutation"):
                                        arms.append("empty")
                                    elif arm.get("k") == "MCall" and arm.get("n") == "inverse":
                                        so = slots_of(arm["obj"], anc)
                                        arms.append("inverse-same" if so is not None and so[0] == "_perms" and so[1] and so[3] == s[3] else "other")
                                    else:
                                        arms.append("other")
                                cs = slots_of(next((y for y in featlib.walk(r["c"]) if slots_of(y, anc) is not None), {"k": "?"}), anc) if r.get("c") is not None else None
                                if sorted(arms) == ["empty", "inverse-same"] and cs is not None and cs[0] == "_perms" and cs[3] == s[3]:
                                    cls_r = "inverse-same"
                            if r.get("k") == "MCall" and r.get("n") == "inverse":
                                so = slots_of(r["obj"], anc)
                                if so is not None and so[0] == "_perms" and so[1]:
                                    cls_r = "inverse-same" if so[3] == s[3] else "inverse-other:%s" % so[3]
                            elif r.get("k") == "MCall" and r.get("n") == "clone":
                                so = slots_of(r["obj"], anc)
                                if so is not None and so[0] == "_inv_perms" and not so[1] and so[3] == s[3]:
                                    cls_r = "copy-same"
                            else:
                                so = slots_of(r, anc)
                                if so is not None and so[0] == "_inv_perms" and not so[1] and so[3] == s[3]:
                                    cls_r = "copy-same"
                            inv.append((s[2], s[3], ifs, here, n.get("l"), cls_r))
                if featlib.is_call(n) and not (k == "OpCall" and n.get("op") == "="):
                    # whole arrays handed to a callee in a mutable position; members of the same class called on this
                    for a, pt in zip(n.get("a", []), n.get("pt", [])):
                        aa = a
                        while aa.get("k") == "Cast":
                            aa = aa["e"]
                        if aa.get("k") == "Member" and aa.get("b", {}).get("k") == "This" and aa.get("n") in ("_perms", "_inv_perms"):
                            ty = f.type(pt) or ""
                            if ty.rstrip().endswith("&") and not ty.lstrip().startswith("const "):
                                if aa["n"] == "_perms":
                                    fw.append((set(range(N)), "*", ifs, here, n.get("l")))
                                else:
                                    unknown.append("_inv_perms passed to %s (line %s)" % (n.get("callee"), n.get("l")))
                    for a in n.get("a", []):
                        aa = a
                        while aa.get("k") in ("Cast", "Un"):
                            aa = aa["e"]
                        if aa.get("k") == "This":
                            unknown.append("the object itself is handed to %s (line %s)" % (n.get("callee"), n.get("l")))
                    if k == "MCall" and (n.get("obj") is None or n.get("obj", {}).get("k") == "This"):
                        callee = [g for g in fns if g.qn == n.get("callee") and len(g.params) == len(n.get("pn", []))]
                        if not callee and not n.get("cconst") and n.get("ccls") == cls:
                            unknown.append("non-const member %s without analysed body is called (line %s)" % (n.get("callee"), n.get("l")))
                        for g in callee[:1]:
                            if g.full in summaries and summaries[g.full] is not None:
                                gfw, ginv, gunk = summaries[g.full]
                                for x in gfw:
                                    fw.append((x[0], x[1], ifs, here, n.get("l")))
                                for x in ginv:
                                    inv.append((x[0], "callee:" + x[1], ifs, here, n.get("l"), x[5] if x[5].startswith("inverse-same") or x[5] == "copy-same" else x[5]))
                                unknown.extend(gunk)
                if k == "If":
                    for nm in ("init", "c"):
                        if n.get(nm) is not None:
                            visit(n[nm], anc + [n])
                    for br in ("then", "else"):
                        if n.get(br) is not None:
                            visit(n[br], anc + [n, {"k": "IfBranch", "i": n.get("i"), "br": br}])
                    return
                for c in featlib.children(n):
                    visit(c, anc + [n])
            for ini in f.d.get("inits", []) or []:
                if ini.get("member") in ("_perms", "_inv_perms"):
                    so = None
                    for x in featlib.walk(ini.get("init")):
                        if x.get("k") == "Member" and x.get("n") == ini["member"] and x.get("b", {}).get("k") != "This":
                            so = x
                    if ini["member"] == "_perms":
                        fw.append((set(range(N)), "*", (), 0, ini.get("l")))
                    else:
                        inv.append((set(range(N)), "*", (), 0, ini.get("l"), "copy-same" if so is not None else "unknown"))
            visit(f.body, [])
            return fw, inv, unknown

        # callees first (two rounds are enough for the delegation depth in this class)
        for _ in range(2):
            for f in fns:
                summaries[f.full] = scan(f)
        # (b) members that (re)build inverse permutations without establishing forward ones (create_inverse_permutations: the
        #     documented second step of a custom permutation, whose forward array is filled by the caller through create_other())
        #     must do so for EVERY dimension 0..shape_dim the class holds a permutation for
        RC = "E10.perm-inverse-coverage"
        for f in fns:
            fw, inv, unknown = summaries[f.full]
            if not fw and not inv and any(u.startswith("slot _inv_perms") for u in unknown) and not f.d.get("ctor"):
                ck.incomplete(RC, "%s::%s: %s" % (short(cls), f.name, "; ".join(unknown[:2])))
            if fw or not inv or f.d.get("ctor") or any(x[5] == "copy-same" for x in inv):
                continue
            base = "%s::%s" % (short(cls), f.name)
            if unknown:
                ck.incomplete(RC, "%s: %s" % (base, "; ".join(unknown[:2])))
                continue
            for d in range(N):
                key = "%s/dim%d" % (base, d)
                cands = [x for x in inv if d in x[0]]
                good = [x for x in cands if x[5] == "inverse-same"]
                if not cands:
                    ck.ob(RC, key, False, "the inverse permutation of dimension %d%s is not (re)created: no assignment to _inv_perms[%d] on any path (dimensions covered: %s) - "
                          "TargetSet::permute_map treats the empty inverse as 'not renumbered', so the %d-dimensional target sets of mesh parts keep the old numbers" % (
                              d, " (the cells)" if d == N - 1 else "", d, sorted(set().union(*[x[0] for x in inv])), d), f.file, f.line)
                    continue
                if not good:
                    x = cands[0]
                    if x[5] == "unknown":
                        ck.incomplete(RC, "%s: _inv_perms[%d] is assigned from an expression that is not recognised (line %s)" % (key, d, x[4]))
                    else:
                        ck.ob(RC, key, False, "_inv_perms[%d] is the inverse of _perms.%s (line %s), not of _perms[%d]" % (d, x[5].split(":", 1)[-1], x[4], d), f.file, x[4])
                    continue
                # conditions the assignment sits under may only look at the forward permutation of the same slot
                bad_cond = None
                for x in good:
                    bad_cond = None
                    for iid, br in x[2]:
                        ifn = f.by_id(iid)
                        c = ifn.get("c") if ifn is not None else None
                        for y in featlib.walk(c):
                            if y.get("k") in ("Member",) and y.get("b", {}).get("k") == "This" and y.get("n") != "_perms":
                                bad_cond = c
                            if y.get("k") == "Ref" and y.get("dk") == "param":
                                bad_cond = c
                        for y in featlib.walk(c):
                            idx = None
                            if y.get("k") == "MCall" and y.get("n") in ("at", "back", "front"):
                                b_, idx = y.get("obj"), (y["a"][0] if y.get("n") == "at" and y.get("a") else None)
                                tag = {"back": "back", "front": "front"}.get(y["n"])
                            elif y.get("k") == "OpCall" and y.get("op") == "[]" and len(y.get("a", [])) == 2:
                                b_, idx, tag = y["a"][0], y["a"][1], None
                            else:
                                continue
                            while b_ is not None and b_.get("k") == "Cast":
                                b_ = b_["e"]
                            if b_ is None or b_.get("k") != "Member" or b_.get("n") != "_perms":
                                continue
                            while idx is not None and idx.get("k") == "Cast":
                                idx = idx["e"]
                            if idx is not None:
                                ci = const_int(idx)
                                tag = str(ci) if ci is not None else ("loop:%s" % idx["d"] if idx.get("k") == "Ref" else featlib.render(idx))
                            if tag != x[1]:
                                bad_cond = c
                    if bad_cond is None:
                        break
                if bad_cond is not None:
                    ck.incomplete(RC, "%s: the assignment of _inv_perms[%d] depends on the condition `%s`, which is not a test of _perms[%d] alone" % (key, d, featlib.render(bad_cond), d))
                    continue
                ck.ob(RC, key, True, "_inv_perms[%d] = _perms[%d].inverse() (line %s)" % (d, d, good[0][4]), f.file, good[0][4])

        for f in fns:
            fw, inv, unknown = summaries[f.full]
            if not fw:
                continue
            key = "%s::%s%s" % (short(cls), f.name, "/%d" % len(f.params) if sum(1 for g in fns if g.name == f.name) > 1 else "")
            F = set().union(*[x[0] for x in fw])
            prob, inc = [], list(unknown)
            for d in sorted(F):
                wr = [x for x in fw if d in x[0]]
                last = max(wr, key=lambda x: x[3])
                cands = [x for x in inv if d in x[0]]
                good = [x for x in cands if x[5] in ("inverse-same", "copy-same") and x[3] >= last[3] and (x[2] == last[2] or not x[2])]
                if good:
                    continue
                if any(x[5] == "unknown" for x in cands):
                    inc.append("inverse permutation of dimension %d is assigned from an expression that is not recognised (line %s)" % (d, [x[4] for x in cands if x[5] == "unknown"][0]))
                elif cands:
                    x = cands[0]
                    prob.append("_inv_perms[%d] is %s (line %s), not the inverse of _perms[%d] established at line %s" % (
                        d, "the inverse of _perms.%s" % x[5].split(":", 1)[1] if x[5].startswith("inverse-other") else "set before / under another condition than the forward permutation", x[4], d, last[4]))
                else:
                    prob.append("_perms[%d] is established (line %s) but _inv_perms[%d] is not: readers such as TargetSet::permute_map treat an empty inverse as 'dimension not renumbered'" % (d, last[4], d))
            if inc and not prob:
                ck.incomplete(R, "%s: %s" % (key, "; ".join(inc[:3])))
                continue
            ck.ob(R, key, not prob, "; ".join(prob[:3]) or "forward and inverse permutations established for dimensions %s" % sorted(F), f.file, f.line)


# =================================================================================================
# copy-like operations of the mesh classes (sibling agreement); guards of loops over part collections
# =================================================================================================

def mentions(n, pred):
    return any(pred(x) for x in featlib.walk(n))


def field_of(n, is_dest):
    """data member of the destination object an lvalue / receiver expression belongs to, or None"""
    for _ in range(12):
        if n is None:
            return None
        k = n.get("k")
        if k == "Cast" or (k == "Un" and n.get("op") in ("*", "&")):
            n = n["e"]
        elif k == "Index":
            n = n["b"]
        elif k == "OpCall" and n.get("op") in ("[]", "*", "->", "()") and n.get("a"):
            n = n["a"][0]
        elif k == "MCall" and n.get("n") in ("at", "get", "back", "front") and n.get("obj") is not None:
            n = n["obj"]
        elif k == "Member":
            if is_dest(n.get("b")):
                return n["n"]
            n = n.get("b")
        else:
            return None
    return None


def check_transfer_siblings(ck, facts):
    """move constructor, move assignment and clone of a class transfer the same data members"""
    R = "E10.transfer-siblings"
    by_cls = {}
    for f in facts.functions:
        if f.tk == "pattern" or f.body is None or not f.file.startswith(featlib.repo_path("kernel/geometry/")):
            continue
        pts = [f.type(p["t"]) or "" for p in f.params]
        kind = None
        if f.d.get("ctor") and len(pts) == 1 and pts[0].rstrip().endswith("&&"):
            kind = "move-ctor"
        elif f.name == "operator=" and len(pts) == 1 and pts[0].rstrip().endswith("&&"):
            kind = "move-assign"
        elif f.name == "clone" and len(pts) <= 1:
            kind = "clone(other)" if pts else "clone()"
        if kind:
            by_cls.setdefault(f.cls, {})[kind] = f
    for cls, ops in sorted(by_cls.items()):
        if len(ops) < 2:
            continue
        info = {}
        for kind, f in ops.items():
            ctor_fields = set()
            if kind == "clone()":
                norm = lambda t: short(re.sub(r"^(const )?(class |struct )?", "", t or "").strip()).replace(" ", "")
                loc = [v for n in f.nodes() if n.get("k") == "Decl" for v in n.get("vars", [])
                       if norm(f.type(v.get("t"))) in (norm(cls), norm(cls).split("<")[0]) or norm(f.type(v.get("t"))).startswith(norm(cls).split("<")[0] + "<") and norm(f.type(v.get("t"))) == norm(cls)]
                dest_d = loc[0]["d"] if loc else None
                if dest_d is None:
                    info[kind] = "skip"          # e.g. `return X(private clone constructor arguments)`: not comparable member-wise
                    continue
                ini = loc[0].get("init")
                if ini is not None and ini.get("k") in ("Construct", "TempObj") and ini.get("a"):
                    g = [x for x in facts.functions if x.tk != "pattern" and x.d.get("ctor") and x.cls == cls and x.full == ini.get("cfull") and len(x.params) == len(ini.get("pn", []))]
                    if not g or g[0].body is None:
                        info[kind] = "skip"
                        continue
                    ctor_fields = {i2["member"] for i2 in (g[0].d.get("inits", []) or []) if "member" in i2}
                    for x in g[0].nodes():
                        l2 = x["a"][0] if (x.get("k") == "OpCall" and x.get("op") == "=" and x.get("a")) else x.get("lhs") if x.get("k") == "Assign" else None
                        fl = field_of(l2, lambda b: b is not None and b.get("k") == "This") if l2 is not None else None
                        if fl:
                            ctor_fields.add(fl)
                is_dest = lambda b, d=dest_d: b is not None and b.get("k") == "Ref" and b.get("d") == d and d is not None
                is_src = lambda x: x.get("k") == "This"
            else:
                pd = f.params[0]["d"]
                dest_d = "this"
                is_dest = lambda b: b is not None and b.get("k") == "This"
                is_src = lambda x, pd=pd: x.get("k") == "Ref" and x.get("d") == pd
            transferred, established, opaque, delegate = set(), set(ctor_fields), [], None
            for ini in f.d.get("inits", []) or []:
                nm = ini["member"] if "member" in ini else "<base class part>"
                if ini.get("init") is not None:
                    established.add(nm)
                    if mentions(ini.get("init"), is_src):
                        transferred.add(nm)
            for n in f.nodes():
                k = n.get("k")
                lhs = rhs = None
                if k == "MCall" and n.get("ccls") and n.get("ccls") != cls and (n.get("obj") is None or is_dest(n.get("obj"))) and not n.get("cconst") \
                        and n.get("n") in ("operator=", "clone") and any(mentions(a, is_src) for a in n.get("a", [])):
                    established.add("<base class part>")
                    transferred.add("<base class part>")
                    continue
                if k == "OpCall" and n.get("op") == "=" and len(n.get("a", [])) == 2:
                    lhs, rhs = n["a"]
                elif k == "Assign":
                    lhs, rhs = n["lhs"], n["rhs"]
                if lhs is not None:
                    fld = field_of(lhs, is_dest)
                    if fld:
                        established.add(fld)
                        if mentions(rhs, is_src):
                            transferred.add(fld)
                    continue
                if k == "MCall" and n.get("obj") is not None:
                    fld = field_of(n["obj"], is_dest)
                    if fld and not n.get("cconst"):
                        established.add(fld)
                        if any(mentions(a, is_src) for a in n.get("a", [])):
                            transferred.add(fld)
                    elif fld is None and is_dest(n["obj"]) and not n.get("cconst"):
                        # whole-object call on the destination: a sibling operation (delegation) or something opaque
                        sib = [kk for kk, g in ops.items() if g.qn == n.get("callee") and len(g.params) == len(n.get("pn", []))]
                        if sib and any(mentions(a, is_src) for a in n.get("a", [])):
                            delegate = sib[0]
                        else:
                            opaque.append("%s (line %s)" % (n.get("callee", "?").rsplit("::", 1)[-1], n.get("l")))
                elif k == "Call":
                    for a, pt in zip(n.get("a", []), n.get("pt", [])):
                        fld = field_of(a, is_dest)
                        ty = f.type(pt) or ""
                        if fld and ty.rstrip().endswith("&") and not ty.lstrip().startswith("const "):
                            established.add(fld)
                            if any(mentions(b, is_src) for b in n.get("a", [])):
                                transferred.add(fld)
            info[kind] = {"t": transferred, "e": established, "opaque": opaque, "delegate": delegate, "fn": f}
        info = {k: v for k, v in info.items() if v != "skip"}
        if len(info) < 2:
            continue
        for kind, d in info.items():          # delegation: clone() { X x; x.clone(*this); }
            if d and d["delegate"] and info.get(d["delegate"]):
                d["t"] |= info[d["delegate"]]["t"]
                d["e"] |= info[d["delegate"]]["e"]
        union = set()
        for d in info.values():
            if d:
                union |= d["t"]
        for kind, d in sorted(info.items()):
            key = "%s::%s" % (short(cls), kind)
            if d is None:
                ck.incomplete(R, "%s: destination object not identified" % key)
                continue
            missing = sorted(union - d["e"])
            others = sorted(k2 for k2, d2 in info.items() if d2 and k2 != kind and set(missing) & d2["t"])
            if missing and d["opaque"]:
                ck.incomplete(R, "%s: members %s are not transferred directly and the operation calls %s on the destination" % (key, missing, d["opaque"][:2]))
                continue
            ck.ob(R, key, not missing, ("data member(s) %s transferred by %s are neither transferred nor re-established here: the destination keeps its old value" % (missing, others))
                  if missing else "transfers %s" % sorted(d["t"]), d["fn"].file, d["fn"].line)


def check_topology_coverage(ck, facts):
    """every index set <m,f> of the holder is defined on every path of the topology builders (see the rule text)"""
    R = "E10.topology-coverage"
    anchors = []
    for f in facts.functions:
        if f.tk == "pattern" or f.body is None:
            continue
        if re.match(r"^FEAT::Geometry::RedundantIndexSetBuilder<.*>::compute$", f.qn) and len(f.params) == 1:
            anchors.append((f, "param", 1))
        elif re.match(r"^FEAT::Geometry::MeshPart<.*>::deduct_topology$", f.qn) and len(f.params) == 1:
            anchors.append((f, "member", 0))
    if not any(a[1] == "param" for a in anchors) or not any(a[1] == "member" for a in anchors):
        ck.incomplete(R, "anchor functions RedundantIndexSetBuilder::compute / MeshPart::deduct_topology not found")
    holder_done = set()
    for f, how, fmin in sorted(anchors, key=lambda a: a[0].full):
        dim = norm_c10.shape_dim(f.cls)
        if dim is None:
            ck.incomplete(R, "%s: shape dimension not recognised" % short(f.cls))
            continue
        de = norm_c10.DefEvents(facts)
        if how == "param":
            de.analyse(f, {f.params[0]["d"]: ("H",)})
        else:
            # the part's own holder: the unique_ptr member whose pointee type is the IndexSetHolder of the part
            members = sorted({x["n"] for x in f.nodes() if x.get("k") == "Member" and x.get("b", {}).get("k") == "This" and "IndexSetHolder" in (f.ntype(x) or "")})
            if len(members) != 1:
                ck.incomplete(R, "%s::%s: the index set holder member is not identifiable (%s)" % (short(f.cls), f.name, members))
                continue
            de.analyse(f, {}, members=tuple(members))
            hkey = "%s::%s/%s" % (re.sub(r"<.*$", "", short(f.cls)), f.name, members[0])
            if hkey not in holder_done:
                holder_done.add(hkey)
                bad = norm_c10.null_path_derefs(f, members[0])
                ck.ob("E10.holder-established", hkey, not bad, ("line %s: `%s` dereferences %s on the path where the test at line %s found it null and nothing has created it since "
                      "(a mesh part without a topology: null pointer dereference)" % (bad[0][0], bad[0][1], members[0], bad[0][2])) if bad
                      else "%s is created or known to be non-null on every path to its dereferences" % members[0], f.file, bad[0][0] if bad else f.line)
        for m in range(1, dim + 1):
            for fd in range(fmin, m):
                key = "%s::%s/<%d,%d>" % (short(f.cls)[:110], f.name, m, fd)
                evs = [e for e in de.events if (e.m, e.f) == (m, fd)]

                def bad_guards(e):
                    return [g for g in e.guards if g[0] == "unknown" or not (g[0] == "count" and g[2] == "nonzero" and g[1] <= m)]
                good = [e for e in evs if not bad_guards(e)]
                if good:
                    e = good[0]
                    ck.ob(R, key, True, "defined in %s (line %s)%s" % (short(e.fn.cls) + "::" + e.fn.name, e.line,
                          (", skipped only without entities of dimension %s" % sorted({g[1] for g in e.guards})) if e.guards else ", unconditionally"), f.file, f.line)
                    continue
                unknown = [(e, g) for e in evs for g in bad_guards(e) if g[0] == "unknown"]
                definite = [(e, g) for e in evs for g in bad_guards(e) if g[0] == "count"]
                if evs and unknown and not [e for e in evs if all(g[0] != "unknown" for g in bad_guards(e))]:
                    e, g = unknown[0]
                    ck.incomplete(R, "%s: the store at %s:%s is reached under the entity-count condition `%s` (%s:%s), which this rule does not understand" % (
                        key, rel(e.fn.file), e.line, g[1], rel(g[2].file), g[3]))
                    continue
                if evs:
                    definite.sort(key=lambda eg: (any(x[0] == "count" and x[2] == "zero" for x in eg[0].guards), eg[1][2] != "nonzero"))
                    e, g = (definite or [(evs[0], None)])[0]
                    if g is None:
                        ck.incomplete(R, "%s: guards of the store at %s:%s not understood" % (key, rel(e.fn.file), e.line))
                        continue
                    if g[2] == "nonzero":
                        why = ("the index set <%d,%d> is only computed if the holder has entities of dimension %d > %d (condition `%s` at %s:%s): the holder of a mesh part without "
                               "%d-dimensional entities (e.g. a surface part of a volume mesh) keeps this set unset although it has %d-dimensional entities" % (
                                   m, fd, g[1], m, g[3], rel(g[4].file), g[5], g[1], m))
                    else:
                        why = "the index set <%d,%d> is only computed if the holder has NO entities of dimension %d (condition `%s` at %s:%s)" % (m, fd, g[1], g[3], rel(g[4].file), g[5])
                    ck.ob(R, key, False, why + "; entry %s, store in %s line %s" % (f.name, short(e.fn.cls) + "::" + e.fn.name, e.line), g[4].file, g[5])
                    continue
                if de.escapes:
                    t, efn, el = de.escapes[0]
                    ck.incomplete(R, "%s: no store found, but %s (%s:%s)" % (key, t, rel(efn.file), el))
                    continue
                covered = sorted({(e.m, e.f) for e in de.events})
                ck.ob(R, key, False, "no path from %s::%s stores into the index set <%d,%d> of the holder (sets defined: %s): the template recursions entered by this function do not cover "
                      "cell dimension %d / face dimension %d, e.g. a recursion entered below the shape dimension %d" % (short(f.cls), f.name, m, fd,
                                                                                                                   ", ".join("<%d,%d>" % c for c in covered) or "none", m, fd, dim), f.file, f.line)



def check_permute_coverage(ck, facts):
    """MeshPart::permute(mesh_perm): the target set of every dimension is mapped through the inverse permutation of that dimension"""
    R = "E10.permute-coverage"
    anchors = [f for f in facts.functions if f.tk != "pattern" and f.body is not None and re.match(r"^FEAT::Geometry::MeshPart<.*>::permute$", f.qn)
               and len(f.params) == 1 and "MeshPermutation<" in (f.type(f.params[0]["t"]) or "")]
    if not anchors:
        ck.incomplete(R, "anchor MeshPart::permute(const MeshPermutation&) not found")
    for f in sorted(anchors, key=lambda f: f.full):
        dim = norm_c10.shape_dim(f.cls)
        if dim is None:
            ck.incomplete(R, "%s: shape dimension not recognised" % short(f.cls))
            continue
        pe = norm_c10.PermEvents(facts)
        pe.analyse(f, {f.params[0]["d"]: ("P",)})
        for d in range(dim + 1):
            key = "%s::%s/dim%d" % (short(f.cls)[:110], f.name, d)
            evs = [e for e in pe.events if e.m == d]

            def bad_guards(e):
                return [g for g in e.guards if g[0] == "unknown" or not (g[0] == "count" and g[2] == "nonzero" and g[1] in (d, -1))]
            good = [e for e in evs if e.f == 0 and not bad_guards(e)]
            if good:
                e = good[0]
                ck.ob(R, key, True, "target set <%d> is mapped through the inverse permutation of dimension %d in %s (line %s)%s" % (
                    d, d, short(e.fn.cls) + "::" + e.fn.name, e.line, ", skipped only where that permutation / the whole mesh permutation is empty" if e.guards else ""), f.file, f.line)
                continue
            wrong_dim = [e for e in evs if e.f >= 2]
            if wrong_dim and not [e for e in evs if e.f == 0]:
                e = wrong_dim[0]
                ck.ob(R, key, False, "target set <%d> is mapped through the permutation of dimension %d (%s line %s): the indices of %d-dimensional parent entities are renumbered with the "
                      "numbering of another dimension" % (d, e.f - 2, short(e.fn.cls) + "::" + e.fn.name, e.line, d), e.fn.file, e.line)
                continue
            wrong_kind = [e for e in evs if e.f == 1]
            if wrong_kind and not [e for e in evs if e.f == 0]:
                e = wrong_kind[0]
                ck.ob(R, key, False, "target set <%d> is mapped through the FORWARD permutation of dimension %d (%s line %s); the targets are parent indices and need the inverse" % (
                    d, d, short(e.fn.cls) + "::" + e.fn.name, e.line), e.fn.file, e.line)
                continue
            cand = [e for e in evs if e.f == 0]
            unknown = [(e, g) for e in cand for g in bad_guards(e) if g[0] == "unknown"]
            definite = [(e, g) for e in cand for g in bad_guards(e) if g[0] == "count"]
            if cand and unknown and not definite:
                e, g = unknown[0]
                ck.incomplete(R, "%s: permute_map at %s:%s is reached under the condition `%s` on the mesh permutation, which this rule does not understand" % (key, rel(e.fn.file), e.line, g[1]))
                continue
            if definite:
                e, g = definite[0]
                what = "the whole mesh permutation" if g[1] == -1 else "the permutation of dimension %d%s" % (g[1], " (the elements; get_perm() defaults to shape_dim)" if g[1] == dim else "")
                if g[2] == "nonzero":
                    why = ("the target set <%d> is only renumbered if %s is not empty (condition `%s` at %s:%s): a mesh permutation that renumbers the %d-dimensional entities but leaves "
                           "dimension %d alone (each dimension may be empty on its own) leaves the part's %d-dimensional targets stale" % (d, what, g[3], rel(g[4].file), g[5], d, g[1], d))
                else:
                    why = "the target set <%d> is only renumbered if %s IS empty (condition `%s` at %s:%s)" % (d, what, g[3], rel(g[4].file), g[5])
                ck.ob(R, key, False, why, g[4].file, g[5])
                continue
            if pe.escapes:
                t, efn, el = pe.escapes[0]
                ck.incomplete(R, "%s: no permute_map of dimension %d found, but %s (%s:%s)" % (key, d, t, rel(efn.file), el))
                continue
            ck.ob(R, key, False, "no path from %s::%s applies the inverse permutation of dimension %d to the target set <%d> (dimensions served: %s)" % (
                short(f.cls), f.name, d, d, sorted({e.m for e in pe.events})), f.file, f.line)



def check_boundary_select(ck, facts):
    """BoundaryFaceComputer<Shape,n,n>::compute_all / compute_masks: which facets are selected as boundary facets"""
    R = "E10.boundary-facet-select"
    fns = [f for f in facts.functions if f.tk != "pattern" and f.body is not None and re.match(r"^FEAT::Geometry::Intern::BoundaryFaceComputer<.*>::compute_(all|masks)$", f.qn)]
    if not fns:
        ck.incomplete(R, "BoundaryFaceComputer::compute_all / compute_masks not instantiated")
    for f in sorted(fns, key=lambda f: f.full):
        key = "%s::%s" % (short(f.cls), f.name)
        try:
            sel, val, info = norm_c10.facet_selection(f, facts)
        except norm_c10.NotPointwise as e:
            ck.incomplete(R, "%s: %s" % (key, e))
            continue
        masked = any(m for (_, m) in sel)
        bad = []
        if info.get("count_problem"):
            bad.append("the counters do not hold the number of adjacent cells: %s - not every (cell, local facet) incidence is counted" % info["count_problem"])
        for (c, m), s_ in sorted(sel.items()):
            want = (c == 1 and m == 0)
            if s_ != want:
                bad.append("a %s facet with %d adjacent cell%s (%s) is %s the boundary: its counter is %s when the facets are selected (line %s)%s" % (
                    "masked" if m else ("unmasked" if masked else "mesh"), c, "" if c == 1 else "s", "boundary facet" if c == 1 else "interior facet",
                    "put into" if s_ else "missing from", val[(c, m)], info["select_lines"], ", after the masking step at line %s" % info["post_lines"] if info["post_lines"] and m else ""))
        ck.ob(R, key, not bad, "; ".join(bad) if bad else "selected <=> exactly one adjacent cell%s (counter values %s)" % (
            " and not masked" if masked else "", {("%d cells%s" % (c, ", masked" if m else "")): v for (c, m), v in sorted(val.items())}), f.file, (info["post_lines"] or info["select_lines"] or [f.line])[0] if bad else f.line)



def check_target_wrapper_choice(ck, facts):
    """TargetSetRefineParentWrapper<Parent>::fill_target_sets: which target refiner is used for a part with / without topology"""
    R = "E10.target-wrapper-choice"
    fns = [f for f in facts.functions if f.tk != "pattern" and f.body is not None and f.name == "fill_target_sets" and "TargetSetRefineParentWrapper" in f.cls]
    if not fns:
        ck.incomplete(R, "TargetSetRefineParentWrapper::fill_target_sets not instantiated")
    for f in sorted(fns, key=lambda f: f.full):
        ptype = short(f.param_type("parent") or "?").replace("const ", "").replace(" &", "")
        key = "%s/parent=%s" % (short(f.cls), ptype)
        ptrs = [p_ for p_ in f.params if "IndexSetHolder" in (f.type(p_["t"]) or "") and (f.type(p_["t"]) or "").rstrip().endswith("*")]
        if len(ptrs) != 1:
            ck.incomplete(R, "%s: the pointer to the coarse part's topology is not identifiable among the parameters" % key)
            continue
        np_ = norm_c10.NullPaths(f, ptrs[0]["d"], r"Intern::(Simple)?TargetRefineWrapper<.*>::refine$").analyse()
        if np_.unknown:
            ck.incomplete(R, "%s: `%s` uses %s in a way this rule does not understand" % (key, featlib.render(np_.unknown[0])[:90], ptrs[0]["n"]))
            continue
        simple = [(c, o) for c, o in np_.calls if "SimpleTargetRefineWrapper" in c["callee"]]
        aware = [(c, o) for c, o in np_.calls if "SimpleTargetRefineWrapper" not in c["callee"]]
        prob = []
        for c, o in simple:
            if "T" in o:
                prob.append("SimpleTargetRefineWrapper::refine (line %s), which ignores the part's topology, is reached on a path on which %s is NOT known to be null: a part that carries "
                            "its own topology gets targets refined without regard to its orientation (a case that cannot be served - e.g. the parent has no topology - must be refused, "
                            "not routed to the simple refiner)" % (c.get("l"), ptrs[0]["n"]))
        for c, o in aware:
            if "F" in o:
                prob.append("TargetRefineWrapper::refine (line %s) is reached on a path on which %s may be null" % (c.get("l"), ptrs[0]["n"]))
        if not aware:
            prob.append("the orientation-aware TargetRefineWrapper::refine is never called")
        # sizing pass and filling pass agree: the refined target sets are sized from the refinement formulas for every dimension,
        # so every path that returns normally passes one of the refiners; a return without refinement is admissible only under a
        # condition that establishes that the part has no entities of ANY dimension
        is_refine = lambda x: featlib.is_call(x) and re.search(r"Intern::(Simple)?TargetRefineWrapper<.*>::refine$", x.get("callee", "")) is not None
        cfg = f.cfg
        inc = None
        if cfg is None:
            inc = "no control flow graph"
        else:
            okp, _ = cfg.must_pass(is_refine)
            if not okp:
                dim = norm_c10.shape_dim(f.cls)
                skips = []

                def find_skips(st):
                    if st is None:
                        return
                    if st.get("k") == "Block":
                        for x in st.get("s", []):
                            if any(is_refine(y) for y in featlib.walk(x)) and x.get("k") != "If":
                                return
                            find_skips(x)
                        return
                    if st.get("k") == "If":
                        for br, pol in (("then", True), ("else", False)):
                            b_ = st.get(br)
                            if b_ is not None and norm_c10.DefEvents._exits(b_) and not any(is_refine(y) for y in featlib.walk(b_)):
                                skips.append((st, pol))
                            elif b_ is not None:
                                find_skips(b_)
                find_skips(f.body)
                if not skips:
                    inc = "a path returns without calling a target refiner, but the early return was not located"
                for st, pol in skips:
                    # dimensions whose count is established to be zero when the skipping branch is taken
                    zero = set()
                    tw_inits = local_inits(f)
                    depth_ = [0]

                    def conj(c, pol_):
                        c = norm_c10.strip_casts(c)
                        if c is None:
                            return True
                        if c.get("k") == "Ref" and c.get("dk") == "local" and c.get("d") in tw_inits and depth_[0] < 6:
                            depth_[0] += 1
                            return conj(tw_inits[c["d"]], pol_)          # a named bool holding the test
                        if c.get("k") == "Un" and c.get("op") == "!":
                            return conj(c["e"], not pol_)
                        if c.get("k") == "Bin" and c.get("op") in ("&&", "||"):
                            if (c["op"] == "&&") == pol_:
                                a_, b2 = conj(c["lhs"], pol_), conj(c["rhs"], pol_)
                                return a_ and b2
                            return False
                        if c.get("k") == "Bin" and c.get("op") in ("==", "!=", "<", ">", "<=", ">="):
                            for a_, b2, op in ((c["lhs"], c["rhs"], c["op"]), (c["rhs"], c["lhs"], {"<": ">", ">": "<", "<=": ">=", ">=": "<="}.get(c["op"], c["op"]))):
                                a_ = norm_c10.strip_casts(a_)
                                v = norm_c10._cint(b2)
                                if a_ is not None and a_.get("k") == "MCall" and a_.get("n") == "get_num_entities" and v is not None:
                                    d_ = norm_c10._cint(a_["a"][0]) if a_.get("a") else None
                                    if d_ is None:
                                        ta = norm_c10.trailing_targs((norm_c10.strip_casts(a_.get("obj")) or {}).get("cfull"))
                                        d_ = ta[0] if ta else None
                                    truth = {"==": lambda x: x == v, "!=": lambda x: x != v, "<": lambda x: x < v, ">": lambda x: x > v, "<=": lambda x: x <= v, ">=": lambda x: x >= v}[op]
                                    holds0, holdspos = truth(0), {truth(x) for x in (1, 2, 1000)}
                                    if d_ is not None and len(holdspos) == 1 and holds0 != list(holdspos)[0] and (holds0 == pol_):
                                        zero.add(d_)
                                        return True
                                    return False
                        return False
                    understood = conj(st["c"], pol)
                    counts = bool(zero) or any(x.get("k") == "MCall" and x.get("n") == "get_num_entities" for x in featlib.walk(st["c"]))
                    if dim is not None and zero >= set(range(dim + 1)) and understood:
                        continue
                    if counts and zero and dim is not None:
                        missing = sorted(set(range(dim + 1)) - zero)
                        prob.append("the early return at line %s skips the refinement of ALL target sets under the condition `%s`, which only establishes that the part has no entities of "
                                    "dimension %s: the refined target sets of dimension %s are still sized from the refinement formulas (StandardRefinery<MeshPart> constructor) and stay "
                                    "unfilled (all zero) for a part without %s-dimensional entities, e.g. a cells-only or facets-only part" % (
                                        st.get("l"), featlib.render(st["c"])[:90], sorted(zero), missing, sorted(zero)))
                    else:
                        inc = "the return at line %s skips the target refiners under the condition `%s`, which this rule does not understand" % (st.get("l"), featlib.render(st["c"])[:90])
        if inc and not prob:
            ck.incomplete(R, "%s: %s" % (key, inc))
            continue
        ck.ob(R, key, not prob, "; ".join(prob[:2]) or "simple refiner only where %s == nullptr, orientation-aware refiner only where it is non-null" % ptrs[0]["n"], f.file, (simple or aware or [({"l": f.line}, 0)])[0][0].get("l"))



def is_container_type(ty):
    return bool(re.match(r"^(const )?std::(map|vector|deque|list|set|unordered_map|multimap)<", (ty or "").strip()))


def check_collection_guards(ck, facts):
    """mesh_node.hpp: a loop over one member collection (mesh parts / halos / patches ...) is not guarded by a
    property of a different member collection (early-out or enclosing condition).  Helpers are followed: a call (on the same
    node) of a helper of mesh_node.hpp that loops over a member collection - its own member, or the member handed over as the
    argument its loop runs over - is a loop over that collection at the call site."""
    R = "E10.collection-guards"
    fns = [f for f in facts.functions if f.tk != "pattern" and f.body is not None and f.file.endswith("/kernel/geometry/mesh_node.hpp")]
    by_decl = {(f.qn, f.d.get("decl")): f for f in fns}
    by_id = {f.d.get("decl"): f for f in fns if f.d.get("decl") is not None}

    def is_closure_call(c):
        return c.get("k") == "OpCall" and c.get("op") == "()" and c.get("ccls") == "<lambda>"

    def target(c):
        t = by_decl.get((c.get("callee"), c.get("cdecl")))
        if t is None and is_closure_call(c):
            t = by_id.get(c.get("cdecl"))        # a local closure: the (specialised) call operator the call resolved to
        return t

    def call_args(c):
        """arguments in the order of the callee's parameters (the first operand of a closure call is the closure object)"""
        return c.get("a", [])[1:] if is_closure_call(c) else c.get("a", [])

    def strip(o):
        while o is not None and o.get("k") == "Cast":
            o = o["e"]
        return o

    # member collections of the nodes: members used like containers somewhere in mesh_node.hpp (begin/end/empty/size/find/range-for)
    names = set()
    for f in fns:
        for x in f.nodes():
            o = None
            if x.get("k") == "MCall" and x.get("n") in ("begin", "end", "cbegin", "cend", "empty", "size", "find", "count") and x.get("obj") is not None:
                o = strip(x["obj"])
            if x.get("k") == "ForRange" and x.get("range") is not None:
                o = strip(x["range"])
            if o is not None and o.get("k") == "Member" and o.get("b", {}).get("k") == "This":
                names.add(o["n"])

    def colls_in(n):
        return {x["n"] for x in featlib.walk(n) if x.get("k") == "Member" and x.get("b", {}).get("k") == "This" and x["n"] in names}

    inits_of = {}

    def coll_of(n, fn=None):
        """member collection an iteration-domain expression belongs to (iterator locals declared before the loop are
        resolved to the collection they were obtained from)"""
        cs = set(colls_in(n))
        if fn is not None:
            inits = inits_of.setdefault(id(fn), local_inits(fn))
            todo, seen_d = [n], set()
            while todo:
                for x in featlib.walk(todo.pop()):
                    if x.get("k") == "Ref" and x.get("dk") == "local" and x.get("d") in inits and x["d"] not in seen_d and len(seen_d) < 8:
                        seen_d.add(x["d"])
                        cs |= colls_in(inits[x["d"]])
                        todo.append(inits[x["d"]])
        cs = sorted(cs)
        return cs[0] if len(cs) == 1 else None

    def loop_domain(n):
        k = n.get("k")
        return n.get("range") if k == "ForRange" else (n.get("init") if n.get("init") is not None else n.get("c"))

    def on_this(c):
        """the call runs on the node itself (member call on this) or is a static helper without an object"""
        if c.get("k") == "MCall":
            o = strip(c.get("obj"))
            return o is None or o.get("k") == "This"
        if is_closure_call(c):
            return True           # a closure defined in a member function runs on the node it captured
        return c.get("k") == "Call" and bool(c.get("cstatic"))

    summaries = {}

    def summary(t, depth=0):
        """-> (member collections t loops over, incl. through helpers it calls on itself; indices of the parameters its loops run over)"""
        if id(t) in summaries:
            return summaries[id(t)]
        summaries[id(t)] = (set(), set())        # recursion guard
        own, params = set(), set()
        pdecl = {p["d"]: i for i, p in enumerate(t.params)}
        for n in t.nodes():
            if n.get("k") in ("For", "ForRange", "While"):
                dom = loop_domain(n)
                if dom is None:
                    continue
                c = coll_of(dom, t)
                if c is not None:
                    own.add(c)
                for x in featlib.walk(dom):
                    if x.get("k") == "Ref" and x.get("d") in pdecl:
                        params.add(pdecl[x["d"]])
            if featlib.is_call(n) and depth < 3:
                u = target(n)
                if u is not None and u is not t and on_this(n):
                    uo, up = summary(u, depth + 1)
                    own |= uo
                    for i in up:
                        if i < len(call_args(n)):
                            a = strip(call_args(n)[i])
                            if a is not None and a.get("k") == "Member" and a.get("b", {}).get("k") == "This" and a["n"] in names:
                                own.add(a["n"])
        summaries[id(t)] = (own, params)
        return summaries[id(t)]

    for f in fns:
        loops = []

        def exits(st):
            """statement unconditionally leaves the enclosing region"""
            if st is None:
                return False
            if st.get("k") in ("Return", "Break", "Continue", "Throw"):
                return True
            if st.get("k") == "Block":
                return any(exits(x) for x in st.get("s", []))
            return False

        def helper_calls(n, guards):
            """calls (on this node) of helpers that loop over member collections, inside one expression/simple statement"""
            for c in featlib.walk(n, prune=lambda y: y.get("k") in ("Lambda", "Block", "If", "For", "ForRange", "While", "Do", "Switch")):
                if not featlib.is_call(c):
                    continue
                t = target(c)
                if t is None or t is f or not on_this(c):
                    continue
                own, params = summary(t)
                cs = set(own)
                for i in params:
                    if i < len(call_args(c)):
                        a = strip(call_args(c)[i])
                        if a is not None and a.get("k") == "Member" and a.get("b", {}).get("k") == "This" and a["n"] in names:
                            cs.add(a["n"])
                for col in sorted(cs):
                    loops.append((col, c, list(guards), t.name))

        def visit(n, guards):
            k = n.get("k")
            if k == "Block":
                g = list(guards)
                for st in n.get("s", []):
                    visit(st, g)
                    if st.get("k") == "If" and (exits(st.get("then")) or exits(st.get("else"))):
                        g = g + [st["c"]]          # early-out: everything after it is guarded by its condition
                return
            if k == "If":
                helper_calls(n["c"], guards)
                for br in ("then", "else"):
                    if n.get(br) is not None:
                        visit(n[br], guards + [n["c"]])
                return
            if k in ("For", "ForRange", "While"):
                dom = loop_domain(n)
                c = coll_of(dom, f) if dom is not None else None
                if c is not None:
                    loops.append((c, n, list(guards), None))
                if n.get("body") is not None:
                    visit(n["body"], guards)
                return
            if k in ("Do", "Switch", "Case", "Default", "Try"):
                for c in featlib.children(n):
                    if c.get("k") in ("Block", "If", "For", "ForRange", "While", "Do", "Switch", "Case", "Default", "Try"):
                        visit(c, guards)
                    else:
                        helper_calls(c, guards)
                return
            helper_calls(n, guards)
        visit(f.body, [])
        seen = {}
        for c, n, guards, via in loops:
            seen[c] = seen.get(c, 0) + 1
            key = "%s::%s/loop(%s)%s" % (short(f.cls)[:110], f.name, c, "#%d" % seen[c] if seen[c] > 1 else "")
            foreign = sorted(set().union(*[colls_in(g) for g in guards]) - {c}) if guards else []
            what = "the loop over %s" % c if via is None else "the loop over %s in the helper %s called here" % (c, via)
            ck.ob(R, key, not foreign, ("%s is only reached under a condition on %s: it is skipped although %s has elements to process" % (what, foreign, c)) if foreign
                  else "%s: reached under %d conditions, none on another collection" % (what, len(guards)), f.file, n.get("l"))


class Prefixed:
    """Check proxy that prefixes instance keys (second configuration of the same analysis)"""

    def __init__(self, ck, prefix):
        self._ck, self._prefix = ck, prefix

    def ob(self, rule, key, ok, detail="", file=None, line=None, sample=None, trivial=False):
        return self._ck.ob(rule, self._prefix + key, ok, detail, file, line, sample, trivial)

    def incomplete(self, rule, what):
        return self._ck.incomplete(rule, self._prefix + what)

    def note(self, s):
        return self._ck.note(self._prefix + s)


def analyse(ck, facts, second_pass=False):
    """all rules on one fact base; -> list of covered templates"""
    for e in facts.diags:
        ck.incomplete("E0", "front-end error in the driver: %s:%s %s" % (rel(e["file"]), e["line"], e["msg"]))
    T = Tables(facts)
    harvest_constants(T, facts)
    missing = [(sh, d) for sh in [("V", 0)] + SHAPES for d in range(sh[1] + 1) if (sh, d) not in T.ft or (sh, d) not in T.rc]
    if missing:
        ck.incomplete("E10.traits-euler", "counts not found: %s" % missing)
        return T, []
    extract_tables(T, ck, facts)
    need_fim = [(("H", 2), 1, 0), (("H", 3), 1, 0), (("H", 3), 2, 0), (("H", 3), 2, 1), (("S", 2), 1, 0), (("S", 3), 1, 0), (("S", 3), 2, 0), (("S", 3), 2, 1)]
    if any(k not in T.fim for k in need_fim):
        ck.incomplete("E10.face-tables", "FaceIndexMapping tables missing: %s" % [k for k in need_fim if k not in T.fim])
        return T, []
    compute_symmetries(T)
    check_counts(T, ck, facts)
    check_face_tables(T, ck)
    check_orientation_tables(T, ck, facts)

    # ---- index refiner templates ------------------------------------------------------------------
    for f in facts.find(qn_re=r"^FEAT::Geometry::Intern::StandardIndexRefiner<.*>::refine$"):
        if f.tk == "pattern":
            continue
        try:
            tm = extract_index_template(facts, f)
        except Unsupported as e:
            ck.incomplete("E10.template-form", "%s: %s" % (f.cls, e))
            continue
        try:
            tm.usable = analyse_template(T, ck, tm)
        except Unsupported as e:
            ck.incomplete("E10.template-form", "%s: %s" % (f.cls, e))
            tm.usable = False
        T.tmpl[(tm.shape, tm.cd, tm.fd)] = tm
    ncomb = 0
    for sh in SHAPES:
        ncomb += check_reference_cell(T, ck, sh)
    ck.note("orientation combinations evaluated on the reference cells: %d" % ncomb)
    vbases = run_vertex_wrappers(T, ck, facts)
    numbering = {}
    for sh in SHAPES:
        nb = run_index_wrapper(T, ck, facts, sh, vbases.get(sh))
        if nb is not None:
            numbering[sh] = nb
    check_targets(T, ck, facts, numbering)
    check_simple_targets(T, ck, facts, numbering)
    check_child_geometry(T, ck, facts)
    check_dual_adaptor(T, ck, facts, vbases)
    if not second_pass:
        check_refine_parent(ck, facts)
        check_perm_pairs(ck, facts)
        check_transfer_siblings(ck, facts)
        check_collection_guards(ck, facts)
        check_topology_coverage(ck, facts)
        check_permute_coverage(ck, facts)
        check_boundary_select(ck, facts)
        check_target_wrapper_choice(ck, facts)
        check_callsites(ck, facts)
        check_flips(T, ck, facts)
    # assertions met while evaluating the glue classes on concrete local indices (visible in DEBUG parses)
    seen = set()
    for cls, m in sorted(T.models.items()):
        if isinstance(m, Exception):
            continue
        for node, val, fn in getattr(m, "asserts", []):
            txt = node["a"][1].get("v") if len(node.get("a", [])) > 1 else "?"
            key = "%s/%s" % (short(fn.cls), txt)
            if isinstance(val, bool) and (key, val) not in seen:
                seen.add((key, val))
                ck.ob("E10.assert-true", "tables/" + key, val, "ASSERT(%s) evaluates to %s for a valid local index" % (txt, val), fn.file, node.get("l"))
    return T, sorted(tname(*k) for k, t in T.tmpl.items() if t.usable)


def body_digest(n):
    """structure of a statement tree without node/type/decl ids and line numbers"""
    if isinstance(n, dict):
        return {k: body_digest(v) for k, v in n.items() if k not in ("i", "t", "d", "l", "cdecl", "pt", "decl")}
    if isinstance(n, list):
        return [body_digest(x) for x in n]
    return n


ANCHOR_RE = (r"^FEAT::Geometry::Intern::(StandardIndexRefiner|StandardTargetRefiner|StandardVertexRefiner|SimpleTargetRefiner|FaceIndexMapping|CongruencyMapping|CongruencySampler|"
             r"SubIndexMapping|TargetIndexMapping|EntityCounter|EntityCountWrapper|IndexRefine\w+|TargetRefine\w+|SimpleTargetRefine\w+|StandardVertexRefineWrapper)<")


def run(tier):
    ck = Check("C10", tier)
    declare_rules(ck)
    facts = featlib.extract("tu/c10_refine.cpp", files=FILES)
    ck.tu(facts)
    T, covered = analyse(ck, facts)
    ck.assume("input meshes are conforming: every local d-face of a coarse cell is a coarse d-entity with the same vertex set, whose own vertex numbering is the "
              "cell's view of it permuted by a symmetry of the face shape (all symmetries are enumerated)")
    ck.assume("callers of StandardRefinery hand over the mesh/part/parent they mean (E10.callsite-roles covers the call sites inside StandardRefinery and "
              "TargetSetRefineParentWrapper<ConformalMesh>; the StructuredMesh parent variants are not instantiated)")
    ck.assume("cell-locality: a template reads only index-set rows of the coarse entity it refines, of its faces and of its edges (verified by E10.slot-origin), so the "
              "reference-cell case analysis covers every conforming mesh")
    ck.assume("E10.child-orientation/-volume use affine cells: vertex coordinates of new vertices are the means decided by E10.vertex-mean")
    ck.assume("E10.topology-coverage: an index set holder is closed under faces (an m-entity's d-faces, d <= m, are entities of the same holder), so the absence of d-entities implies the "
              "absence of m-entities for m >= d; conditions that do not query an entity count (data-dependent failure exits) are not coverage conditions")
    extra = {"templates_covered": covered,
             "not_covered": ["StandardTargetRefiner<Hypercube<3>|Simplex<3>, cell_dim>=0>: mesh parts with 3D cells (the repository aborts with XASSERT num_cells == 0)",
                             "adaptation to charts, BoundaryFactory beyond the facet selection of E10.boundary-facet-select (lower-dimensional faces of the boundary, halo exchange of the global variant), FacetNeighbors, the values IndexCalculator/IndexSetFiller compute (E10.topology-coverage decides only which index sets are computed on which paths), structured meshes",
                             "TargetSetRefineParentWrapper<StructuredMesh> (structured parents), StandardAttribRefiner (mesh part attributes), CongruencySampler::orientation / CongruencyMapping::flip"]}
    if tier == "thorough":
        import json
        # (a) the same analysis on the DEBUG configuration (ASSERTs of the table functions become visible)
        dfacts = featlib.extract("tu/c10_refine.cpp", files=FILES, debug=True)
        ck.tu(dfacts)
        analyse(Prefixed(ck, "DEBUG/"), dfacts, second_pass=True)
        # (b) the instantiations compiled by the repository's own tests are the functions analysed above
        mine = {f.full: f for f in facts.functions if f.tk != "pattern"}
        for tu in ["standard_refinery-test-conf-quad.cpp", "standard_refinery-test-conf-hexa.cpp", "standard_refinery-test-conf-tria.cpp",
                   "standard_refinery-test-conf-tetra.cpp", "mesh_part-test.cpp"]:
            path = featlib.repo_path("kernel/geometry/" + tu)
            try:
                tf = featlib.extract(path, files=GEO + "intern/", names=ANCHOR_RE)
            except featlib.AnalysisBroken as e:
                ck.incomplete("E10.build-same", "%s: %s" % (tu, e))
                continue
            ck.tu(tf)
            same = diff = 0
            for f in tf.functions:
                if f.tk == "pattern" or not re.search(ANCHOR_RE, f.qn):
                    continue
                g = mine.get(f.full)
                if g is None:
                    if re.search(r"Intern::(StandardIndexRefiner|StandardTargetRefiner|SimpleTargetRefiner|CongruencyMapping|FaceIndexMapping)<", f.qn):
                        ck.incomplete("E10.build-same", "%s: %s is compiled by the test but not instantiated by the driver (not analysed)" % (tu, f.full))
                    continue
                ok = json.dumps(body_digest(f.body), sort_keys=True) == json.dumps(body_digest(g.body), sort_keys=True)
                same += ok
                diff += not ok
                if not ok:
                    ck.incomplete("E10.build-same", "%s: resolved body of %s differs from the one analysed in the driver TU" % (tu, f.full))
            ck.ob("E10.build-same", tu, same > 0 and diff == 0, "%d anchored functions compiled by this test are identical to the analysed ones" % same, path, None)
    return ck.finish("E10: symbolic extraction of the refinement templates and tables, complete case analysis on the reference cells of %s for every orientation of their faces/edges" %
                     ", ".join(sname(s) for s in SHAPES), extra=extra)
