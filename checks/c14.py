"""C14 — every named cubature rule is exact up to its nominal degree.

Engine E9: constant propagation through the straight-line `fill`/`create` bodies of all cubature
drivers and factories (facts from the clang front end; no FEAT3 code is executed), followed by exact
/ literal-precision algebraic identities on the extracted weight/point tables.
"""
import re
import sys
from fractions import Fraction
from math import comb, factorial

import mpmath

import featlib
from featlib import Check, rel
from cfold import Folder, Num, Obj, LRef, NotConstant, _Return

mpmath.mp.dps = 70
CUB = featlib.repo_path("kernel/cubature/")


def strip_targs(s):
    out = []
    depth = 0
    for ch in s:
        if ch == "<":
            depth += 1
        elif ch == ">":
            depth -= 1
        elif depth == 0:
            out.append(ch)
    return "".join(out)


class AssertFails(Exception):
    pass


class RuleObj(Obj):
    def __init__(self, scalar, n=None, name="", dim=None):
        super().__init__("scalar_rule" if scalar else "rule")
        self.scalar = scalar
        self.n = n
        self.name = name
        self.dim = dim
        self.w = {"__obj__": self}
        self.x = {"__obj__": self}
        self.bad_index = []

    def copy_from(self, o):
        self.n, self.name = o.n, o.name
        self.w = dict(o.w)
        self.w["__obj__"] = self
        self.x = dict(o.x)
        self.x["__obj__"] = self
        self.writes = list(o.writes)
        self.bad_index = list(o.bad_index)
        if self.dim is None:
            self.dim = o.dim

    def clone(self):
        r = RuleObj(self.scalar, self.n, self.name, self.dim)
        r.copy_from(self)
        return r


class PointRef(Obj):
    def __init__(self, rule, i):
        super().__init__("point")
        self.rule = rule
        self.i = i

    def index(self, j):
        return LRef(self.rule.x, (self.i, j))


def _idx(folder, v):
    return folder.num(v).as_int()


def m_get_weight(folder, call, obj, args):
    i = _idx(folder, args[0])
    if obj.n is not None and not (0 <= i < obj.n):
        obj.bad_index.append(("weight", i, call.get("l")))
    return LRef(obj.w, i)


def m_get_coord(folder, call, obj, args):
    i = _idx(folder, args[0])
    j = 0 if obj.scalar else _idx(folder, args[1])
    if obj.n is not None and not (0 <= i < obj.n):
        obj.bad_index.append(("coord", i, call.get("l")))
    if obj.dim is not None and not (0 <= j < obj.dim):
        obj.bad_index.append(("coord-dim", j, call.get("l")))
    return LRef(obj.x, (i, j))


def m_get_point(folder, call, obj, args):
    i = _idx(folder, args[0])
    if obj.n is not None and not (0 <= i < obj.n):
        obj.bad_index.append(("point", i, call.get("l")))
    return PointRef(obj, i)


def m_num_points(folder, call, obj, args):
    if obj.n is None:
        raise NotConstant("rule without size")
    return Num(Fraction(obj.n))


def m_get_name(folder, call, obj, args):
    return obj.name


def m_clone(folder, call, obj, args):
    return obj.clone()


def make_rule_ctor(scalar):
    def ctor(folder, call, obj, args):
        ty = call.get("ccls", "")
        dim = None
        m = re.search(r"Shape::(Simplex|Hypercube)<(\d)>", ty)
        if m:
            dim = int(m.group(2))
        if scalar:
            dim = 1
        if len(args) == 0:
            return RuleObj(scalar, 0, "", dim)
        if len(args) == 2:
            return RuleObj(scalar, folder.num(args[0]).as_int(), args[1] if isinstance(args[1], str) else "", dim)
        if len(args) == 1 and isinstance(args[0], RuleObj):
            return args[0]
        raise NotConstant("Rule ctor with %d args" % len(args))
    return ctor


def m_rule_assign(folder, call, obj, args):
    dst = folder.rvalue(args[0])
    src = folder.rvalue(args[1])
    if not isinstance(dst, RuleObj) or not isinstance(src, RuleObj):
        raise NotConstant("rule assignment of non-rules")
    dst.copy_from(src)
    return dst


def f_identity(folder, call, obj, args):
    return args[0]


def f_stringify(folder, call, obj, args):
    v = folder.rvalue(args[0])
    if isinstance(v, Num):
        return str(v.as_int())
    return str(v)


def f_str_plus(folder, call, obj, args):
    a, b = folder.rvalue(args[0]), folder.rvalue(args[1])
    if isinstance(a, str) and isinstance(b, str):
        return a + b
    if isinstance(a, Num) or isinstance(b, Num):
        return folder.num(a) + folder.num(b)
    raise NotConstant("operator+ on %r, %r" % (a, b))


def f_assertion(folder, call, obj, args):
    ok = folder.truth(args[0])
    if not ok:
        raise AssertFails("assertion %s fails under constant propagation (line %s)" % (folder.rvalue(args[1]) if len(args) > 1 else "", call.get("l")))
    return None


METHODS = {
    "FEAT::Cubature::Rule::get_weight": m_get_weight,
    "FEAT::Cubature::Rule::get_coord": m_get_coord,
    "FEAT::Cubature::Rule::get_point": m_get_point,
    "FEAT::Cubature::Rule::get_num_points": m_num_points,
    "FEAT::Cubature::Rule::get_name": m_get_name,
    "FEAT::Cubature::Rule::clone": m_clone,
    "FEAT::Cubature::Rule::Rule": make_rule_ctor(False),
    "FEAT::Cubature::Rule::operator=": m_rule_assign,
    "FEAT::Cubature::Scalar::Rule::get_weight": m_get_weight,
    "FEAT::Cubature::Scalar::Rule::get_coord": m_get_coord,
    "FEAT::Cubature::Scalar::Rule::get_num_points": m_num_points,
    "FEAT::Cubature::Scalar::Rule::get_name": m_get_name,
    "FEAT::Cubature::Scalar::Rule::clone": m_clone,
    "FEAT::Cubature::Scalar::Rule::Rule": make_rule_ctor(True),
    "FEAT::Cubature::Scalar::Rule::operator=": m_rule_assign,
    "FEAT::String::String": lambda folder, call, obj, args: (args[0] if args else ""),
    "std::basic_string::basic_string": lambda folder, call, obj, args: (args[0] if args else ""),
}
FUNCS = {
    "std::move": f_identity,
    "std::forward": f_identity,
    "FEAT::stringify": f_stringify,
    "FEAT::operator+": f_str_plus,
    "std::operator+": f_str_plus,
    "FEAT::assertion": f_assertion,
}


NPOS = (1 << 64) - 1


def _s(folder, v):
    v = folder.rvalue(v)
    if not isinstance(v, str):
        raise NotConstant("string expected, got %r" % (v,))
    return v


def _pos(folder, v):
    return Num(Fraction(NPOS if v < 0 else v))


def s_compare_no_case(folder, call, obj, args):
    a, b = _s(folder, obj).lower(), _s(folder, args[0]).lower()
    return Num(Fraction((a > b) - (a < b)))


def s_find_first_of(folder, call, obj, args):
    s, chars = _s(folder, obj), _s(folder, args[0])
    start = folder.num(args[1]).as_int() if len(args) > 1 else 0
    hits = [i for i in range(min(start, len(s)), len(s)) if s[i] in chars]
    return _pos(folder, hits[0] if hits else -1)


def s_find_first_not_of(folder, call, obj, args):
    s, chars = _s(folder, obj), _s(folder, args[0])
    start = folder.num(args[1]).as_int() if len(args) > 1 else 0
    hits = [i for i in range(min(start, len(s)), len(s)) if s[i] not in chars]
    return _pos(folder, hits[0] if hits else -1)


def s_substr(folder, call, obj, args):
    s = _s(folder, obj)
    pos = folder.num(args[0]).as_int() if args else 0
    cnt = folder.num(args[1]).as_int() if len(args) > 1 else NPOS
    if pos > len(s):
        raise NotConstant("substr position beyond the string (std::out_of_range)")
    return s[pos:pos + cnt] if cnt < NPOS else s[pos:]


def s_parse(folder, call, obj, args):
    """String::parse<int>: stream extraction, i.e. a *prefix* parse"""
    m = re.match(r"^\s*[+-]?\d+", _s(folder, obj))
    if not m:
        return False
    if not isinstance(args[0], LRef):
        raise NotConstant("parse target is not an lvalue")
    args[0].set(Num(Fraction(int(m.group(0)))))
    return True


def s_assign(folder, call, obj, args):
    if not isinstance(args[0], LRef):
        raise NotConstant("string assignment to a non-lvalue")
    args[0].set(_s(folder, args[1]))
    return args[0]


# documented semantics of the string operations met on the name-parsing paths (trusted model)
STRING_METHODS = {
    "FEAT::String::compare_no_case": s_compare_no_case,
    "FEAT::String::trim": lambda folder, call, obj, args: _s(folder, obj).strip(" \t\r\n\v\f") if not args else _s(folder, obj).strip(_s(folder, args[0])),
    "FEAT::String::substr": s_substr,
    "std::basic_string::substr": s_substr,
    "std::basic_string::find_first_of": s_find_first_of,
    "std::basic_string::find_first_not_of": s_find_first_not_of,
    "std::basic_string::empty": lambda folder, call, obj, args: len(_s(folder, obj)) == 0,
    "std::basic_string::size": lambda folder, call, obj, args: Num(Fraction(len(_s(folder, obj)))),
    "FEAT::String::parse": s_parse,
    "FEAT::String::operator=": s_assign,
    "std::basic_string::operator=": s_assign,
}


class Record(Obj):
    """an object of a small repo class (alias mapper, prefix functor) folded through its own member functions:
    data members live in `slots`"""

    def __init__(self, cls):
        super().__init__(cls)


class TFolder(Folder):
    """Folder whose method/function tables are keyed by template-argument-free names"""

    def __init__(self, *a, **kw):
        super().__init__(*a, **kw)
        self.record_calls = []     # (class, method name, argument values) of every member call on a Record

    def eval(self, n, env, fn):
        k = n["k"]
        if k == "This":
            if "__this__" not in env:
                raise NotConstant("`this` outside a folded member function")
            return env["__this__"]
        if k == "Char":
            return chr(n["v"])
        if k == "PredefinedExpr":
            return n.get("v") if isinstance(n.get("v"), str) else "<function name>"     # __func__ in assertion macros
        if k == "Member" and n.get("n") == "npos":
            return Num(Fraction(NPOS))
        if k == "Ref" and n.get("n") == "npos" and n.get("dk") == "smember":
            return Num(Fraction(NPOS))
        return super().eval(n, env, fn)

    def lookup(self, call):
        # overloads share qualified and full names (create(rule,int) / create(rule,String)): the declaration id decides
        cd = call.get("cdecl")
        if cd is not None:
            cands = self.by_qn.get((call.get("callee"), len(call.get("pn", []))), [])
            ex = [f for f in cands if f.d.get("decl") == cd]
            if len(ex) == 1:
                return ex[0]
        return super().lookup(call)

    def call_method(self, target, this, args):
        env = {"__this__": this}
        for p, a in zip(target.params, args):
            env[p["d"]] = a
        if target.full not in self.inlined:
            self.inlined_fns.append(target)
        self.inlined.add(target.full)
        if target.d.get("ctor"):
            for it in target.d.get("inits", []) or []:
                if "member" in it:
                    this.slots[it["member"]] = self.rvalue(self.eval(it["init"], env, target))
        try:
            self.exec(target.body, env, target)
        except _Return as r:
            return r.v
        return None

    def bind_args(self, n, target, env, fn):
        args = []
        for a, p in zip(n.get("a", []), target.params):
            v = self.eval(a, env, fn)
            pt = target.type(p["t"])
            args.append(v if (pt.endswith("&") and not pt.startswith("const ")) else self.rvalue(v))
        return args

    def call(self, n, env, fn):
        c = n.get("callee")
        if c:
            s = strip_targs(c)
            if n["k"] in ("MCall", "OpCall") and s in STRING_METHODS and c not in self.methods:
                self.methods[c] = STRING_METHODS[s]
            if n["k"] in ("Construct", "TempObj") and s not in METHODS and c not in self.methods and s.startswith("FEAT::Cubature::"):
                target = self.lookup(n)
                if target is not None and target.d.get("ctor"):
                    this = Record(n.get("ccls") or s)
                    self.call_method(target, this, self.bind_args(n, target, env, fn))
                    return this
            if n["k"] == "MCall" and s not in METHODS and s not in STRING_METHODS and c not in self.methods and n.get("obj") is not None:
                o = self.rvalue(self.eval(n["obj"], env, fn))
                if isinstance(o, Record):
                    target = self.lookup(n)
                    if target is None:
                        raise NotConstant("member function %s has no body in the fact base (line %s)" % (c, n.get("l")))
                    args = self.bind_args(n, target, env, fn)
                    self.record_calls.append((o.cls, n.get("n"), [self.rvalue(a) for a in args], n.get("l"), fn))
                    return self.call_method(target, o, args)
            if n["k"] in ("MCall", "Construct", "TempObj", "OpCall"):
                if s in METHODS and c not in self.methods:
                    self.methods[c] = METHODS[s]
            if s in FUNCS and c not in self.functions:
                self.functions[c] = FUNCS[s]
            if n["k"] == "OpCall" and s in FUNCS and c not in self.methods:
                self.methods[c] = FUNCS[s]
        return super().call(n, env, fn)

    def exec(self, n, env, fn):
        # local C arrays: `Coord_ v[4][3][2];`
        if n is not None and n.get("k") == "Decl":
            for v in n["vars"]:
                ty = fn.type(v["t"]) if fn is not None else ""
                m = re.match(r"^.*?((\[\d+\])+)$", ty)
                if m and v.get("init") is None:
                    dims = [int(x) for x in re.findall(r"\[(\d+)\]", m.group(1))]

                    def mk(ds):
                        if not ds:
                            return None
                        return [mk(ds[1:]) for _ in range(ds[0])]
                    env[v["d"]] = mk(dims)
                    return
                if v.get("init") is not None and v["init"].get("k") in ("Construct", "TempObj"):
                    # object declaration RuleType r(n, name) / Rule r;
                    pass
        return super().exec(n, env, fn)


# -------------------------------------------------------------------------------------------------
# exact integrals and moment checks
# -------------------------------------------------------------------------------------------------

def monomials(dim, deg):
    """all exponent tuples of total degree <= deg"""
    if dim == 1:
        return [(a,) for a in range(deg + 1)]
    out = []
    for a in range(deg + 1):
        for rest in monomials(dim - 1, deg - a):
            out.append((a,) + rest)
    return out


def exact_integral(kind, dim, e):
    if kind == "simplex":
        num = 1
        for a in e:
            num *= factorial(a)
        return Fraction(num, factorial(dim + sum(e)))
    # hypercube / scalar on [-1,1]^d
    r = Fraction(1)
    for a in e:
        if a % 2:
            return Fraction(0)
        r *= Fraction(2, a + 1)
    return r


def frac_mpf(q):
    return mpmath.mpf(q.numerator) / q.denominator


def rule_tables(r):
    """-> (w, ew, x, ex) as mpf lists"""
    n = r.n
    dim = r.dim
    w, ew, x, ex = [], [], [], []
    for i in range(n):
        wi = r.w[i]
        w.append(wi.f())
        ew.append(wi.ferr())
        xs, es = [], []
        for j in range(dim):
            c = r.x[(i, j)]
            xs.append(c.f())
            es.append(c.ferr())
        x.append(xs)
        ex.append(es)
    return w, ew, x, ex


SH = 260
ONE = 1 << SH


def _fix(num):
    """Num -> fixed-point integer (value * 2^260, truncated)"""
    v = num.v
    if isinstance(v, Fraction):
        return (v.numerator << SH) // v.denominator
    return int(mpmath.floor(mpmath.ldexp(v, SH)))


def achieved_degree(r, kind, maxdeg):
    """largest D <= maxdeg such that all monomials of total degree <= D are integrated exactly
    within the propagated literal error; returns (D, first failing (exponent, residual, tol)).
    Arithmetic: 260-bit fixed point for the moments (truncation error < 1e-70 per operation),
    double precision for the (first-order, 5% inflated) literal error bound."""
    n, dim = r.n, r.dim
    w = [_fix(r.w[i]) for i in range(n)]
    ew = [float(r.w[i].ferr()) for i in range(n)]
    x = [[_fix(r.x[(i, j)]) for j in range(dim)] for i in range(n)]
    ex = [[float(r.x[(i, j)].ferr()) for j in range(dim)] for i in range(n)]
    pw = [[[ONE] for _ in range(dim)] for _ in range(n)]
    pwf = [[[1.0] for _ in range(dim)] for _ in range(n)]
    for i in range(n):
        for j in range(dim):
            p = pw[i][j]
            xf = x[i][j]
            for a in range(1, maxdeg + 1):
                p.append((p[-1] * xf) >> SH)
            pwf[i][j] = [abs(q / ONE) for q in p]
    wf = [abs(q / ONE) for q in w]
    anyerr = any(e > 0 for e in ew) or any(e > 0 for row in ex for e in row)
    for D in range(0, maxdeg + 1):
        for e in monomials(dim, D):
            if sum(e) != D:
                continue
            s = 0
            tol = 0.0
            for i in range(n):
                m = pw[i][0][e[0]]
                for j in range(1, dim):
                    m = (m * pw[i][j][e[j]]) >> SH
                s += (w[i] * m) >> SH
                if anyerr:
                    pf = pwf[i]
                    mf = 1.0
                    for j in range(dim):
                        mf *= pf[j][e[j]]
                    t = ew[i] * mf
                    for j in range(dim):
                        if e[j] == 0 or ex[i][j] == 0.0:
                            continue
                        dm = e[j] * pf[j][e[j] - 1]
                        for k2 in range(dim):
                            if k2 != j:
                                dm *= pf[k2][e[k2]]
                        t += wf[i] * dm * ex[i][j]
                    tol += t
            tol = tol * 1.05 + 1e-60
            ex_int = exact_integral(kind, dim, e)
            res = abs(s - ((ex_int.numerator << SH) // ex_int.denominator)) / ONE
            if res > tol:
                return D - 1, (e, mpmath.mpf(res), mpmath.mpf(tol))
    return maxdeg, None


# nominal degree laws.  Source of each law is given; laws marked [majority] were inferred from the
# achieved degrees of the sibling point counts on the pinned tree and then confirmed against the
# cited construction (Engler-style: discover by statistics, freeze after reading).
def nominal_degree(name, n):
    if name == "gauss-legendre":
        return 2 * n - 1                      # property text; auto_alias.hpp comment "exact up to 2*k-1"
    if name == "gauss-lobatto":
        return 2 * n - 3                      # Gauss-Lobatto with n points incl. both end points
    if name == "dunavant":
        return n                              # property text: Dunavant n -> n
    if name in ("newton-cotes-closed", "newton-cotes-open", "maclaurin"):
        # interpolatory on n symmetric nodes: degree n-1, plus one by symmetry when n is odd
        return n - 1 if n % 2 == 0 else n
    if name in ("midpoint", "barycentre", "trapezoidal"):
        return 1
    m = re.match(r"(hammer-stroud|lauffer)-degree-(\d+)$", name)
    if m:
        return int(m.group(2))                # the name and the class documentation state the degree
    if name == "silvester-open":
        # Silvester's open Newton-Cotes formulas on the triangle: n-th rule interpolates on the
        # interior lattice of order n+3, i.e. polynomial degree n (class documentation cites Silvester)
        return n
    if name == "shunn-ham":
        return None                           # decided through achieved-degree + auto-degree only
    return None


SHUNN_HAM_DOC = {1: 1, 2: 2, 3: 3, 4: 5, 5: 6, 6: 7}  # Shunn & Ham 2012, table 2 (n -> degree)



# -------------------------------------------------------------------------------------------------
# conformance of the natively modelled Rule class (E1.rule-model)
# -------------------------------------------------------------------------------------------------

def _core(n):
    """strip explicit casts, std::move/std::forward and copy constructions: the value that flows"""
    while n is not None:
        k = n.get("k")
        if k == "Cast":
            n = n.get("e")
        elif k in ("Call",) and strip_targs(n.get("callee", "")) in ("std::move", "std::forward") and n.get("a"):
            n = n["a"][0]
        elif k in ("Construct", "TempObj") and len(n.get("a", [])) == 1 and (n.get("copy") or strip_targs(n.get("ccls", "")) == strip_targs(n.get("callee", "")).rsplit("::", 1)[0]):
            n = n["a"][0]
        else:
            break
    return n


def _member_of(n, owner):
    """name of the data member if n is `owner.member` (owner = 'this' or a decl id), else None"""
    n = _core(n)
    if n is None or n.get("k") != "Member" or not n.get("field"):
        return None
    b = _core(n.get("b"))
    if owner == "this":
        return n["n"] if b is not None and b.get("k") == "This" else None
    return n["n"] if b is not None and b.get("k") == "Ref" and b.get("d") == owner else None


def _stmts(body):
    return [x for x in (body or {}).get("s", [])] if body and body.get("k") == "Block" else ([body] if body else [])


def check_rule_model(ck, facts):
    """The folder models Cubature::Rule / Scalar::Rule natively (count, name, weights, points).  This rule checks
    that the source of those classes conforms to that model: roles of the data members are taken from the accessors,
    then the allocating constructor, move constructor, move assignment and clone() must define every role of the
    result from the same role of the source."""
    RULE = "E1.rule-model"
    classes = {}
    for f in facts.functions:
        if f.tk == "pattern":
            continue
        c = strip_targs(f.cls)
        if c in ("FEAT::Cubature::Rule", "FEAT::Cubature::Scalar::Rule"):
            classes.setdefault(f.cls, []).append(f)
    seen = set()

    def ob(cname, key, ok, detail, f, line=None):
        k = "%s::%s" % (cname, key)
        if (k, ok) in seen:
            return
        seen.add((k, ok))
        ck.ob(RULE, k, ok, detail, f.file, line or f.line)

    for cls, fns in sorted(classes.items()):
        cname = strip_targs(cls).replace("FEAT::Cubature::", "")
        scalar = "Scalar" in cname
        roles = {}

        def single_return(f):
            rets = [x for x in f.nodes() if x.get("k") == "Return"]
            return rets[0].get("e") if len(rets) == 1 else None
        # ---- roles from the accessors
        for f in fns:
            e = single_return(f) if f.name.startswith("get_") else None
            if e is None:
                continue
            e = _core(e)
            if f.name in ("get_num_points", "get_name") and not f.params:
                m = _member_of(e, "this")
                role = "count" if f.name == "get_num_points" else "name"
                if m is None:
                    ck.incomplete(RULE, "%s::%s does not return a data member" % (cname, f.name))
                else:
                    if roles.get(role, m) != m:
                        ob(cname, f.name, False, "returns member %s, other accessors use %s" % (m, roles[role]), f)
                    roles.setdefault(role, m)
            elif f.name in ("get_weight", "get_point") or (f.name == "get_coord"):
                role = "weights" if f.name == "get_weight" else "points"
                idx = []
                cur = e
                while cur is not None and cur.get("k") == "OpCall" and cur.get("op") == "[]" and len(cur.get("a", [])) == 2:
                    idx.insert(0, _core(cur["a"][1]))
                    cur = _core(cur["a"][0])
                m = _member_of(cur, "this")
                want = 2 if (f.name == "get_coord" and not scalar) else 1
                pids = [p_["d"] for p_ in f.params]
                good = m is not None and len(idx) == want and [x.get("d") for x in idx] == pids[:want] and len(f.params) == want
                if m is None:
                    ck.incomplete(RULE, "%s::%s: returned expression `%s` is not a subscript of a data member" % (cname, f.name, featlib.render(e)))
                    continue
                if roles.get(role, m) != m:
                    good = False
                roles.setdefault(role, m)
                ob(cname, "%s/%d%s" % (f.name, len(f.params), "c" if f.d.get("const") else ""), good,
                   "returns %s%s" % (m, "".join("[%s]" % featlib.render(x) for x in idx)) + ("" if good else " - expected %s subscripted by the parameters in order" % roles[role]), f)
        if set(roles) != {"count", "name", "weights", "points"}:
            ck.incomplete(RULE, "%s: member roles not established from the accessors (%s)" % (cname, sorted(roles)))
            continue
        byrole = {v: k for k, v in roles.items()}

        # ---- allocating constructor Rule(int, String)
        ctor2 = [f for f in fns if f.d.get("ctor") and len(f.params) == 2 and "int" in f.type(f.params[0]["t"])]
        move_ctor = [f for f in fns if f.d.get("ctor") and len(f.params) == 1 and f.type(f.params[0]["t"]).endswith("&&")]
        move_asg = [f for f in fns if f.name == "operator=" and len(f.params) == 1 and f.type(f.params[0]["t"]).endswith("&&")]
        clones = [f for f in fns if f.name == "clone" and not f.params]
        if not (ctor2 and move_ctor and move_asg and clones):
            ck.incomplete(RULE, "%s: allocating ctor / move ctor / move assignment / clone not all found" % cname)
            continue
        ctor_param_role = {}
        for f in ctor2[:1]:
            defined = {}
            for it in f.d.get("inits", []):
                v = _core(it["init"])
                if v is not None and v.get("k") == "Ref" and v.get("dk") == "param":
                    defined[it["member"]] = [p_["d"] for p_ in f.params].index(v["d"])
            resized = {}
            for n in f.nodes():
                if n.get("k") == "MCall" and n.get("n") in ("resize", "assign") and n.get("a"):
                    m = _member_of(n.get("obj"), "this")
                    a0 = _core(n["a"][0])
                    if m and a0 is not None and a0.get("k") == "Ref" and a0.get("dk") == "param":
                        resized[m] = [p_["d"] for p_ in f.params].index(a0["d"])
            okc = defined.get(roles["count"]) == 0 and defined.get(roles["name"]) == 1 and resized.get(roles["weights"]) == 0 and resized.get(roles["points"]) == 0
            ob(cname, "Rule(int,String)", okc, "count<-param %s, name<-param %s, weights sized by param %s, points sized by param %s" % (
                defined.get(roles["count"]), defined.get(roles["name"]), resized.get(roles["weights"]), resized.get(roles["points"])), f)
            if okc:
                ctor_param_role = {0: "count", 1: "name"}

        def transfer_verdict(got, what, f):
            """got: role -> source description ('role:<r>' | 'other:<text>' | None)"""
            for role in ("count", "name", "weights", "points"):
                src = got.get(role)
                key = "%s/%s" % (what, role)
                if src == "role:" + role:
                    ob(cname, key, True, "%s of the result is taken from %s of the source" % (roles[role], roles[role]), f)
                elif src is None:
                    ob(cname, key, False, "%s (%s) of the result is not defined from the source: the result differs from the source rule" % (roles[role], role), f)
                elif src.startswith("?"):
                    ck.incomplete(RULE, "%s::%s: %s is defined by `%s`, not understood" % (cname, what, roles[role], src[1:]))
                else:
                    ob(cname, key, False, "%s (%s) of the result is defined from `%s` instead of %s of the source" % (roles[role], role, src.split(":", 1)[1], roles[role]), f)

        def classify(expr, owner):
            e = _core(expr)
            m = _member_of(e, owner)
            if m is not None:
                return "role:" + byrole[m] if m in byrole else "other:" + m
            if e is not None and e.get("k") == "MCall" and not e.get("a"):
                o = _core(e.get("obj"))
                is_owner = o is not None and ((owner == "this" and o.get("k") == "This") or (o.get("k") == "Ref" and o.get("d") == owner))
                if is_owner and e.get("n") == "get_num_points":
                    return "role:count"
                if is_owner and e.get("n") == "get_name":
                    return "role:name"
            if e is not None and e.get("k") in ("Int", "Float", "Str"):
                return "other:" + featlib.render(e)
            return "?" + featlib.render(expr)

        for f in move_ctor[:1]:
            other = f.params[0]["d"]
            got = {}
            for it in f.d.get("inits", []):
                if it["member"] in byrole:
                    got[byrole[it["member"]]] = classify(it["init"], other)
            transfer_verdict(got, "Rule(Rule&&)", f)
        for f in move_asg[:1]:
            other = f.params[0]["d"]
            got = {}
            for st in _stmts(f.body):
                lhs = rhs = None
                if st.get("k") == "Assign" and st.get("op") == "=":
                    lhs, rhs = st["lhs"], st["rhs"]
                elif st.get("k") == "OpCall" and st.get("op") == "=" and len(st.get("a", [])) == 2:
                    lhs, rhs = st["a"]
                if lhs is None:
                    continue
                m = _member_of(lhs, "this")
                if m in byrole:
                    got[byrole[m]] = classify(rhs, other)
            transfer_verdict(got, "operator=(Rule&&)", f)
        for f in clones[:1]:
            got = {}
            local = None
            for st in _stmts(f.body):
                if st.get("k") == "Decl":
                    for v in st["vars"]:
                        init = v.get("init")
                        if init is not None and init.get("k") in ("Construct", "TempObj") and strip_targs(init.get("ccls", "")) == strip_targs(cls):
                            local = v["d"]
                            if len(init.get("a", [])) == 2 and ctor_param_role:
                                for pos, role in ctor_param_role.items():
                                    got[role] = classify(init["a"][pos], "this")
                                # the allocating ctor sizes both arrays by the count argument, contents come below
                            elif len(init.get("a", [])) == 0:
                                pass
                            else:
                                got["count"] = "?" + featlib.render(init)
                lhs = rhs = None
                if st.get("k") == "Assign" and st.get("op") == "=":
                    lhs, rhs = st["lhs"], st["rhs"]
                elif st.get("k") == "OpCall" and st.get("op") == "=" and len(st.get("a", [])) == 2:
                    lhs, rhs = st["a"]
                if lhs is not None and local is not None:
                    m = _member_of(lhs, local)
                    if m in byrole:
                        got[byrole[m]] = classify(rhs, "this")
            rets = [x for x in f.nodes() if x.get("k") == "Return"]
            r0 = _core(rets[0].get("e")) if len(rets) == 1 else None
            if local is None or r0 is None or r0.get("k") != "Ref" or r0.get("d") != local:
                ck.incomplete(RULE, "%s::clone: result is not a local rule object built in the function" % cname)
                continue
            transfer_verdict(got, "clone()", f)


DIGITS = set("0123456789")
TRIMS = ("trim", "trim_front", "trim_back")


def _or_leaves(c):
    """operands of a (possibly nested) || chain"""
    if c.get("k") == "Bin" and c.get("op") == "||":
        return _or_leaves(c["lhs"]) + _or_leaves(c["rhs"])
    return [c]


def _parse_body_checks_rest(facts):
    """does String::parse<T> itself verify that the whole string was consumed?  True / False / None (not understood)"""
    verdict = None
    for f in facts.functions:
        if f.tk == "pattern" or f.name != "parse" or not f.cls.endswith("String") or not f.params:
            continue
        t = f.type(f.params[0]["t"])
        if not re.match(r"^(unsigned |signed )?(int|long|short|char)( long)?( int)? &$", t.replace("unsigned long", "long")):
            continue
        names = {n.get("n") for n in f.nodes() if n.get("k") == "MCall"}
        if names & {"eof"}:
            v = True
        elif names & {"peek", "get", "tellg", "rdbuf", "in_avail", "rdstate", "good"}:
            v = None
        else:
            v = False
        verdict = v if verdict in (None, v) or verdict is None else None
        if v is None:
            return None
    return verdict


def check_param_fully_parsed(ck, facts):
    RULE = "E7.param-fully-parsed"
    body_checks = _parse_body_checks_rest(facts)
    seen = {}
    for f in facts.functions:
        if f.tk == "pattern" or "/kernel/cubature/" not in f.file:
            continue
        for n in f.nodes():
            if not (n.get("k") == "MCall" and n.get("n") == "parse" and n.get("callee", "").endswith("String::parse")):
                continue
            pt = [f.type(t) for t in n.get("pt", [])]
            if not pt or not re.search(r"\b(int|long|short)\b", pt[0]):
                continue          # only numeric parameters
            key = "%s::%s/%s" % (strip_targs(f.cls), f.name, featlib.render(n["a"][0]) if n.get("a") else "?")
            obj = n.get("obj")
            while obj is not None and obj.get("k") == "MCall" and obj.get("n") in TRIMS:
                obj = obj.get("obj")
            ok, detail, undecided = False, "", False
            if body_checks is True:
                ok, detail = True, "String::parse itself requires the whole string to be consumed"
            elif obj is None or obj.get("k") != "Ref" or obj.get("dk") not in ("local", "param"):
                if body_checks is None:
                    undecided, detail = True, "String::parse body not understood and the parsed string `%s` is a temporary" % featlib.render(n.get("obj"))
                else:
                    detail = ("the parameter string `%s` is parsed with String::parse (accepts any prefix that is a number) and is not validated "
                              "as a whole: e.g. '<name>:2x' or '<name>:2:3' is answered with the rule for 2" % featlib.render(n.get("obj")))
            else:
                d = obj["d"]
                # Semantic form: on every path on which the parsed VALUE is consumed (any use of the variable that received it other than
                # the parse call itself), the whole parameter string was validated: `<string>.find_first_not_of("0123456789") == npos`
                # held.  The boolean form that carries this (early return on the negation, &&-chain in a return, named bool, nested ifs)
                # does not matter: conditions are split by polarity along the paths.
                target = n["a"][0] if n.get("a") else None
                tcore = target
                while tcore is not None and tcore.get("k") == "Cast":
                    tcore = tcore["e"]

                def is_digits_test(x):
                    return (x.get("k") == "MCall" and x.get("n") == "find_first_not_of" and (x.get("obj") or {}).get("k") == "Ref" and x["obj"].get("d") == d
                            and x.get("a") and x["a"][0].get("k") == "Str" and x["a"][0].get("v") and set(x["a"][0]["v"]) == DIGITS)

                def other_charset_test(x):
                    return (x.get("k") == "MCall" and x.get("n") in ("find_first_not_of", "find_first_of", "find") and (x.get("obj") or {}).get("k") == "Ref" and x["obj"].get("d") == d
                            and not is_digits_test(x))
                if tcore is None or tcore.get("k") != "Ref":
                    undecided, detail = True, "the parse target `%s` is not a named variable" % featlib.render(target)
                else:
                    vd = tcore["d"]
                    # outcomes are pairs (validation, parse): a use is wrong where the parse succeeded ('T') without the validation having passed
                    fp = FactPaths(f, is_digits_test, "npos", watch=lambda x: x.get("k") == "Ref" and x.get("d") == vd and x is not tcore,
                                   more_facts=[(lambda x: x is n, "bool")]).analyse()
                    uses = fp.watched
                    bad = [(u, o) for u, o in uses if any(st_[1] == "T" and st_[0] != "T" for st_ in o)]
                    if fp.unknown or (bad and any(other_charset_test(x) for x in f.nodes())):
                        undecided, detail = True, "parameter string `%s` is tested by a condition this rule does not understand (`%s`)" % (
                            obj.get("n"), featlib.render(fp.unknown[0])[:80] if fp.unknown else "another character-set test")
                    elif not bad:
                        ok = True
                        detail = "every use of the parsed `%s` (%d) lies on paths on which `%s.find_first_not_of(\"0123456789\") == npos` held" % (tcore.get("n"), len(uses), obj.get("n"))
                    elif body_checks is None:
                        undecided, detail = True, "String::parse body not understood"
                    else:
                        u, o = bad[0]
                        detail = ("the parameter string `%s` is parsed with String::parse (accepts any prefix that is a number) and the value is used at line %s on a path on which the "
                                  "whole-string validation (digits only) %s: e.g. '<name>:2x' or '<name>:2:3' is answered with the rule for 2" % (
                                      obj.get("n"), u.get("l"), "had failed" if any(st_ == "FT" for st_ in o) else "was not performed"))
            if undecided:
                ck.incomplete(RULE, "%s: %s" % (key, detail))
                continue
            prev = seen.get(key)
            if prev is not None and prev == ok:
                continue
            seen[key] = ok
            ck.ob(RULE, key, ok, detail, f.file, n.get("l", f.line))


# -------------------------------------------------------------------------------------------------
# nominal identity of the classical named rules (E13.alias-identity)
# -------------------------------------------------------------------------------------------------
# The library registers alias names of classical formulas (Driver::alias -> functor.alias(name[, points])) and answers a
# request for the alias with `<driver>[:points]`.  Which formula a classical name denotes is fixed by the literature, not by
# the library: the alias table and the published alias list (AvailFunctor) change together when the table is wrong, so the
# identity must come from outside.  The driver headers do not spell the alias list out in prose; the closed Newton-Cotes
# driver cites its source (`\see http://de.wikipedia.org/wiki/Newton-Cotes-Formeln`), whose table names exactly these
# formulas by the number of sub-intervals n (nodes = n+1): n=1 Trapezregel, n=2 Simpson-Regel, n=3 3/8-Regel (pulcherrima),
# n=4 Milne-/Boole-Regel, n=5 6-Punkt-Regel, n=6 Weddle-Regel; the barycentre driver cites the rectangle (midpoint) method
# and documents "this rule has one point".  The table below is transcribed from those sources; the citations are
# anchor-checked (ALIAS_DOC_ANCHORS): when they change, the oracle has to be re-confirmed and the rule answers exit 2.
ALIAS_ORACLE = {
    # alias: (canonical driver name, points per direction, degree of exactness of the named formula, what the name denotes)
    "simpson": ("newton-cotes-closed", 3, 3, "Simpson's rule is the closed Newton-Cotes formula with 3 points (2 sub-intervals), exact to degree 3"),
    "pulcherrima": ("newton-cotes-closed", 4, 3, "the 3/8 rule (pulcherrima) is the closed Newton-Cotes formula with 4 points, exact to degree 3"),
    "milne-boole": ("newton-cotes-closed", 5, 5, "Boole's (Milne's) rule is the closed Newton-Cotes formula with 5 points, exact to degree 5"),
    "6-point": ("newton-cotes-closed", 6, 5, "the 6-point rule is the closed Newton-Cotes formula with 6 points, exact to degree 5"),
    "weddle": ("newton-cotes-closed", 7, 7, "Weddle's rule is the closed Newton-Cotes formula with 7 points (6 sub-intervals), exact to degree 7"),
    "midpoint": ("barycentre", 1, 1, "the midpoint (rectangle) rule has one point, the barycentre, and is exact to degree 1"),
}
ALIAS_DOC_ANCHORS = {
    "newton-cotes-closed": ("kernel/cubature/scalar/newton_cotes_closed_driver.hpp", r"\\see\s+\S*wikipedia\.org/wiki/Newton-Cotes"),
    "barycentre": ("kernel/cubature/barycentre_driver.hpp", r"\\see\s+\S*wikipedia\.org/wiki/Rectangle_method"),
}
PROBE_NAME = "no-such-rule\x01"


def _doc_anchor_present(driver):
    path, rx = ALIAS_DOC_ANCHORS[driver]
    try:
        text = open(featlib.repo_path(path), errors="replace").read()
    except OSError:
        return False, path
    comments = "\n".join(re.findall(r"/\*.*?\*/|//[^\n]*", text, flags=re.S))
    return re.search(rx, comments, flags=re.I) is not None, path


def check_alias_identity(ck, facts, folder_proto, rules, degrees, shape_of, tier):
    RULE = "E13.alias-identity"
    anchors_ok = {}
    entries = []
    for f in facts.functions:
        if f.tk == "pattern" or f.name != "create" or not f.d.get("static") or len(f.params) != 2:
            continue
        if not f.type(f.params[1]["t"]).replace("const ", "").strip().endswith("String &"):
            continue
        base = strip_targs(f.cls)
        if base in ("FEAT::Cubature::DriverFactory", "FEAT::Cubature::Scalar::DriverFactory",
                    "FEAT::Cubature::TensorProductFactoryBase", "FEAT::Cubature::SimplexScalarFactoryBase"):
            entries.append(f)
    if len(entries) < 40:
        ck.incomplete(RULE, "only %d factory entry points create(rule, name) found" % len(entries))
    for f in sorted(entries, key=lambda f: f.full):
        kind, dim = shape_of(f)
        base = strip_targs(f.cls)
        if base.endswith("SimplexScalarFactoryBase"):
            kind, dim = "simplex", 1
        scalar = kind == "scalar"
        short = base.rsplit("::", 1)[-1] + "<" + ",".join(re.findall(r"(\w+Driver)\b", f.cls)[:1]) + ">"
        inst0 = "%s%s/%s" % (kind, dim if not scalar else "", short)

        def fold(name):
            fo = folder_proto()
            r = RuleObj(scalar, 0, "", dim)
            ret = fo.rvalue(fo.call_function(f, [r, name]))
            return fo, r, ret
        # (1) probe with a name no factory knows: lists every alias the factory compares the name with
        try:
            fo, r, ret = fold(PROBE_NAME)
        except (NotConstant, AssertFails) as e:
            ck.incomplete(RULE, "%s: create(rule, <unknown name>) not foldable: %s" % (inst0, e))
            continue
        ck.ob("E7.unknown-refused", "fold/" + inst0, ret is False, "create(rule, <a name no factory knows>) folds to %r" % (ret,), f.file, f.line, trivial=True)
        registered = []
        for cls, meth, args, line, gfn in fo.record_calls:
            if meth == "alias" and "AliasMapper" in cls and args and isinstance(args[0], str):
                n_reg = None
                if len(args) > 1:
                    try:
                        n_reg = fo.num(args[1]).as_int()
                    except NotConstant:
                        ck.incomplete(RULE, "%s: point count registered for alias '%s' is not a constant" % (inst0, args[0]))
                        continue
                registered.append((args[0], n_reg, line, gfn))
        # (2) every registered alias is answered with the formula the name denotes
        for alias, n_reg, line, gfn in registered:
            inst = "%s/alias:%s" % (inst0, alias)
            where = (gfn.file if gfn is not None else f.file, line or f.line)
            orc = ALIAS_ORACLE.get(alias.lower())
            m = re.match(r"^(\d+)-point$", alias.lower())
            try:
                fo2, r2, ret2 = fold(alias)
            except (NotConstant, AssertFails) as e:
                ck.incomplete(RULE, "%s: create(rule, '%s') not foldable: %s" % (inst, alias, e))
                continue
            got_parts = [p for p in (r2.name or "").split(":") if p not in ("tensor", "scalar")]
            got_driver = got_parts[0] if got_parts else ""
            if orc is None and m and got_driver:
                pts = int(m.group(1))
                nd = nominal_degree(got_driver, pts)
                orc = (got_driver, pts, nd if nd is not None else 0, "the name states %d points" % pts)
            if orc is None:
                ck.incomplete(RULE, "%s: the alias '%s' (registered at %s:%s) has no nominal identity recorded in the oracle table of this check" % (
                    inst, alias, rel(where[0]), where[1]))
                continue
            drv, pts, deg, says = orc
            if m and int(m.group(1)) != pts:
                ck.incomplete(RULE, "%s: oracle entry for '%s' contradicts the point count in the name" % (inst, alias))
                continue
            if drv in ALIAS_DOC_ANCHORS and drv not in anchors_ok:
                anchors_ok[drv] = _doc_anchor_present(drv)
                if not anchors_ok[drv][0]:
                    ck.incomplete(RULE, "the citation the alias oracle of '%s' was transcribed from is no longer found in the comments of %s: re-confirm the oracle table" % (drv, anchors_ok[drv][1]))
            if drv in anchors_ok and not anchors_ok[drv][0]:
                continue
            prob = []
            if ret2 is not True:
                prob.append("create(rule, '%s') returns %r although the alias is registered" % (alias, ret2))
            else:
                if n_reg is not None and n_reg != pts:
                    prob.append("alias('%s', %d) registers the %d-point rule of '%s'; %s" % (alias, n_reg, n_reg, got_driver or drv, says))
                if got_driver != drv:
                    prob.append("the alias is answered with the rule '%s' of driver '%s', expected driver '%s'" % (r2.name, got_driver, drv))
                want_n = pts ** dim if base.endswith("TensorProductFactoryBase") else pts
                if r2.n != want_n:
                    prob.append("the alias is answered with the rule '%s' of %d points, the named formula has %d%s" % (
                        r2.name, r2.n or 0, want_n, " (= %d^%d)" % (pts, dim) if want_n != pts else ""))
                if not prob or r2.n:
                    skind = "simplex" if kind == "simplex" else "cube"
                    if r2.n and r2.n <= (400 if tier == "quick" else 4000) and all(i in r2.w for i in range(r2.n)) and all((i, j) in r2.x for i in range(r2.n) for j in range(r2.dim)):
                        D, fail = achieved_degree(r2, skind, deg)
                        src = "achieved"
                    else:
                        D = degrees.get((kind, dim, got_driver, n_reg or 0))
                        src = "established for '%s'" % r2.name
                    if D is None:
                        ck.incomplete(RULE, "%s: degree of the rule '%s' not established" % (inst, r2.name))
                        continue
                    if D < deg:
                        prob.append("the rule '%s' answered for '%s' is exact to degree %d only (%s); %s" % (r2.name, alias, D, src, says))
            ck.ob(RULE, inst, not prob, "; ".join(prob) if prob else "'%s' -> '%s' (%d points): %s" % (alias, r2.name, r2.n, says), where[0], where[1],
                  sample={"alias": alias, "answered_with": r2.name, "points": r2.n, "oracle": [drv, pts, deg]})


# -------------------------------------------------------------------------------------------------
# token containers of the name-parsing code (E7.token-access)
# -------------------------------------------------------------------------------------------------
TOKEN_TY = re.compile(r"^(const )?std::(deque|vector|list)<\s*(FEAT::)?String\b")
NEED1 = ("front", "back", "pop_back", "pop_front")
GROW = ("push_back", "push_front", "emplace_back", "emplace_front")
SIZE_NEUTRAL = ("size", "empty", "max_size", "capacity", "shrink_to_fit", "get_allocator")
ITERS = ("begin", "end", "rbegin", "rend", "cbegin", "cend", "crbegin", "crend", "data")


class _TokenSizes:
    """Path-sensitive lower bounds on the sizes of the token containers (std::deque/vector of String) of one function: a walk
    over the statement tree; state = {decl: [lower bound, epoch, net growth since the epoch]}; branches are joined by the minimum,
    conditions refine the bound by polarity (`!`, `&&`, `||`, size()/empty() comparisons, const locals holding a size),
    pop_*/push_* are counted.  Every access that needs elements is reported with the bound known there."""

    def __init__(self, fn):
        self.fn = fn
        self.cont = {}
        for n in fn.nodes():
            if n.get("k") == "Var" and TOKEN_TY.match(fn.type(n["t"]) or ""):
                self.cont[n["d"]] = n
        for p_ in fn.params:
            if TOKEN_TY.match((fn.type(p_["t"]) or "").replace("&", "").strip()) and not (fn.type(p_["t"]) or "").lstrip().startswith("const "):
                self.cont[p_["d"]] = p_
        self.order = {d: i for i, d in enumerate(sorted(self.cont, key=lambda d: (self.cont[d].get("l", 0), d)))}
        self.sites = {}        # node id -> [need, least bound seen, container decl, op text, line]
        self.unmodelled = []   # (text, line)
        self.sizevars = {}     # decl of a local holding c.size() -> (container decl, epoch, growth at that time)

    # ---- helpers
    @staticmethod
    def strip(n):
        while n is not None and n.get("k") == "Cast":
            n = n["e"]
        while n is not None and n.get("k") in ("Construct", "TempObj") and len(n.get("a", [])) == 1 and n.get("ccls", "") in ("std::size_t", "unsigned long", "FEAT::Index"):
            n = n["a"][0]
        return n

    def cref(self, n):
        n = self.strip(n)
        return n["d"] if n is not None and n.get("k") == "Ref" and n.get("d") in self.cont else None

    def const(self, n):
        n = self.strip(n)
        if n is None:
            return None
        if n.get("k") == "Int":
            return int(n["v"])
        if n.get("k") == "Ref" and "v" in n:
            return int(n["v"])
        return None

    def size_of(self, n, st):
        """n denotes the current size of a container (plus an offset): -> (decl, offset) with size_now = value - offset ... or None"""
        n = self.strip(n)
        if n is None:
            return None
        if n.get("k") == "MCall" and n.get("n") == "size":
            d = self.cref(n.get("obj"))
            return (d, 0) if d is not None else None
        if n.get("k") == "Ref" and n.get("d") in self.sizevars:
            d, ep, gr = self.sizevars[n["d"]]
            cur = st.get(d)
            if cur is not None and cur[1] == ep:
                return (d, cur[2] - gr)          # size_now = n + (growth since n was taken)
        return None

    @staticmethod
    def join(a, b):
        if a is None:
            return b
        if b is None:
            return a
        out = {}
        for d in set(a) | set(b):
            x, y = a.get(d), b.get(d)
            if x is None or y is None:
                out[d] = [0, -1, 0]
            elif x[1] == y[1] and x[2] == y[2]:
                out[d] = [min(x[0], y[0]), x[1], x[2]]
            else:
                out[d] = [min(x[0], y[0]), -1 - abs(hash((x[1], y[1], x[2], y[2]))) % 10 ** 6, 0]
        return out

    @staticmethod
    def copy(st):
        return None if st is None else {d: list(v) for d, v in st.items()}

    def raise_lb(self, st, d, k):
        if d in st and k > st[d][0]:
            st[d][0] = k

    def refine(self, c, pol, st):
        """state on the paths where condition c has truth value pol"""
        st = self.copy(st)
        c = self.strip(c)
        if c is None or st is None:
            return st
        k = c.get("k")
        if k == "Un" and c.get("op") == "!":
            return self.refine(c["e"], not pol, st)
        if k == "Bin" and c.get("op") in ("&&", "||"):
            if (c["op"] == "&&") == pol:
                return self.refine(c["rhs"], pol, self.refine(c["lhs"], pol, st))
            return self.join(self.refine(c["lhs"], pol, st), self.refine(c["rhs"], pol, self.refine(c["lhs"], not pol, st)))
        if k == "MCall" and c.get("n") == "empty":
            d = self.cref(c.get("obj"))
            if d is not None and not pol:
                self.raise_lb(st, d, 1)
            return st
        if k == "Bin" and c.get("op") in ("==", "!=", "<", ">", "<=", ">="):
            flip = {"<": ">", ">": "<", "<=": ">=", ">=": "<="}
            neg = {"==": "!=", "!=": "==", "<": ">=", ">": "<=", "<=": ">", ">=": "<"}
            for a, b, op in ((c["lhs"], c["rhs"], c["op"]), (c["rhs"], c["lhs"], flip.get(c["op"], c["op"]))):
                so, v = self.size_of(a, st), self.const(b)
                if so is None or v is None:
                    continue
                op = op if pol else neg[op]
                d, off = so
                # value (op) v holds, size_now = value + off
                if op in (">=", "=="):
                    self.raise_lb(st, d, v + off)
                elif op == ">":
                    self.raise_lb(st, d, v + 1 + off)
                elif op == "!=" and v == 0 and off == 0:
                    self.raise_lb(st, d, 1)
                return st
            return st
        so = self.size_of(c, st)
        if so is not None and pol:             # if(c.size())
            self.raise_lb(st, so[0], 1 + so[1])
        return st

    def need(self, node, d, k, st, what):
        lb = st[d][0] if d in st else 0
        rec = self.sites.setdefault(node["i"], [k, lb, d, what, node.get("l")])
        rec[1] = min(rec[1], lb)

    def mutate_unknown(self, st, d):
        if d in st:
            st[d] = [0, -2, 0]

    def scan(self, n, st):
        """accesses and mutations of one expression in evaluation order; -> state after it"""
        n0 = n
        n = self.strip(n)
        if n is None or st is None:
            return st
        k = n.get("k")
        if k == "Lambda":
            for x in featlib.walk(n):
                d = self.cref(x)
                if d is not None:
                    self.unmodelled.append(("token container used inside a lambda", n.get("l")))
            return st
        if k == "Bin" and n.get("op") in ("&&", "||"):
            st = self.scan(n["lhs"], st)
            side = self.scan(n["rhs"], self.refine(n["lhs"], n["op"] == "&&", st))
            return self.join(st, side) if side is not None else st
        if k == "Cond":
            st = self.scan(n["c"], st)
            return self.join(self.scan(n["then"], self.refine(n["c"], True, st)), self.scan(n["else"], self.refine(n["c"], False, st)))
        if k == "MCall" and self.cref(n.get("obj")) is not None:
            d = self.cref(n["obj"])
            for a in n.get("a", []):
                st = self.scan(a, st)
            nm = n.get("n")
            if nm in NEED1:
                self.need(n, d, 1, st, nm + "()")
                if nm.startswith("pop"):
                    st = self.copy(st)
                    st[d][0] = max(0, st[d][0] - 1)
                    st[d][2] -= 1
            elif nm == "at" and n.get("a"):
                self.index(n, d, n["a"][0], st)
            elif nm in GROW:
                st = self.copy(st)
                st[d][0] += 1
                st[d][2] += 1
            elif nm in SIZE_NEUTRAL:
                pass
            elif nm in ITERS:
                self.unmodelled.append(("iterator access `%s` to a token container" % featlib.render(n), n.get("l")))
            else:
                st = self.copy(st)
                st[d] = [0, -1 - n["i"], 0]
            return st
        if k == "OpCall" and n.get("op") == "[]" and len(n.get("a", [])) == 2 and self.cref(n["a"][0]) is not None:
            st = self.scan(n["a"][1], st)
            self.index(n, self.cref(n["a"][0]), n["a"][1], st)
            return st
        if k in ("OpCall", "Assign") and n.get("op") == "=":
            lhs, rhs = (n["a"][0], n["a"][1]) if k == "OpCall" and len(n.get("a", [])) == 2 else (n.get("lhs"), n.get("rhs"))
            d = self.cref(lhs)
            if d is not None:
                st = self.copy(self.scan(rhs, st))
                st[d] = [0, -1 - n["i"], 0]
                return st
        if featlib.is_call(n):
            pts = [self.fn.type(t) for t in n.get("pt", [])]
            for i, a in enumerate(n.get("a", [])):
                d = self.cref(a)
                if d is not None:
                    pt = pts[i] if i < len(pts) else ""
                    if not (pt.lstrip().startswith("const ") or "&" not in pt and "*" not in pt):
                        st = self.copy(st)
                        st[d] = [0, -1 - n["i"], 0]
                else:
                    st = self.scan(a, st)
            if n.get("obj") is not None:
                st = self.scan(n["obj"], st)
            return st
        for c in featlib.children(n):
            st = self.scan(c, st)
        return st

    def index(self, node, d, idx, st):
        v = self.const(idx)
        if v is not None:
            self.need(node, d, v + 1, st, "[%d]" % v)
            return
        i = self.strip(idx)
        if i is not None and i.get("k") == "Bin" and i.get("op") == "-":
            so, v = self.size_of(i["lhs"], st), self.const(i["rhs"])
            if so is not None and so[0] == d and v is not None and v >= 1:
                self.need(node, d, v - so[1], st, "[size()-%d]" % v)
                return
        self.unmodelled.append(("subscript `%s` of a token container with a computed index" % featlib.render(node), node.get("l")))

    def mutated_in(self, n):
        out = set()
        for x in featlib.walk(n):
            if x.get("k") == "MCall" and self.cref(x.get("obj")) is not None and x.get("n") not in SIZE_NEUTRAL + ITERS + ("front", "back", "at"):
                out.add(self.cref(x["obj"]))
            if x.get("k") in ("OpCall", "Assign") and x.get("op") == "=":
                d = self.cref(x["a"][0] if x["k"] == "OpCall" and x.get("a") else x.get("lhs"))
                if d is not None:
                    out.add(d)
        return out

    def run(self, st_node, st):
        if st_node is None or st is None:
            return st
        k = st_node.get("k")
        if k == "Block":
            for s_ in st_node.get("s", []):
                st = self.run(s_, st)
            return st
        if k == "Decl":
            for v in st_node.get("vars", []):
                if v.get("init") is not None:
                    st = self.scan(v["init"], st)
                if st is None:
                    return None
                if v["d"] in self.cont:
                    st = self.copy(st)
                    init = self.strip(v.get("init"))
                    st[v["d"]] = [len(init.get("a", [])) if init is not None and init.get("k") == "InitList" else 0, v.get("i", v["d"]), 0]
                elif v.get("init") is not None and not v.get("ref"):
                    so = self.size_of(v["init"], st)
                    if so is not None and so[1] == 0 and so[0] in st:
                        self.sizevars[v["d"]] = (so[0], st[so[0]][1], st[so[0]][2])
            return st
        if k == "If":
            if st_node.get("init") is not None:
                st = self.run(st_node["init"], st)
            st = self.scan(st_node["c"], st)
            a = self.run(st_node.get("then"), self.refine(st_node["c"], True, st))
            b = self.refine(st_node["c"], False, st)
            if st_node.get("else") is not None:
                b = self.run(st_node["else"], b)
            return self.join(a, b)
        if k in ("Return", "Throw"):
            self.scan(st_node.get("e"), st) if st_node.get("e") is not None else None
            return None
        if k in ("Break", "Continue"):
            return None          # leaves the block; the loop handling below is conservative about what follows the loop
        if k in ("For", "While", "Do", "ForRange", "Switch"):
            if st_node.get("init") is not None:
                st = self.run(st_node["init"], st) if st_node["init"].get("k") == "Decl" else self.scan(st_node["init"], st)
            if st_node.get("range") is not None:
                st = self.scan(st_node["range"], st)
            st = self.copy(st)
            for d in self.mutated_in(st_node):
                if d in st:
                    st[d] = [0, -1 - st_node["i"], 0]
            inner = st
            if st_node.get("c") is not None and k in ("For", "While"):
                inner = self.refine(st_node["c"], True, self.scan(st_node["c"], st))
            elif st_node.get("c") is not None:
                self.scan(st_node["c"], st)
            self.run(st_node.get("body"), self.copy(inner))
            if st_node.get("inc") is not None:
                self.scan(st_node["inc"], self.copy(inner))
            return st
        if k in ("Case", "Default", "Attributed", "OMP"):
            return self.run(st_node.get("s") if st_node.get("s") is not None else st_node.get("body"), st)
        if k == "Try":
            for c in featlib.children(st_node):
                st = self.join(st, self.run(c, self.copy(st)))
            return st
        if featlib.is_call(st_node) and st_node.get("noreturn"):
            self.scan(st_node, st)
            return None
        return self.scan(st_node, st)


# -------------------------------------------------------------------------------------------------
# path facts: "which value did this call return on the paths that reach a given exit"
# -------------------------------------------------------------------------------------------------
class FactPaths:
    """Walks the statement tree of one function and tracks, per path, the outcome of designated calls (the facts; usually one):
    'T' = it succeeded (bool kind: returned true; cmp0 kind: compared equal, i.e. returned 0; npos kind: `== npos`), 'F' = it did
    not, 'U' = not evaluated on this path.  With several facts an outcome is a string with one letter per fact (correlated).
    Conditions are split by polarity (`!`, `&&`, `||`, `== / != 0|true|false|npos`, const locals holding the result, a test of it
    or a boolean expression over it).  Collects every normal exit (Return nodes and falling off the end) and, optionally, every
    watched node with the set of outcomes possible where it is evaluated."""

    def __init__(self, fn, is_fact, kind, watch=None, more_facts=()):
        self.fn = fn
        self.facts = [(is_fact, kind)] + list(more_facts)
        self.is_fact, self.kind = is_fact, kind
        self.watch = watch         # optional predicate on nodes: every such node is recorded with the outcomes possible where it is evaluated
        self.watched = []          # (node, frozenset of outcomes)
        self.expr_alias = {}       # bool locals initialised with an expression over the facts (conjunctions ...): decl id -> initialiser
        self.aliases = {}          # decl ids of locals initialised with a fact call -> fact index
        self.pol_alias = {}        # decl ids of bool locals initialised with a test of a fact -> (fact index, polarity)
        self.exits = []            # (return node | None, frozenset of outcomes)
        self.unknown = []          # conditions that mention a fact but are not understood
        self.ncalls = sum(1 for n in fn.nodes() if is_fact(n))

    @staticmethod
    def strip(n):
        while n is not None and (n.get("k") == "Cast" or (n.get("k") in ("Construct", "TempObj") and len(n.get("a", [])) == 1 and n.get("ccls") in ("bool", "int"))):
            n = n["e"] if n.get("k") == "Cast" else n["a"][0]
        return n

    def fact_of(self, n):
        """index of the fact whose call (or raw-result local) n is, else None"""
        if n is None:
            return None
        for i, (isf, _) in enumerate(self.facts):
            if isf(n):
                return i
        if n.get("k") == "Ref" and n.get("d") in self.aliases:
            return self.aliases[n["d"]]
        return None

    def mentions(self, n):
        return any(self.fact_of(x) is not None or (x.get("k") == "Ref" and (x.get("d") in self.pol_alias or x.get("d") in self.expr_alias)) for x in featlib.walk(n))

    def atom(self, c):
        """(fact index, +1) : c is true exactly when that fact succeeded; (i, -1): exactly when it failed; None: not an atom"""
        c = self.strip(c)
        if c is None:
            return None
        if c.get("k") == "Ref" and c.get("d") in self.pol_alias:
            return self.pol_alias[c["d"]]
        i = self.fact_of(c)
        if i is not None:
            kind = self.facts[i][1]
            if kind == "npos":
                return None
            return (i, 1 if kind == "bool" else -1)          # a bare compare result is true when it is non-zero (mismatch)
        if c.get("k") == "Bin" and c.get("op") in ("==", "!="):
            for a, b in ((c["lhs"], c["rhs"]), (c["rhs"], c["lhs"])):
                a, b = self.strip(a), self.strip(b)
                i = self.fact_of(a)
                if i is None or b is None:
                    continue
                kind = self.facts[i][1]
                if kind == "npos":
                    # `s.find_first_not_of(...) == npos`: success = nothing but the allowed characters
                    if b.get("k") in ("Member", "Ref") and b.get("n") == "npos":
                        return (i, 1 if c["op"] == "==" else -1)
                    continue
                if b.get("k") in ("Int", "Bool"):
                    v = int(b["v"]) if b["k"] == "Int" else int(bool(b["v"]))
                    if kind == "bool":
                        p = 1 if v else -1
                    elif v == 0:
                        p = 1
                    else:
                        return None
                    return (i, p if c["op"] == "==" else -p)
        return None

    @staticmethod
    def _expand(S, i):
        out = set()
        for o in S:
            if o[i] == "U":
                out.add(o[:i] + "T" + o[i + 1:])
                out.add(o[:i] + "F" + o[i + 1:])
            else:
                out.add(o)
        return out

    def split(self, c, S):
        """-> (outcomes on the true edge, outcomes on the false edge)"""
        c = self.strip(c)
        if c is None:
            return S, S
        if c.get("k") == "Un" and c.get("op") == "!":
            t, f = self.split(c["e"], S)
            return f, t
        if c.get("k") == "Bin" and c.get("op") == "&&":
            t1, f1 = self.split(c["lhs"], S)
            t2, f2 = self.split(c["rhs"], t1)
            return t2, f1 | f2
        if c.get("k") == "Bin" and c.get("op") == "||":
            t1, f1 = self.split(c["lhs"], S)
            t2, f2 = self.split(c["rhs"], f1)
            return t1 | t2, f2
        if c.get("k") == "Ref" and c.get("d") in self.expr_alias:
            return self.split(self.expr_alias[c["d"]], S)          # a const bool local: same truth value as its initialiser
        p = self.atom(c)
        if p is not None:
            i, pol = p
            S2 = self._expand(S, i)
            t = {o for o in S2 if o[i] == ("T" if pol > 0 else "F")}
            return t, S2 - t
        if self.mentions(c):
            self.unknown.append(c)
        return S, S

    def visit_expr(self, n, S):
        """records the watched nodes inside an expression with the outcomes possible where each is evaluated (short-circuit aware)"""
        if n is None or self.watch is None or not S:
            return
        k = n.get("k")
        if self.watch(n):
            self.watched.append((n, frozenset(S)))
        if k == "Lambda":
            return
        if k == "Bin" and n.get("op") in ("&&", "||"):
            self.visit_expr(n["lhs"], S)
            t, f = self.split(n["lhs"], S)
            self.visit_expr(n["rhs"], t if n["op"] == "&&" else f)
            return
        if k == "Cond":
            self.visit_expr(n["c"], S)
            t, f = self.split(n["c"], S)
            self.visit_expr(n["then"], t)
            self.visit_expr(n["else"], f)
            return
        for c in featlib.children(n):
            self.visit_expr(c, S)

    def evaluated(self, n, S):
        """an expression statement / initialiser that contains a fact call evaluates it"""
        if n is None:
            return S
        for i, (isf, _) in enumerate(self.facts):
            if any(isf(x) for x in featlib.walk(n)):
                S = self._expand(S, i)
        return S

    def run(self, st, S):
        if st is None or not S:
            return S
        k = st.get("k")
        if k == "Block":
            for x in st.get("s", []):
                S = self.run(x, S)
            return S
        if k == "Decl":
            for v in st.get("vars", []):
                init = self.strip(v.get("init"))
                self.visit_expr(v.get("init"), S)
                if init is not None and self.fact_of(init) is not None and init.get("k") != "Ref" and not v.get("ref"):
                    self.aliases[v["d"]] = self.fact_of(init)
                elif init is not None and not v.get("ref") and self.atom(init) is None and self.mentions(init) and (self.fn.type(v["t"]) or "").replace("const ", "").strip() == "bool":
                    self.expr_alias[v["d"]] = init
                    t_, f_ = self.split(init, S)        # evaluates the facts in short-circuit order
                    S = t_ | f_
                elif init is not None and not v.get("ref") and self.atom(init) is not None:
                    self.pol_alias[v["d"]] = self.atom(init)
                    t_, f_ = self.split(init, S)
                    S = t_ | f_
                elif init is not None:
                    S = self.evaluated(init, S)
            return S
        if k == "If":
            self.visit_expr(st["c"], S)
            t, f = self.split(st["c"], S)
            a = self.run(st.get("then"), set(t))
            b = self.run(st.get("else"), set(f)) if st.get("else") is not None else set(f)
            return a | b
        if k == "Return":
            e = st.get("e")
            self.visit_expr(e, S)
            S2 = S
            if e is not None and self.atom(e) is None:
                S2 = self.evaluated(e, S)
            self.exits.append((st, frozenset(S2)))
            return set()
        if k == "Throw" or (featlib.is_call(st) and st.get("noreturn")):
            return set()
        if k in ("For", "While", "Do", "ForRange", "Switch", "Try"):
            if self.mentions(st):
                self.unknown.append(st)
            self.visit_expr(st, S)
            return S
        if k in ("Case", "Default", "Attributed"):
            return self.run(st.get("s"), S)
        if k == "Assign" and self.strip(st.get("lhs")) is not None and (self.strip(st["lhs"]).get("d") in self.aliases or self.strip(st["lhs"]).get("d") in self.expr_alias
                                                                       or self.strip(st["lhs"]).get("d") in self.pol_alias):
            self.unknown.append(st)
        self.visit_expr(st, S)
        return self.evaluated(st, S)

    def analyse(self):
        rest = self.run(self.fn.body, {"U" * len(self.facts)})
        if rest:
            self.exits.append((None, frozenset(rest)))
        return self


def check_token_access(ck, facts):
    RULE = "E7.token-access"
    done = set()
    for f in sorted(facts.functions, key=lambda f: f.full):
        if f.tk == "pattern" or f.body is None or "/kernel/cubature/" not in f.file:
            continue
        src = (f.file, f.line)
        if src in done:
            continue         # instantiations of one source function are one instance
        ts = _TokenSizes(f)
        if not ts.cont:
            continue
        done.add(src)
        fname = "%s::%s" % (strip_targs(f.cls).replace("FEAT::Cubature::", ""), f.name)
        ts.run(f.body, {d: [0, -1, 0] for d in ts.cont if ts.cont[d].get("k") != "Var"})
        for text, line in ts.unmodelled:
            ck.incomplete(RULE, "%s: %s (line %s) is not modelled" % (fname, text, line))
        count = {}
        for nid, (need, lb, d, what, line) in sorted(ts.sites.items(), key=lambda kv: (kv[1][4] or 0, kv[0])):
            slot = (ts.order[d], what)
            count[slot] = count.get(slot, 0) + 1
            key = "%s/tokens#%d.%s#%d" % (fname, ts.order[d] + 1, what, count[slot])
            var = ts.cont[d].get("n", "?")
            ok = lb >= need
            ck.ob(RULE, key, ok, ("`%s.%s` needs %d element(s), established on every path: %d" % (var, what, need, lb)) if ok else
                  ("`%s.%s` (line %s) needs %d element(s) but on some path only size >= %d is established: the token list is empty/shorter for a malformed name (String::split_by_* "
                   "returns no token for an empty string), the access is undefined behaviour instead of a refusal" % (var, what, line, need, lb)), f.file, line)


# -------------------------------------------------------------------------------------------------
# parsed quantities are not narrowed before they are range-checked (E7.parsed-narrowing)
# -------------------------------------------------------------------------------------------------
INT_MAX = {"bool": 1, "char": 127, "signed char": 127, "unsigned char": 255, "short": 2 ** 15 - 1, "unsigned short": 2 ** 16 - 1,
           "int": 2 ** 31 - 1, "unsigned int": 2 ** 32 - 1, "unsigned": 2 ** 32 - 1, "long": 2 ** 63 - 1, "unsigned long": 2 ** 64 - 1,
           "long long": 2 ** 63 - 1, "unsigned long long": 2 ** 64 - 1, "FEAT::Index": 2 ** 64 - 1, "Index": 2 ** 64 - 1,
           "std::size_t": 2 ** 64 - 1, "size_t": 2 ** 64 - 1, "std::uint64_t": 2 ** 64 - 1, "std::uint32_t": 2 ** 32 - 1,
           "std::int64_t": 2 ** 63 - 1, "std::int32_t": 2 ** 31 - 1}


def int_max(ty):
    t = re.sub(r"\bconst\b|&", "", ty or "").replace(" int", "" if (ty or "").strip() not in ("int", "const int", "unsigned int") else " int").strip()
    t = re.sub(r"\s+", " ", t)
    if t in INT_MAX:
        return INT_MAX[t]
    t2 = re.sub(r"\s+", " ", re.sub(r"\bconst\b|&", "", ty or "")).strip()
    return INT_MAX.get(t2, INT_MAX.get(t2.replace(" int", "")))


def _strip_casts_all(n):
    while n is not None and n.get("k") == "Cast":
        n = n["e"]
    return n


def _const_of(n):
    n = _strip_casts_all(n)
    while n is not None and n.get("k") in ("Construct", "TempObj") and len(n.get("a", [])) == 1:
        n = _strip_casts_all(n["a"][0])
    if n is None:
        return None
    if n.get("k") == "Int":
        return int(n["v"])
    if n.get("k") == "Ref" and "v" in n:
        return int(n["v"])
    return None


def _upper_bounds(c, d, pol):
    """upper bounds K such that (c has truth value pol) implies variable d <= K"""
    c = _strip_casts_all(c)
    if c is None:
        return []
    if c.get("k") == "Un" and c.get("op") == "!":
        return _upper_bounds(c["e"], d, not pol)
    if c.get("k") == "Bin" and c.get("op") in ("&&", "||"):
        if (c["op"] == "&&") == pol:          # both operands have truth value pol
            return _upper_bounds(c["lhs"], d, pol) + _upper_bounds(c["rhs"], d, pol)
        return []
    if c.get("k") == "Bin" and c.get("op") in ("<", "<=", ">", ">=", "=="):
        flip = {"<": ">", ">": "<", "<=": ">=", ">=": "<=", "==": "=="}
        neg = {"<": ">=", ">": "<=", "<=": ">", ">=": "<", "==": "!="}
        for a, b, op in ((c["lhs"], c["rhs"], c["op"]), (c["rhs"], c["lhs"], flip[c["op"]])):
            a = _strip_casts_all(a)
            k = _const_of(b)
            if a is not None and a.get("k") == "Ref" and a.get("d") == d and k is not None and not (_strip_casts_all(c["lhs"]) is not a and _strip_casts_all(c["rhs"]) is not a):
                o = op if pol else neg[op]
                if o == "<=" or o == "==":
                    return [k]
                if o == "<":
                    return [k - 1]
    return []


def _exits14(st):
    if st is None:
        return False
    if st.get("k") in ("Return", "Throw"):
        return True
    if st.get("k") == "Block":
        return any(_exits14(x) for x in st.get("s", []))
    return featlib.is_call(st) and bool(st.get("noreturn"))


def _bound_at(fn, d, use):
    """least upper bound on variable d established on every path to node `use` (conditions of enclosing ifs and of earlier early-outs)"""
    best = []

    def find(n, acc):
        if n is use:
            return acc
        for key_, c in ((k_, v_) for k_, v_ in n.items() if isinstance(v_, (dict, list))):
            items = c if isinstance(c, list) else [c]
            for idx, ch in enumerate(items):
                if not (isinstance(ch, dict) and "k" in ch):
                    continue
                extra = []
                if n.get("k") == "If" and key_ in ("then", "else"):
                    extra = _upper_bounds(n["c"], d, key_ == "then")
                if n.get("k") == "Block" and key_ == "s":
                    for prev in items[:idx]:
                        if isinstance(prev, dict) and prev.get("k") == "If":
                            if _exits14(prev.get("then")) and not _exits14(prev.get("else")):
                                extra += _upper_bounds(prev["c"], d, False)
                            elif prev.get("else") is not None and _exits14(prev.get("else")) and not _exits14(prev.get("then")):
                                extra += _upper_bounds(prev["c"], d, True)
                if n.get("k") == "Bin" and n.get("op") in ("&&", "||") and key_ == "rhs":
                    extra = _upper_bounds(n["lhs"], d, n["op"] == "&&")
                if n.get("k") == "Cond" and key_ in ("then", "else"):
                    extra = _upper_bounds(n["c"], d, key_ == "then")
                r = find(ch, acc + extra)
                if r is not None:
                    return r
        return None
    r = find(fn.body, [])
    return min(r) if r else None


def _narrowings(facts_fns, fn, d, src_max, depth, seen):
    """uses of the variable d (holding a parsed quantity of type maximum src_max) that convert it to a narrower integer type
    without an established bound: -> [(fn, node, target type, bound)]; the value is followed into same-width copies and callee parameters"""
    out = []
    if (fn.full, d) in seen or depth > 3:
        return out
    seen.add((fn.full, d))

    def judge(node, ty):
        m = int_max(ty)
        if m is not None and m < src_max:
            b = _bound_at(fn, d, node)
            if b is None or b > m:
                out.append((fn, node, ty, b))
            return True
        return False
    for x in fn.nodes():
        k = x.get("k")
        if k == "Cast" and _strip_casts_all(x).get("k") == "Ref" and _strip_casts_all(x).get("d") == d and x.get("e", {}).get("k") != "Cast":
            judge(x, x.get("to") or "")
        if k == "Var" and not x.get("ref") and x.get("init") is not None:
            i0 = _strip_casts_all(x["init"])
            while i0 is not None and i0.get("k") in ("Construct", "TempObj") and len(i0.get("a", [])) == 1:
                i0 = _strip_casts_all(i0["a"][0])
            if i0 is not None and i0.get("k") == "Ref" and i0.get("d") == d and x["d"] != d:
                if not judge(x, fn.type(x["t"])) and int_max(fn.type(x["t"])) is not None:
                    out.extend(_narrowings(facts_fns, fn, x["d"], min(src_max, int_max(fn.type(x["t"]))), depth, seen))
        if featlib.is_call(x) and k != "OpCall":
            pts = [fn.type(t) for t in x.get("pt", [])]
            for i, a in enumerate(x.get("a", [])):
                if a.get("k") == "Ref" and a.get("d") == d and i < len(pts):      # explicit casts are judged above
                    pt = pts[i]
                    if pt.rstrip().endswith("&") and not pt.lstrip().startswith("const "):
                        continue            # the out-parameter of parse itself
                    if not judge(a, pt) and int_max(pt) is not None:
                        t = facts_fns.get(x.get("cdecl"))
                        if t is not None and i < len(t.params):
                            out.extend(_narrowings(facts_fns, t, t.params[i]["d"], min(src_max, int_max(pt)), depth + 1, seen))
    return out


def check_parsed_narrowing(ck, facts):
    RULE = "E7.parsed-narrowing"
    by_decl = {f.d.get("decl"): f for f in facts.functions if f.tk != "pattern" and f.body is not None and f.d.get("decl") is not None}
    seen_keys = {}
    for f in facts.functions:
        if f.tk == "pattern" or "/kernel/cubature/" not in f.file:
            continue
        for n in f.nodes():
            if not (n.get("k") == "MCall" and n.get("n") == "parse" and n.get("callee", "").endswith("String::parse") and n.get("a")):
                continue
            a = n["a"][0]
            ty = f.ntype(a)
            m = int_max(ty)
            if m is None or a.get("k") != "Ref":
                continue          # only integer quantities parsed into a named variable
            key = "%s::%s/%s" % (strip_targs(f.cls), f.name, featlib.render(a))
            bad = _narrowings(by_decl, f, a["d"], m, 0, set())
            ok = not bad
            if seen_keys.get(key) == ok:
                continue
            seen_keys[key] = ok
            if bad:
                g, node, tgt, b = bad[0]
                detail = ("the parsed %s `%s` is converted to %s at %s:%s `%s` %s: a value that does not fit wraps around BEFORE any range check sees it, so an out-of-range parameter "
                          "(e.g. 2^32 + n) is answered with the rule for n instead of being refused" % (
                              ty, featlib.render(a), tgt, rel(g.file), node.get("l"), featlib.render(node)[:60],
                              "without a bound on the value" if b is None else "although only `<= %d` is established" % b))
                # the finding is identified by the place of the conversion, not only by the parsed variable
                gcls = g.cls if g.tk != "inst" else strip_targs(g.cls)       # members of explicit specialisations are source functions of their own
                vkey = "%s@%s::%s/%s" % (key, re.sub(r"FEAT::(Cubature::|Shape::)?(Intern::)?", "", gcls), g.name, re.sub(r"\s+", " ", tgt).strip())
                ck.ob(RULE, vkey, False, detail, g.file, node.get("l"))
            else:
                ck.ob(RULE, key, True, "the parsed %s reaches its consumers (followed into same-width copies and callee parameters) without an unchecked narrowing conversion" % ty, f.file, n.get("l"))


def run(tier):
    ck = Check("C14", tier)
    ck.rule("E9.extract", "every (factory, n) entry point of the cubature layer folds to a complete constant table: the rule is created with count(n) points, every point index receives exactly one weight and dim coordinates, none outside the table", 100)
    ck.rule("E9.weight-sum", "the weights of every rule sum to the volume of the reference cell (simplex 1/d!, hypercube 2^d, scalar 2) to the precision of the literals", 100)
    ck.rule("E9.orbit-sum", "barycentric orbit arguments of symmetric-simplex fills sum to one (x0+2*x1 resp. x0+x1+x2 = 1), so that the generated points lie on the simplex symmetry orbits", 60)
    ck.rule("E9.exactness", "every monomial of total degree <= the nominal degree of the rule is integrated exactly to the precision of the literals", 80)
    ck.rule("E9.range-refused", "factory create(rule, n) returns false for n outside [min_points, max_points] and true inside", 20)
    ck.rule("E9.tensor", "tensor-product rules are exact products: point (i,j,k) has weight w_i*w_j*w_k and coordinates (x_i,x_j,x_k), every index combination exactly once", 10)
    ck.rule("E9.refine", "refine:<rule> keeps the weight sum and the degree of its base rule", 10)
    ck.rule("E13.auto-degree", "auto-degree:d maps, for every d <= max_degree, to a rule whose established degree is >= d", 30)
    ck.rule("E7.unknown-refused", "DynamicFactory::create returns true only through a factory whose name comparison succeeded; create_throw throws on false", 6)
    ck.rule("E1.rule-model", "the Rule / Scalar::Rule operations that the folder models natively (accessors, allocating constructor, move "
            "constructor, move assignment, clone) conform to the model: every role (count, name, weights, points) of the result is defined from the "
            "same role of the source", 36)
    ck.rule("E13.alias-identity", "every alias name a factory registers (Driver::alias -> functor.alias(name[, points]); found by folding create(rule, name) "
            "through the alias mapper) is answered by create(rule, alias) with the classical formula that name denotes in the literature (oracle table "
            "transcribed from the sources the drivers cite: simpson 3, pulcherrima 4, milne-boole 5, 6-point 6, weddle 7 closed Newton-Cotes points; "
            "midpoint = the one-point barycentre rule): driver, point count and degree of exactness of the named formula - a user asking for 'weddle' "
            "otherwise gets a rule that is not exact to the degree the name promises", 31)
    ck.rule("E7.token-access", "name-parsing code of kernel/cubature: every front()/back()/pop_front()/pop_back()/[k]/at(k) on a token container (std::deque/vector of "
            "String, e.g. the result of String::split_by_string) happens where the container is known to hold enough elements on every path (size()/empty() tests by polarity, "
            "pops and pushes counted) - a malformed name (':' , 'auto-degree::3': an empty token splits into no tokens) must be refused, not run into undefined behaviour", 6)
    ck.rule("E7.parsed-narrowing", "every integer quantity of a rule name read with String::parse (point count, refine count, degree) reaches its range check with the width it was parsed "
            "with: a conversion to a narrower integer type (explicit cast, narrower parameter or local; followed into same-width copies and callee parameters) is preceded on every path by a "
            "check that the value fits - otherwise '<driver>:4294967298' is range-checked as 2 and answered with another rule instead of being refused", 4)
    ck.rule("E7.param-fully-parsed", "every numeric name parameter (point count, refine count, degree) read with String::parse - a prefix parse - is "
            "accepted only if the whole parameter string was validated (digits only), so a malformed name is refused instead of answered with another rule", 4)

    facts = featlib.extract("tu/cubature.cpp", files=CUB + "|/verif/tu/|" + featlib.repo_path("kernel/util/string.hpp"))
    ck.tu(facts)
    bad = facts.errors_in_repo() + facts.errors_outside_repo()
    if bad:
        ck.incomplete("E9.extract", "driver TU tu/cubature.cpp does not compile: %s:%d %s" % (bad[0]["file"], bad[0]["line"], bad[0]["msg"]))

    folder_proto = lambda: TFolder([facts], dict(), dict())

    # ---- discover entry points -----------------------------------------------------------------
    entries = []
    for f in facts.functions:
        if f.tk == "pattern" or f.name != "create" or not f.d.get("static"):
            continue
        base = strip_targs(f.cls)
        if base not in ("FEAT::Cubature::DriverFactory", "FEAT::Cubature::Scalar::DriverFactory",
                        "FEAT::Cubature::TensorProductFactory", "FEAT::Cubature::SimplexScalarFactory"):
            continue
        ptypes = [f.type(p["t"]) for p in f.params]
        if len(f.params) == 1 or (len(f.params) == 2 and ptypes[1] == "int"):
            entries.append(f)
    if len(entries) < 30:
        ck.incomplete("E9.extract", "only %d factory entry points found" % len(entries))

    def body_const(f, member, depth=2, seen=None):
        """value of a static constexpr int member referenced (as Driver::member) in f or its callees"""
        seen = seen if seen is not None else set()
        if f.full in seen:
            return None
        seen.add(f.full)
        for n in f.nodes():
            if n.get("k") == "Ref" and n.get("n") == member and "v" in n:
                return int(n["v"])
        if depth > 0:
            fo = folder_proto()
            for c in f.calls():
                t = fo.lookup(c) if c.get("callee", "").startswith("FEAT::Cubature") else None
                if t is not None:
                    v = body_const(t, member, depth - 1, seen)
                    if v is not None:
                        return v
        return None

    def class_const(cls_re, member):
        for f in facts.functions:
            if f.tk == "pattern":
                continue
            for n in f.nodes():
                if n.get("k") == "Ref" and n.get("n") == member and "v" in n and re.search(cls_re, n.get("qn", "")):
                    return int(n["v"])
        return None

    rules = {}   # (shape_kind, dim, name, n) -> RuleObj
    scalar_rules = {}

    def shape_of(f):
        m = re.search(r"Shape::(Simplex|Hypercube)<(\d)>", f.cls + " " + " ".join(f.type(p["t"]) for p in f.params))
        if m:
            return m.group(1).lower(), int(m.group(2))
        return "scalar", 1

    def check_table(key, r, f, line):
        kind, dim, name, n = key
        inst = "%s/%s:%s" % ("%s%d" % (kind, dim) if kind != "scalar" else "scalar", name, n)
        problems = []
        if r.n is None or r.n <= 0:
            problems.append("rule has no points")
        else:
            for i in range(r.n):
                if i not in r.w:
                    problems.append("weight %d never assigned" % i)
                for j in range(r.dim):
                    if (i, j) not in r.x:
                        problems.append("coordinate (%d,%d) never assigned" % (i, j))
            for k in list(r.w.keys()) + list(r.x.keys()):
                if k == "__obj__":
                    continue
            for what, i, l in r.bad_index:
                problems.append("%s index %d outside the table of %d points (line %s)" % (what, i, r.n, l))
            seen = {}
            for k, l in r.writes:
                seen[k] = seen.get(k, 0) + 1
            dup = [k for k, c in seen.items() if c > 1]
            if dup:
                # a later store overwriting an earlier one (zero-fill followed by the non-zero entries) is fine: the last store
                # wins and the final table is what every identity below is decided on
                ck.note("%s: %d slot(s) stored more than once (last store wins), e.g. %s" % (inst, len(dup), dup[:3]))
        ck.ob("E9.extract", inst, not problems, "; ".join(problems[:5]) if problems else "table complete: %d points x (1 weight + %d coords)" % (r.n, r.dim), f.file, f.line,
              sample={"entry": f.full, "points": r.n, "first_point": [repr(r.w.get(0)), [repr(r.x.get((0, j))) for j in range(r.dim or 0)]]})
        return not problems

    range_obs = 0
    unfolded = set()      # (shape kind, dim) with at least one factory entry that could not be folded: "not a rule" verdicts are not definite there
    for f in sorted(entries, key=lambda f: f.full):
        kind, dim = shape_of(f)
        # factory class -> driver class name()
        cls = f.cls
        variadic = len(f.params) == 2
        if variadic:
            lo, hi = body_const(f, "min_points"), body_const(f, "max_points")
            if lo is None or hi is None:
                ck.incomplete("E9.extract", "min/max_points of %s not found" % cls)
                continue
            ns = list(range(lo - 1, hi + 2))
        else:
            ns = [None]
            lo = hi = None
        void_ret = f.type(f.d.get("ret")) == "void"
        short = strip_targs(cls).rsplit("::", 1)[-1] + "<" + ",".join(re.findall(r"(\w+Driver)\b", cls)[:1]) + ">"
        for n in ns:
            fo = folder_proto()
            r = RuleObj(kind == "scalar", 0, "", dim)
            args = [r] + ([Num(Fraction(n))] if variadic else [])
            inst = "%s%s/%s:%s" % (kind, dim if kind != "scalar" else "", short, n if variadic else "-")
            try:
                ret = fo.rvalue(fo.call_function(f, args))
            except AssertFails as e:
                ck.ob("E9.extract", inst, False, str(e), f.file, f.line)
                continue
            except NotConstant as e:
                ck.incomplete("E9.extract", "%s: not foldable: %s" % (inst, e))
                unfolded.add((kind, dim))
                continue
            if variadic and (n < lo or n > hi):
                if not void_ret:
                    ck.ob("E9.range-refused", inst, ret is False, "create(rule,%d) outside [%d,%d] returned %r" % (n, lo, hi, ret), f.file, f.line)
                continue
            if variadic and not void_ret:
                ck.ob("E9.range-refused", inst, ret is True, "create(rule,%d) inside [%d,%d] returned %r" % (n, lo, hi, ret), f.file, f.line, trivial=True)
            nm = [p for p in r.name.split(":") if p not in ("tensor", "scalar")]
            nm = nm[0] if nm else ""
            if not nm:
                ck.ob("E9.extract", inst, False, "created rule has no name", f.file, f.line)
                continue
            key = (kind, dim, nm, n if variadic else 0)
            if key in rules:
                continue
            if not check_table(key, r, f, f.line):
                continue
            if kind == "scalar":
                scalar_rules[(nm, key[3])] = r
            fills = [g for g in fo.inlined_fns if g.name == "fill"]
            rules[key] = (r, fills[0] if fills else f)

    # ---- composed factories: tensor product / simplex-scalar, fed with every folded scalar rule -------
    scalar_by_driver = {}
    big_tensor = []
    for (k_, d_, nm_, n_), (r_, f_) in rules.items():
        if k_ == "scalar":
            m = re.search(r"(FEAT::Cubature::Scalar::\w+Driver)\b", f_.cls)
            if m:
                scalar_by_driver.setdefault(m.group(1), []).append((nm_, n_, r_))
    for f in sorted(facts.functions, key=lambda f: f.full):
        if f.tk == "pattern" or f.name != "create" or len(f.params) != 2:
            continue
        base = strip_targs(f.cls)
        if base not in ("FEAT::Cubature::TensorProductFactoryBase", "FEAT::Cubature::SimplexScalarFactoryBase"):
            continue
        if "Scalar::Rule<" not in f.type(f.params[1]["t"]):
            continue
        kind, dim = shape_of(f)
        if base.endswith("SimplexScalarFactoryBase"):
            kind, dim = "simplex", 1
        m = re.search(r"<(FEAT::Cubature::Scalar::\w+)", f.cls)
        if not m or m.group(1) not in scalar_by_driver:
            ck.incomplete("E9.extract", "no scalar rules for %s" % f.cls)
            continue
        for nm_, n_, sr in sorted(scalar_by_driver[m.group(1)], key=lambda t: t[1]):
            inst = "%s%d/%s<%s>:%s" % (kind, dim, base.rsplit("::", 1)[-1], m.group(1).rsplit("::", 1)[-1], n_ if n_ else "-")
            if kind == "hypercube" and sr.n ** dim > (1000 if tier == "quick" else 8000):
                big_tensor.append((kind, dim, nm_, n_, f))
                continue
            fo = folder_proto()
            r = RuleObj(False, 0, "", dim)
            try:
                fo.call_function(f, [r, sr])
            except AssertFails as e:
                ck.ob("E9.extract", inst, False, str(e), f.file, f.line)
                continue
            except NotConstant as e:
                ck.incomplete("E9.extract", "%s: not foldable: %s" % (inst, e))
                continue
            nm = [p for p in r.name.split(":") if p not in ("tensor", "scalar")]
            nm = nm[0] if nm else ""
            key = (kind, dim, nm, n_)
            if nm != nm_:
                ck.ob("E9.extract", inst, False, "composed rule is named %r, scalar rule %r" % (r.name, sr.name), f.file, f.line)
                continue
            if key in rules:
                continue
            if not check_table(key, r, f, f.line):
                continue
            rules[key] = (r, f)

    degrees = {}
    tensor_ok = {}
    # ---- tensor structure ---------------------------------------------------------------------------
    for key in sorted(rules):
        kind, dim, nm, n = key
        if kind != "hypercube":
            continue
        r, f = rules[key]
        sr = scalar_rules.get((nm, n))
        inst = "hypercube%d/%s:%s" % (dim, nm, n if n else "-")
        if sr is None:
            if nm in ("barycentre", "trapezoidal"):
                continue
            ck.incomplete("E9.tensor", "%s: scalar base rule not found" % inst)
            continue
        m = sr.n
        okc = r.n == m ** dim
        seen = set()
        detail = ""
        if okc:
            import itertools
            for l in range(r.n):
                # identify the index tuple through exact equality of the coordinate values
                idx = []
                for j in range(dim):
                    c = r.x[(l, j)]
                    cand = [i for i in range(m) if sr.x[(i, 0)].f() == c.f()]
                    if len(cand) != 1:
                        okc = False
                        detail = "point %d coordinate %d is not a coordinate of the scalar rule" % (l, j)
                        break
                    idx.append(cand[0])
                if not okc:
                    break
                prod = Num(Fraction(1))
                for i in idx:
                    prod = prod * sr.w[i]
                dd = r.w[l] - prod
                if abs(dd.f()) > mpmath.mpf(10) ** -50:
                    okc = False
                    detail = "weight of point %d is not the product of the scalar weights %s" % (l, idx)
                    break
                seen.add(tuple(idx))
            if okc and len(seen) != m ** dim:
                okc = False
                detail = "index combinations not all distinct"
        else:
            detail = "rule has %d points, expected %d^%d" % (r.n, m, dim)
        ck.ob("E9.tensor", inst, okc, detail or "%d^%d product structure verified" % (m, dim), f.file, f.line)
        tensor_ok[key] = okc

    # ---- weight sums, exactness -----------------------------------------------------------------
    maxprobe_extra = 1 if tier == "quick" else 2
    for key in sorted(rules, key=lambda k: (k[0] != "scalar", k[0], k[1], k[2], k[3])):
        r, f = rules[key]
        kind, dim, nm, n = key
        inst = "%s%s/%s:%s" % (kind, dim if kind != "scalar" else "", nm, n if n else "-")
        skind = "simplex" if kind == "simplex" else "cube"
        vol = exact_integral(skind, dim, (0,) * dim)
        s = Num(Fraction(0))
        for i in range(r.n):
            s = s + r.w[i]
        diff = s - Num(vol)
        ok = abs(diff.f()) <= diff.ferr() * mpmath.mpf("1.05") + mpmath.mpf(10) ** -55
        ck.ob("E9.weight-sum", inst, ok, "sum of weights = %s, reference volume = %s (difference %s, literal precision %s)" % (
            mpmath.nstr(s.f(), 18), vol, mpmath.nstr(diff.f(), 5), mpmath.nstr(diff.ferr(), 3)), f.file, f.line,
            sample={"sum": mpmath.nstr(s.f(), 20), "volume": str(vol)})
        nom = nominal_degree(nm, n if n else (round(r.n ** (1.0 / dim)) if kind == "hypercube" else r.n))
        tensor = kind == "hypercube" and dim > 1 and tensor_ok.get(key)
        # brute-force moments are skipped for big verified product rules: a product rule integrates x^a y^b z^c
        # exactly iff the scalar rule integrates each factor, so its degree is the scalar degree
        if tensor and r.n > (100 if tier == "quick" else 1000):
            sd = degrees.get(("scalar", 1, nm, n))
            degrees[key] = sd
            if nom is not None and sd is not None:
                ck.ob("E9.exactness", inst, sd >= nom, "verified product rule: degree = scalar degree %d, nominal %d" % (sd, nom), f.file, f.line)
            continue
        probe = (nom if nom is not None else 8) + maxprobe_extra
        probe = min(probe, 45)
        if tensor:
            # tensor rules: per-variable degree; probing total degree nom is what the property asks
            pass
        D, fail = achieved_degree(r, skind, probe)
        degrees[key] = D
        if nom is not None:
            detail = "achieved degree %d, nominal %d" % (D, nom)
            if fail and D < nom:
                detail += "; first failing monomial exponents %s: residual %s > literal precision %s" % (fail[0], mpmath.nstr(fail[1], 5), mpmath.nstr(fail[2], 3))
            ck.ob("E9.exactness", inst, D >= nom, detail, f.file, f.line, sample={"achieved": D, "nominal": nom, "points": r.n})
        else:
            ck.note("%s: achieved degree %d (no nominal law recorded)" % (inst, D))

    # big product rules not folded in this tier: degree from the scalar rule, given that the same fill
    # function was verified to produce exact product rules for every smaller n
    for kind, dim, nm_, n_, f in big_tensor:
        key = (kind, dim, nm_, n_)
        smaller = [k for k in tensor_ok if k[0] == kind and k[1] == dim and k[2] == nm_]
        inst = "%s%d/%s:%s" % (kind, dim, nm_, n_)
        if not smaller or not all(tensor_ok[k] for k in smaller):
            ck.incomplete("E9.tensor", "%s: product structure not established for smaller n" % inst)
            continue
        sd = degrees.get(("scalar", 1, nm_, n_))
        degrees[key] = sd
        rules.setdefault(key, (None, f))
        nom = nominal_degree(nm_, n_)
        if nom is not None and sd is not None:
            ck.ob("E9.exactness", inst, sd >= nom, "product rule (structure verified by folding for %d smaller point counts in this tier; all in thorough): scalar degree %d, nominal %d" % (len(smaller), sd, nom), f.file, f.line)

    # ---- orbit sums of symmetric-simplex fills (Dunavant etc.) -------------------------------------
    for f in facts.functions:
        if f.tk == "pattern" or f.name != "fill":
            continue
        for c in f.calls(name=None):
            cn = c.get("callee", "").rsplit("::", 1)[-1]
            if cn not in ("fill_sym2", "fill_sym3", "fill_sym1"):
                continue
            fo = folder_proto()
            try:
                vals = [fo.num(fo.eval(a, {}, f)) for a in c["a"][3:]]
            except NotConstant:
                continue
            mult = {"fill_sym1": [3], "fill_sym2": [1, 2], "fill_sym3": [1, 1, 1]}[cn]
            if len(vals) != len(mult):
                continue
            s = Num(Fraction(0))
            for v, m in zip(vals, mult):
                s = s + v * m
            d = s - 1
            ok = abs(d.f()) <= d.ferr() * mpmath.mpf("1.05") + mpmath.mpf(10) ** -55
            inst = "%s/%s(%s)" % (strip_targs(f.cls).rsplit("::", 1)[-1], cn, ",".join(featlib.render(a) for a in c["a"][3:]))
            ck.ob("E9.orbit-sum", inst, ok, "barycentric coordinates sum to %s (should be 1; literal precision %s)" % (mpmath.nstr(s.f(), 17), mpmath.nstr(d.ferr(), 3)), f.file, c.get("l"))

    # ---- refine -------------------------------------------------------------------------------------
    core = [f for f in facts.functions if f.tk != "pattern" and f.name == "create" and strip_targs(f.cls) == "FEAT::Cubature::RefineFactoryCore"]
    core_by_shape = {}
    for f in core:
        core_by_shape[shape_of(f)] = f
    nref = 0
    for key in sorted(rules):
        kind, dim, nm, n = key
        if kind == "scalar":
            continue
        r, f = rules[key]
        if r is None:
            continue
        cf = core_by_shape.get((kind, dim))
        if cf is None:
            continue
        if r.n > (30 if tier == "quick" else 200):
            continue
        if degrees.get(key) is None:
            continue
        for k in ([1] if tier == "quick" else [1, 2]):
            if r.n * (12 ** k if (kind, dim) == ("simplex", 3) else (2 ** dim) ** k) > 3000:
                continue
            fo = folder_proto()
            out = RuleObj(False, 0, "", dim)
            inst = "%s%d/refine*%d:%s:%s" % (kind, dim, k, nm, n if n else "-")
            try:
                fo.call_function(cf, [out, r, Num(Fraction(k))])
            except (NotConstant, AssertFails) as e:
                ck.incomplete("E9.refine", "%s: %s" % (inst, e))
                continue
            if not check_table((kind, dim, "refine*%d:%s" % (k, nm), n), out, cf, cf.line):
                continue
            skind = "simplex" if kind == "simplex" else "cube"
            base_deg = degrees[key]
            nom = nominal_degree(nm, n if n else r.n)
            want = min(base_deg, nom) if nom is not None else base_deg
            D, fail = achieved_degree(out, skind, want)
            detail = "refined rule (%d points): achieved degree %d, base rule %d" % (out.n, D, want)
            if fail:
                detail += "; failing monomial %s residual %s > %s" % (fail[0], mpmath.nstr(fail[1], 5), mpmath.nstr(fail[2], 3))
            ck.ob("E9.refine", inst, D >= want, detail, cf.file, cf.line)
            nref += 1

    # ---- auto-degree ----------------------------------------------------------------------------------
    for f in facts.functions:
        if f.name != "choose" or "AutoDegree" not in f.cls or f.tk == "pattern":
            continue
        kind, dim = shape_of(f)
        m = re.search(r"AutoDegree<(.*)>$", f.cls)
        maxd = class_const(re.escape(f.cls) + "::max_degree$", "max_degree")
        if maxd is None and m:
            maxd = class_const(re.escape("AutoAlias<%s>" % m.group(1)) + "::max_auto_degree$", "max_auto_degree")
        if maxd is None:
            # read the initialiser constant through any reference in AutoAlias
            ck.incomplete("E13.auto-degree", "max_degree of %s not found" % f.cls)
            continue
        for d in range(0, maxd + 1):
            fo = folder_proto()
            inst = "%s%d/auto-degree:%d" % (kind, dim, d)
            try:
                nm = fo.rvalue(fo.call_function(f, [Num(Fraction(d))]))
            except (NotConstant, AssertFails) as e:
                ck.incomplete("E13.auto-degree", "%s: %s" % (inst, e))
                continue
            if not isinstance(nm, str):
                ck.incomplete("E13.auto-degree", "%s: choose() did not fold to a string" % inst)
                continue
            parts = nm.split(":")
            base = parts[0] if parts[0] not in ("tensor", "scalar") else parts[1]
            pn = int(parts[-1]) if parts[-1].isdigit() else 0
            key = (kind, dim, base, pn)
            if key not in rules and (kind, dim) in unfolded:
                ck.incomplete("E13.auto-degree", "%s: maps to '%s', and not every factory of this shape could be folded" % (inst, nm))
                continue
            if key not in rules:
                ck.ob("E13.auto-degree", inst, False, "auto-degree:%d maps to '%s' which is not a rule the factories create for this shape" % (d, nm), f.file, f.line)
                continue
            got = degrees.get(key)
            if got is None:
                got = degrees.get(("scalar", 1, base, pn))
            if got is None:
                ck.incomplete("E13.auto-degree", "%s: degree of %s not established" % (inst, nm))
                continue
            # degrees[] is capped at nominal+probe; compare with min(nominal, achieved)
            ck.ob("E13.auto-degree", inst, got >= d, "auto-degree:%d -> %s with established degree %s" % (d, nm, got), f.file, f.line,
                  sample={"degree": d, "alias": nm, "established": got})

    # ---- unknown names are refused ------------------------------------------------------------------------
    for f in facts.functions:
        if f.tk == "pattern":
            continue
        if f.name == "create_throw" and "DynamicFactory" in f.cls:
            # no normal exit on a path on which create(rule, name) returned false (or was not called)
            fp = FactPaths(f, lambda n: featlib.is_call(n) and n.get("callee", "").endswith("::create") and n.get("k") != "OpCall", "bool").analyse()
            key = "create_throw/" + f.full.split("create_throw")[-1][:60]
            if fp.unknown:
                ck.incomplete("E7.unknown-refused", "%s: the result of create(rule,name) is used in `%s`, which this rule does not understand" % (key, featlib.render(fp.unknown[0])[:100]))
            else:
                bad = [(r, o) for r, o in fp.exits if o != frozenset({"T"})]
                ok = fp.ncalls >= 1 and not bad
                where = ("line %s" % bad[0][0].get("l") if bad and bad[0][0] is not None else "the end of the function")
                ck.ob("E7.unknown-refused", key, ok, "every normal exit is reached only after create(rule,name) returned true; the other paths throw" if ok else
                      ("create_throw does not call create(rule,name)" if fp.ncalls == 0 else
                       "create_throw returns normally at %s on a path on which create(rule,name) %s: an unknown rule name is not reported" % (
                           where, "returned false" if "F" in bad[0][1] else "was not evaluated")), f.file, f.line)
        if f.name == "factory" and "CreateFunctor" in f.cls:
            # _okay only assigned from Factory_::create
            ok = True
            cnt = 0
            for n in featlib.walk(f.body):
                if n.get("k") == "Assign" and featlib.render(n["lhs"]).endswith("_okay"):
                    cnt += 1
                    rhs = n["rhs"]
                    if not (featlib.is_call(rhs) and rhs.get("callee", "").endswith("::create")):
                        ok = False
            if cnt:
                ck.ob("E7.unknown-refused", "CreateFunctor::factory/" + str(abs(hash(f.full)) % 10 ** 8), ok, "_okay is assigned only from Factory::create(rule,name)", f.file, f.line, trivial=True)
        if f.name == "create" and len(f.params) == 2 and f.type(f.params[1]["t"]).endswith("String &") and strip_targs(f.cls) in (
                "FEAT::Cubature::DriverFactory", "FEAT::Cubature::Scalar::DriverFactory"):
            # every return other than `return false` is reached only on paths where the name compared equal to Driver::name()
            def is_name_cmp(n):
                if not (n.get("k") == "MCall" and n.get("n") in ("compare_no_case", "compare") and n.get("a")):
                    return False
                sides = [n["a"][0], n.get("obj")]
                return any(x is not None and any(y.get("k") == "Call" and y.get("callee", "").endswith("::name") for y in featlib.walk(x)) for x in sides)
            fp = FactPaths(f, is_name_cmp, "cmp0").analyse()
            key = "name-check/" + f.full[:110]
            if fp.unknown:
                ck.incomplete("E7.unknown-refused", "%s: the result of the name comparison is used in `%s`, which this rule does not understand" % (key, featlib.render(fp.unknown[0])[:100]))
            else:
                def is_false(r):
                    e = FactPaths.strip(r.get("e")) if r is not None else None
                    return e is not None and e.get("k") == "Bool" and not e["v"]
                bad = [(r, o) for r, o in fp.exits if not is_false(r) and o != frozenset({"T"})]
                ok = fp.ncalls >= 1 and not bad
                ck.ob("E7.unknown-refused", key, ok, "every return other than `return false` is reached only where the name compared equal to Driver::name()" if ok else
                      ("no comparison of the name with Driver::name() found" if fp.ncalls == 0 else
                       "the return at line %s is reachable %s: another name is answered with this driver's rule" % (
                           bad[0][0].get("l") if bad[0][0] is not None else "?", "although the name comparison failed" if "F" in bad[0][1] else "without the name comparison")), f.file, f.line)

    # ---- classical alias names are answered with the formula they denote
    check_alias_identity(ck, facts, folder_proto, rules, degrees, shape_of, tier)

    # ---- the natively modelled Rule class conforms to the model
    check_rule_model(ck, facts)

    # ---- token containers are only accessed where they hold enough tokens
    check_token_access(ck, facts)

    # ---- parsed quantities are not narrowed before their range check
    check_parsed_narrowing(ck, facts)

    # ---- numeric name parameters are validated as a whole --------------------------------------------------
    check_param_fully_parsed(ck, facts)

    expl = ("Static constant propagation (engine E9) over the cubature drivers and factories as parsed by clang from /repo: every factory entry point "
            "create(rule[,n]) reachable from DynamicFactory for the six reference shapes is folded for every admissible n (and n just outside the range); "
            "the resulting weight/point tables are checked for completeness, weight sum = reference volume, exactness on all monomials up to the nominal "
            "degree (exact rational arithmetic for rational tables, 70-digit arithmetic with a rigorous literal-precision error bound otherwise), tensor "
            "product structure, refine:* degree preservation, auto-degree mapping, and refusal of out-of-range / unknown names. The rule space is finite "
            "and enumerated completely (exhaustive over rule names x point counts; refine depth <= %d)." % (1 if tier == "quick" else 2))
    ck.assume("decimal literals are trusted to 4 units of their last printed digit; identities are decided within the propagated bound (errors below that bound are not detectable)")
    ck.assume("E13.alias-identity: the identity of the classical alias names (simpson 3, pulcherrima 4, milne-boole 5, 6-point 6, weddle 7 closed Newton-Cotes points; midpoint = "
              "one-point barycentre rule) is an oracle transcribed from the sources the drivers cite (anchor-checked citations); create(rule, name) is folded through the alias "
              "mapper with the String operations (compare_no_case, trim, substr, find_first_of, find_first_not_of, empty, parse = prefix parse) modelled by their documented semantics")
    ck.assume("nominal degree laws: gauss-legendre 2n-1, gauss-lobatto 2n-3, dunavant n, newton-cotes/maclaurin n-1 (+1 for odd n), silvester-open n, hammer-stroud/lauffer-degree-k k, barycentre/midpoint/trapezoidal 1; shunn-ham only through auto-degree")
    return ck.finish(expl, exhaustive=True, extra={"achieved_degrees": {"%s%s/%s:%s" % (k[0], k[1], k[2], k[3]): v for k, v in sorted(degrees.items())}})
