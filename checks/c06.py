"""C06 — filters impose their constraints exactly and idempotently.

Static rules over the resolved program (clang facts of tu/c06_filters.cpp; no FEAT3 code is run):

  * a small symbolic executor (structured statements, constant loops unrolled, symbolic loops executed
    for one generic iteration) turns every filter kernel / matrix-filter method into a *store summary*
    (array, index, stored value, path condition, loop ranges) and every filter class method into an
    *event summary* (kernel calls / axpy updates with evaluated arguments and path conditions);
  * the rules compare these summaries with the documented behaviour (DESIGN §4 C06 clauses 1-6).
"""
import itertools
import os
import re

import sympy as sp

import featlib
from featlib import Check, render, walk, rel

R = featlib.repo_path


# =================================================================================================
# symbolic executor
# =================================================================================================

class Incomplete(Exception):
    """construct outside the modelled fragment -> analysis-incomplete (exit 2), never a verdict"""


class Arr:
    """array / pointer value: base name plus an element offset (pointer arithmetic, ++p)"""

    def __init__(self, name, off=0):
        self.name = name
        self.off = sp.Integer(off) if isinstance(off, int) else off

    def shifted(self, d):
        return Arr(self.name, sp.expand(self.off + d))

    def __repr__(self):
        return "Arr(%s)" % self.name if self.off == 0 else "Arr(%s+%s)" % (self.name, self.off)


class Cell:
    def __init__(self, arr, idx):
        self.arr = arr
        self.idx = tuple(idx)

    def __repr__(self):
        return "%s[%s]" % (self.arr.name, ", ".join(str(i) for i in self.idx))


class Obj:
    def __init__(self, path):
        self.path = path

    def __repr__(self):
        return "Obj(%s)" % self.path


class TinyVal:
    """local Tiny::Vector value: per-component cells over a vector-valued base term"""

    def __init__(self, base):
        self.base = base
        self.cells = {}

    def get(self, i):
        if i in self.cells:
            return self.cells[i]
        return sp.Function("comp")(self.base, i)

    def copy(self):
        t = TinyVal(self.base)
        t.cells = dict(self.cells)
        return t


class AddrOf:
    def __init__(self, d):
        self.d = d


class LambdaVal:
    """closure value of a local lambda: the Lambda node and the values of its by-copy captures at creation"""

    def __init__(self, node, snap):
        self.node, self.snap = node, snap


class LocalArr:
    """function-local C array of constant extent (`bool skip[BlockSize_]`, `DT_ nrm[3]`): per-element values.  Stores to it are
    local bookkeeping, not part of the footprint; reads yield the value last stored (guards kept in such an array are thereby
    resolved to the atoms they were computed from)."""

    def __init__(self, name, d, dims):
        self.name, self.d, self.dims = name, d, tuple(dims)
        self.cells = {}


def is_handle(v):
    """element handle of a function-local aggregate: ('tiny', TinyVal, i) / ('larr', LocalArr, key)"""
    return isinstance(v, tuple) and len(v) == 3 and v[0] in ("tiny", "larr")


NULL = sp.Symbol("nullptr")

ARRAY_ACC = {"elements", "indices", "val", "col_ind", "row_ptr"}
SCALAR_ACC = {"used_elements", "size", "rows", "columns"}
CONTAINER_RE = re.compile(r"^FEAT::LAFEM::(Container|SparseVector|SparseVectorBlocked|DenseVector|DenseVectorBlocked|SparseMatrixCSR|SparseMatrixBCSR)<")
INTEGRAL_T = re.compile(r"\b(int|long|unsigned|Index|IndexType|size_t|IT_|uint\d+_t)\b")
FLOATING_T = re.compile(r"\b(double|float|DataType|DT_)\b")


def isym(name):
    return sp.Symbol(name, integer=True, nonnegative=True)


def sexp(e):
    return sp.expand(e) if isinstance(e, sp.Expr) else e


class Exec:
    def __init__(self, facts, fn, by_decl):
        self.facts = facts
        self.fn = fn
        self.by_decl = by_decl
        self.mem = {}
        self.stores = []
        self.events = []
        self.asserts = []
        self.assert_problems = []
        self.loops = []
        self.env_pc = {}
        self.atom_syms = {}
        self.atom_info = {}     # atom symbol -> ('zero', d) meaning d==0 | ('pos', e) meaning e>0 | ('exited', loop symbol)
        self.inline_depth = 0
        self.frame_base = 0
        self.retval = None
        self.cur_fn = fn
        self.refs = set()       # decl ids of reference locals / parameters bound to a memory cell or a local aggregate element
        self.fresh = 0
        self.searches = []      # linear searches `while(i < hi && P(i)) ++i;`: {"sym", "lo", "hi", "found" (atom), "q": function t -> (not P)(t)}

    # ---- atoms ---------------------------------------------------------------------------------
    def atom(self, name):
        if name not in self.atom_syms:
            self.atom_syms[name] = sp.Symbol(name)
        return self.atom_syms[name]

    def cmp(self, op, a, b):
        if isinstance(a, Obj):
            a = sp.Symbol(a.path)
        if isinstance(b, Obj):
            b = sp.Symbol(b.path)
        if not isinstance(a, sp.Expr) or not isinstance(b, sp.Expr):
            raise Incomplete("comparison of non-scalar values")
        for x_, other, left in ((a, b, True), (b, a, False)):
            if isinstance(x_, sp.Piecewise):
                # case split over the branches of a conditional value (`c ? x : y` compared with z)
                res, rest = sp.false, sp.true
                for e_, c_ in x_.args:
                    c_ = sp.true if c_ is True else c_
                    r_ = self.cmp(op, e_, other) if left else self.cmp(op, other, e_)
                    res = sp.Or(res, sp.And(rest, c_, r_))
                    rest = sp.And(rest, sp.Not(c_))
                return sp.simplify_logic(res)
        for sr in self.searches:
            dd = sp.expand(a - b)
            F = sr["found"]
            if dd == sp.expand(sr["sym"] - sr["hi"]):       # (result) op (end of range); result <= end always
                return {"<": F, ">=": sp.Not(F), "==": sp.Not(F), "!=": F, ">": sp.false, "<=": sp.true}[op]
            if dd == sp.expand(sr["hi"] - sr["sym"]):
                return {">": F, "<=": sp.Not(F), "==": sp.Not(F), "!=": F, "<": sp.false, ">=": sp.true}[op]
        if op in ("==", "!="):
            d = sp.expand(a - b)
            from sympy.core.function import AppliedUndef
            if d == 0 and a.atoms(AppliedUndef) and not a.is_integer:
                r = sp.Not(self.atom("isnan(%s)" % sp.sstr(sexp(a))))      # x == x is the NaN test of a value read from memory
            elif d.is_number:
                r = sp.true if d == 0 else sp.false
            elif self.range_sign(d) is True or self.range_sign(sp.expand(-d)) is True:
                r = sp.false           # a - b != 0 inside the (non-empty) range of an active loop
            else:
                if d.as_ordered_terms()[0].as_coeff_Mul()[0] < 0:
                    d = sp.expand(-d)
                r = self.atom("(%s==0)" % sp.sstr(d))
                self.atom_info[r] = ("zero", d)
            return r if op == "==" else sp.Not(r)
        # strict "positive" atoms: (e>0)
        if op == "<":
            e, neg = sp.expand(b - a), False
        elif op == ">":
            e, neg = sp.expand(a - b), False
        elif op == "<=":
            e, neg = sp.expand(a - b), True
        elif op == ">=":
            e, neg = sp.expand(b - a), True
        else:
            raise Incomplete("comparison operator " + op)
        if e.is_number:
            r = sp.true if e > 0 else sp.false
        elif self.range_sign(e) is not None:
            r = sp.true if self.range_sign(e) else sp.false
        else:
            r = self.atom("(%s>0)" % sp.sstr(e))
            self.atom_info[r] = ("pos", e)
        return sp.Not(r) if neg else r

    def range_sign(self, e):
        """e > 0 decided by the ranges lo <= s < hi (integers) of the active symbolic loops: True / False / None"""
        for lp in self.loops:
            if not lp.get("symbolic"):
                continue
            s_, lo, hi = lp["sym"], lp["lo"], lp["hi"]
            m = sp.expand(e - (hi - s_))
            if m.is_number and m >= 0:
                return True            # e = (hi - s) + m >= 1
            m = sp.expand(e - (s_ - lo))
            if m.is_number and m >= 1:
                return True            # e = (s - lo) + m >= 1
            m = sp.expand(e + (hi - s_))
            if m.is_number and m <= 1:
                return False           # e = m - (hi - s) <= 0
            m = sp.expand(e + (s_ - lo))
            if m.is_number and m <= 0:
                return False           # e = m - (s - lo) <= 0
            m = sp.expand(e - (hi - lo))
            if m.is_number and m >= 0:
                return True            # the generic iteration exists, so hi - lo >= 1: e = (hi - lo) + m >= 1
            m = sp.expand(e + (hi - lo))
            if m.is_number and m <= 0:
                return False           # e = m - (hi - lo) <= -1
        return None

    def fold_under(self, v, pc):
        """conditional value reduced to the branch the path condition selects"""
        for _ in range(4):
            if not isinstance(v, sp.Piecewise) or not isinstance(pc, sp.Basic):
                return v
            rest = pc
            pick = None
            for e_, c_ in v.args:
                c_ = sp.true if c_ is True else c_
                if sp.simplify_logic(sp.Implies(rest, c_)) is sp.true:
                    pick = e_
                    break
                if sp.simplify_logic(sp.Implies(rest, sp.Not(c_))) is sp.true:
                    continue
                return v
            if pick is None:
                return v
            v = pick
        return v

    def subst_atoms(self, cond, old, new):
        """boolean formula over comparison atoms with the integer symbol `old` replaced by `new` inside the compared expressions"""
        if not isinstance(cond, sp.Basic):
            return cond
        sub = {}
        for a in cond.free_symbols:
            if str(old) not in str(a):
                continue
            info = self.atom_info.get(a)
            if not info or info[0] not in ("zero", "pos"):
                raise Incomplete("search predicate atom %s cannot be moved to another position" % a)
            e2 = sp.expand(info[1].subs(old, new))
            sub[a] = self.cmp("==", e2, sp.Integer(0)) if info[0] == "zero" else self.cmp(">", e2, sp.Integer(0))
        return cond.subs(sub) if sub else cond

    def refine(self, pc):
        """path condition with the comparison atoms that the ranges of the active symbolic loops decide folded away (a guard
        `if(ue == 0) return;` in front of `for(i < ue)` is no condition on the stores of the generic iteration i)"""
        if not isinstance(pc, sp.Basic) or pc is sp.true or pc is sp.false or not any(lp.get("symbolic") for lp in self.loops):
            return pc
        sub = {}
        for a in pc.free_symbols:
            info = self.atom_info.get(a)
            if not info:
                continue
            if info[0] == "zero":
                if self.range_sign(info[1]) is True or self.range_sign(sp.expand(-info[1])) is True:
                    sub[a] = sp.false
            elif info[0] == "pos":
                r = self.range_sign(info[1])
                if r is not None:
                    sub[a] = sp.true if r else sp.false
        return sp.simplify_logic(pc.subs(sub)) if sub else pc

    def truth(self, v):
        if isinstance(v, Obj):
            return self.atom(v.path)
        if v is sp.true or v is sp.false or isinstance(v, sp.logic.boolalg.Boolean):
            return v
        if isinstance(v, sp.Symbol):
            return v
        if isinstance(v, sp.Expr):
            if v.is_number:
                return sp.true if v != 0 else sp.false
            return sp.Not(self.cmp("==", v, sp.Integer(0)))
        raise Incomplete("condition value %r" % (v,))

    # ---- memory --------------------------------------------------------------------------------
    def _distinct(self, i1, i2):
        for a, b in zip(i1, i2):
            d = sp.expand(a - b)
            if d.is_number and d != 0:
                return True
        return False

    def read(self, cell, pc):
        key = (cell.arr.name, tuple(sexp(i) for i in cell.idx))
        pc = self.refine(pc)
        if key in self.mem:
            lst = self.mem[key]
            lpc, val = lst[-1]
            if lpc == pc or lpc is sp.true:
                if len(lst) == 1 or all(p == lpc for p, _ in lst):
                    return val
            raise Incomplete("read of conditionally written cell %s" % (cell,))
        for (an, idx2) in self.mem:
            if an == cell.arr.name and len(idx2) == len(key[1]) and not self._distinct(idx2, key[1]):
                raise Incomplete("read of %s may alias the earlier store to %s[%s]" % (cell, an, idx2))
        return sp.Function(cell.arr.name)(*key[1])

    def store(self, cell, val, pc, node, broadcast=False):
        key = (cell.arr.name, tuple(sexp(i) for i in cell.idx))
        pc = self.refine(pc)
        extra_frames = []
        for sr in self.searches:
            if any(isinstance(i_, sp.Basic) and sr["sym"] in i_.free_symbols for i_ in key[1]):
                # if the search may have failed the position can be the end of the searched range itself (one past its last entry)
                guarded = sp.simplify_logic(sp.Implies(pc, sr["found"])) is sp.true
                extra_frames.append({"symbolic": True, "var": str(sr["sym"]), "sym": sr["sym"], "lo": sr["lo"], "hi": sr["hi"] if guarded else sexp(sr["hi"] + 1),
                                     "outer_decls": (), "brk": [sp.false], "search": sr})
        ssyms = {sr["sym"] for sr in self.searches}

        def at_search(idx_):
            return any(isinstance(i_, sp.Basic) and (i_.free_symbols & ssyms) for i_ in idx_)
        for (an, idx2) in self.mem:
            if an == key[0] and idx2 != key[1] and (len(idx2) != len(key[1]) or not self._distinct(idx2, key[1])):
                if at_search(key[1]) != at_search(idx2):
                    continue      # a store at a search result overlaps the generic position of its row: kept in order, resolved by the summary
                raise Incomplete("store to %s may alias the earlier store to %s[%s]" % (cell, an, idx2))
        self.mem.setdefault(key, []).append((pc, val))
        self.stores.append({"arr": key[0], "idx": key[1], "val": val, "pc": pc, "loops": list(self.loops) + extra_frames,
                            "l": node.get("l"), "broadcast": broadcast})

    # ---- values --------------------------------------------------------------------------------
    def scalar(self, v, pc):
        if isinstance(v, Cell):
            return self.read(v, pc)
        if isinstance(v, Obj):
            return sp.Symbol(v.path)
        if isinstance(v, (sp.Expr, sp.logic.boolalg.Boolean)):
            return v
        raise Incomplete("scalar use of %r" % (v,))

    def param_value(self, p, fn):
        ty = fn.type(p["t"])
        t = ty.replace("const", "").strip()
        if t.endswith("*"):
            return Arr(p["n"])
        if t.endswith("&"):
            return Obj(p["n"])
        if t == "bool":
            return self.atom(p["n"])
        if INTEGRAL_T.search(t):
            return isym(p["n"])
        return sp.Symbol(p["n"])

    def elem(self, base, idx, pc):
        """element access base[idx] / base(idx)"""
        idx = sexp(self.scalar(idx, pc))
        if isinstance(base, Arr):
            return Cell(base, (sexp(idx + base.off),))
        if isinstance(base, Cell):
            return Cell(base.arr, base.idx + (idx,))
        if isinstance(base, TinyVal):
            if not idx.is_Integer:
                raise Incomplete("symbolic component index on a local Tiny value")
            return ("tiny", base, int(idx))
        if isinstance(base, LocalArr) or (is_handle(base) and base[0] == "larr"):
            arr, key = (base, ()) if isinstance(base, LocalArr) else (base[1], base[2])
            if not idx.is_Integer:
                raise Incomplete("symbolic subscript %s on the local array %s" % (idx, arr.name))
            if len(key) >= len(arr.dims) or not (0 <= int(idx) < arr.dims[len(key)]):
                raise Incomplete("subscript %s outside the extent %s of the local array %s" % (key + (int(idx),), list(arr.dims), arr.name))
            return ("larr", arr, key + (int(idx),))
        if isinstance(base, Obj):
            return sp.Function("comp")(sp.Symbol(base.path), idx)
        if isinstance(base, sp.Expr):
            return sp.Function("comp")(base, idx)
        raise Incomplete("element access on %r" % (base,))

    def rv(self, v, pc):
        """r-value of an element handle"""
        if isinstance(v, tuple) and v and v[0] == "tiny":
            return v[1].get(v[2])
        if is_handle(v) and v[0] == "larr":
            arr, key = v[1], v[2]
            if len(key) != len(arr.dims):
                raise Incomplete("row of the local array %s used as a value" % arr.name)
            if key not in arr.cells:
                raise Incomplete("element %s of the local array %s is read before it is set" % (list(key), arr.name))
            return arr.cells[key]
        if isinstance(v, LocalArr):
            raise Incomplete("local array %s used as a pointer value" % v.name)
        return v

    # ---- expressions ---------------------------------------------------------------------------
    def ev(self, n, env, pc):
        k = n.get("k")
        fn = self.cur_fn
        if k == "Int":
            return sp.Integer(int(n["v"]))
        if k == "Float":
            return sp.Rational(n.get("text", n["v"]).rstrip("fFlL")) if re.match(r"^[0-9.]+[fFlL]?$", n.get("text", n["v"])) else sp.Float(n["v"])
        if k == "Bool":
            return sp.true if n["v"] else sp.false
        if k == "Null":
            return NULL
        if k == "This":
            return Obj("this")
        if k == "Ref":
            if n.get("d") in env:
                return env[n["d"]]
            if "v" in n:
                return sp.Integer(int(n["v"]))
            if n.get("dk") in ("global", "smember", "enum"):
                return sp.Symbol(n.get("qn") or n["n"])
            raise Incomplete("unbound name %s" % n["n"])
        if k == "Member":
            b = self.ev(n["b"], env, pc) if n.get("b") else Obj("this")
            if "v" in n:
                return sp.Integer(int(n["v"]))
            if isinstance(b, Obj):
                return Obj(b.path + "." + n["n"])
            raise Incomplete("member %s of %r" % (n["n"], b))
        if k == "Cast":
            return self.ev(n["e"], env, pc)
        if k in ("Construct", "TempObj"):
            a = n.get("a", [])
            if len(a) == 1:
                v = self.rv(self.ev(a[0], env, pc), pc)
                if isinstance(v, TinyVal):
                    return v.copy()
                return v
            raise Incomplete("construction %s" % render(n)[:80])
        if k == "Index":
            return self.elem(self.ev(n["b"], env, pc), self.rv(self.ev(n["idx"], env, pc), pc), pc)
        if k == "Cond":
            c = self.truth(self.rv(self.ev(n["c"], env, pc), pc))
            a = self.scalar(self.rv(self.ev(n["then"], env, pc), pc), pc)
            b = self.scalar(self.rv(self.ev(n["else"], env, pc), pc), pc)
            if c is sp.true:
                return a
            if c is sp.false:
                return b
            return sp.Piecewise((a, c), (b, True))
        if k == "Un":
            op = n["op"]
            if op == "&":
                e = n["e"]
                if e.get("k") == "Ref" and e.get("dk") == "local" and not isinstance(env.get(e["d"]), (Cell, LocalArr)):
                    return AddrOf(e["d"])
                tv = self.ev(e, env, pc)
                if isinstance(tv, Cell) and len(tv.idx) == 1:
                    return Arr(tv.arr.name, tv.idx[0])       # &a[e] == a + e
                raise Incomplete("address-of %s" % render(e))
            if op in ("++", "--"):
                lv = n["e"]
                if lv.get("k") == "Ref" and lv.get("d") in env and lv["d"] not in self.refs and not isinstance(env[lv["d"]], (Arr, LocalArr)):
                    old = self.scalar(env[lv["d"]], pc)
                    self.assign_local(lv["d"], old + (1 if op == "++" else -1), env, pc)
                    return old if n.get("post") else env[lv["d"]]
                raise Incomplete("increment of %s" % render(lv))
            v = self.rv(self.ev(n["e"], env, pc), pc)
            if op == "!":
                return sp.Not(self.truth(self.scalar(v, pc) if isinstance(v, Cell) else v))
            if op == "-":
                return -self.scalar(v, pc)
            if op == "+":
                return self.scalar(v, pc)
            if op == "*":
                if isinstance(v, Arr):
                    return Cell(v, (sexp(v.off),))
                return v
            raise Incomplete("unary operator " + op)
        if k == "Bin":
            op = n["op"]
            if op in ("&&", "||"):
                a = self.truth(self.rv(self.ev(n["lhs"], env, pc), pc))
                b = self.truth(self.rv(self.ev(n["rhs"], env, pc), pc))
                return sp.And(a, b) if op == "&&" else sp.Or(a, b)
            a = self.rv(self.ev(n["lhs"], env, pc), pc)
            b = self.rv(self.ev(n["rhs"], env, pc), pc)
            if op in ("==", "!=", "<", ">", "<=", ">="):
                if isinstance(a, Cell):
                    a = self.read(a, pc)
                if isinstance(b, Cell):
                    b = self.read(b, pc)
                return self.cmp(op, a, b)
            if op in ("+", "-") and isinstance(a, Arr) and not isinstance(b, Arr):
                d_ = self.scalar(b, pc)
                return a.shifted(d_ if op == "+" else -d_)
            if op == "+" and isinstance(b, Arr) and not isinstance(a, Arr):
                return b.shifted(self.scalar(a, pc))
            return self.arith(op, self.scalar(a, pc), self.scalar(b, pc), n)
        if k == "Lambda":
            return LambdaVal(n, {c_["d"]: env[c_["d"]] for c_ in n.get("captures", []) if not c_.get("byref") and c_.get("d") in env})
        if k == "Assign":
            return self.assign(n, env, pc)
        if k == "OpCall":
            return self.opcall(n, env, pc)
        if k == "MCall":
            return self.mcall(n, env, pc)
        if k == "Call":
            return self.call(n, env, pc)
        raise Incomplete("expression kind %s (%s)" % (k, render(n)[:60]))

    def arith(self, op, a, b, n):
        if op == "+":
            return a + b
        if op == "-":
            return a - b
        if op == "*":
            return a * b
        if op == "/":
            if a.is_Integer and b.is_Integer:
                ty = self.cur_fn.ntype(n)
                if FLOATING_T.search(ty) is None:
                    if b == 0:
                        raise Incomplete("division by zero")
                    return sp.Integer(int(a) // int(b))
            return a / b
        raise Incomplete("binary operator " + op)

    def assign_local(self, d, val, env, pc):
        dpc = self.env_pc.get(d, sp.true)
        if isinstance(val, sp.Expr) and pc != dpc and isinstance(env.get(d), sp.Expr):
            val = sp.Piecewise((val, pc), (env[d], True))
        elif pc != dpc and not isinstance(val, sp.Expr):
            raise Incomplete("conditional assignment of a non-scalar local")
        env[d] = val
        for lp in self.loops:
            if lp["symbolic"] and d in lp["outer_decls"]:
                raise Incomplete("local carried across iterations of a symbolic loop")

    def assign(self, n, env, pc):
        op = n["op"]
        lhs = n["lhs"]
        rhs = self.rv(self.ev(n["rhs"], env, pc), pc)
        if lhs.get("k") == "Ref" and lhs.get("dk") in ("local", "param") and not (lhs.get("d") in self.refs and (isinstance(env.get(lhs["d"]), Cell) or is_handle(env.get(lhs["d"])))):
            d = lhs["d"]
            if isinstance(env.get(d), (Arr, LocalArr)) and op != "=":
                raise Incomplete("compound assignment to the pointer / array %s" % lhs.get("n"))
            if op != "=":
                rhs = self.arith(op[:-1], self.scalar(env[d], pc), self.scalar(rhs, pc), n)
            elif isinstance(rhs, Cell):
                rhs = self.read(rhs, pc)
            self.assign_local(d, rhs, env, pc)
            return env[d]
        target = self.ev(lhs, env, pc)
        val = self.scalar(rhs, pc)
        if isinstance(target, tuple) and target[0] == "tiny":
            _, tv, i = target
            if op != "=":
                val = self.arith(op[:-1], tv.get(i), val, n)
            if pc != self.env_pc.get(id(tv), pc):
                raise Incomplete("conditional store to a local Tiny value")
            tv.cells[i] = val
            return val
        if is_handle(target) and target[0] == "larr":
            _, arr, key = target
            if len(key) != len(arr.dims):
                raise Incomplete("assignment to a row of the local array %s" % arr.name)
            for lp in self.loops:
                if lp["symbolic"] and arr.d in lp["outer_decls"]:
                    raise Incomplete("local array %s is written inside a symbolic loop it outlives" % arr.name)
            if op != "=":
                val = self.arith(op[:-1], self.scalar(self.rv(target, pc), pc), val, n)
            dpc = self.env_pc.get(arr.d, sp.true)
            if pc != dpc:
                if key not in arr.cells:
                    raise Incomplete("conditional first store to an element of the local array %s" % arr.name)
                oldv = arr.cells[key]
                if isinstance(val, sp.logic.boolalg.Boolean) and isinstance(oldv, sp.logic.boolalg.Boolean):
                    val = sp.ITE(pc, val, oldv)
                elif isinstance(val, sp.Expr) and isinstance(oldv, sp.Expr):
                    val = sp.Piecewise((val, pc), (oldv, True))
                else:
                    raise Incomplete("conditional store to an element of the local array %s" % arr.name)
            arr.cells[key] = val
            return val
        if isinstance(target, Cell):
            if op != "=":
                val = self.arith(op[:-1], self.read(target, pc), val, n)
            self.store(target, val, pc, n)
            return val
        raise Incomplete("assignment target %s" % render(lhs)[:60])

    def opcall(self, n, env, pc):
        op = n["op"]
        a = n.get("a", [])
        callee = n.get("callee", "")
        if op == "()" and a and a[0].get("k") == "Ref" and isinstance(env.get(a[0].get("d")), LambdaVal):
            # call of a local lambda: its body is executed in place with the captured variables bound
            lam = env[a[0]["d"]]
            caps = lam.node.get("captures", [])
            extra = {}
            for c_ in caps:
                if c_.get("d") is None:
                    continue
                if c_.get("byref"):
                    if c_["d"] not in env:
                        raise Incomplete("lambda captures %s, which is not bound" % c_.get("n"))
                    extra[c_["d"]] = env[c_["d"]]
                elif c_["d"] in lam.snap:
                    extra[c_["d"]] = lam.snap[c_["d"]]
            f = self.by_decl.get(lam.node.get("op_decl"))
            body = f.body if f is not None else None
            for x in walk(body or {}):
                if any(self._modifies(x, c_["d"]) for c_ in caps if c_.get("d") is not None):
                    raise Incomplete("lambda %s modifies a captured variable" % a[0].get("n"))
            return self.inline(dict(n, a=a[1:], cdecl=lam.node.get("op_decl")), env, pc, extra=extra)
        if op in ("[]", "()") and len(a) == 2 and re.match(r"^FEAT::Tiny::(Vector|Matrix)<", callee):
            base = self.ev(a[0], env, pc)
            if isinstance(base, sp.Expr) and a[0].get("k") == "Ref" and a[0].get("d") in env:
                tv = TinyVal(base)
                env[a[0]["d"]] = tv
                self.env_pc[id(tv)] = pc
                base = tv
            return self.elem(base, self.rv(self.ev(a[1], env, pc), pc), pc)
        if op == "=" and len(a) == 2 and re.match(r"^FEAT::Tiny::(Vector|Matrix)<", callee):
            target = self.ev(a[0], env, pc)
            val = self.scalar(self.rv(self.ev(a[1], env, pc), pc), pc)
            if isinstance(target, Cell):
                self.store(target, val, pc, n, broadcast=True)
                return val
        raise Incomplete("operator call %s" % render(n)[:80])

    def objsym(self, v):
        if isinstance(v, Obj):
            return sp.Symbol(v.path)
        raise Incomplete("vector operand %r" % (v,))

    def mcall(self, n, env, pc):
        name = n.get("n")
        obj = self.ev(n["obj"], env, pc) if n.get("obj") else Obj("this")
        ccls = n.get("ccls", "")
        args = n.get("a", [])
        if isinstance(obj, Obj) and CONTAINER_RE.match(ccls):
            if name in ARRAY_ACC and not args:
                # the scalar (pod) view of a blocked container is another index space than its native (block) view:
                # pod index = native index * block size + component
                pod = "Perspective::pod" in (n.get("cfull") or "")
                return Arr(obj.path + "." + name + ("@pod" if pod else ""))
            if name in SCALAR_ACC and not args:
                return isym(obj.path + "." + name)
            if name == "empty" and not args:
                return self.atom(obj.path + ".empty")
            if name in ("dot", "dot_blocked") and len(args) == 1:
                ops = sorted([self.objsym(obj), self.objsym(self.ev(args[0], env, pc))], key=str)
                return sp.Function(name)(*ops)
            if name in ("triple_dot", "triple_dot_blocked") and len(args) == 2:
                ops = sorted([self.objsym(obj)] + [self.objsym(self.ev(x, env, pc)) for x in args], key=str)
                return sp.Function(name)(*ops)
            if name in ("axpy", "axpy_blocked") and n.get("pn", [])[:2] == ["x", "alpha"] and len(args) == 2:
                alpha = self.rv(self.ev(args[1], env, pc), pc)
                if isinstance(alpha, Cell):
                    alpha = self.read(alpha, pc)
                self.events.append({"kind": "axpy", "name": name, "recv": obj.path, "x": self.ev(args[0], env, pc),
                                    "alpha": alpha, "pc": pc, "l": n.get("l"), "loops": list(self.loops)})
                return None
        if name == "allreduce" and ccls == "FEAT::Dist::Comm" and len(args) == 4:
            send, recv = self.ev(args[0], env, pc), self.ev(args[1], env, pc)
            opv = self.ev(args[3], env, pc)
            if isinstance(send, AddrOf) and isinstance(recv, AddrOf) and str(opv).endswith("op_sum") and self.ev(args[2], env, pc) == 1:
                self.assign_local(recv.d, sp.Function("allsum")(self.scalar(env[send.d], pc)), env, pc)
                return None
            raise Incomplete("allreduce form %s" % render(n)[:100])
        if isinstance(obj, Obj) and obj.path == "this" and ccls == self.fn.cls:
            return self.inline(n, env, pc)
        raise Incomplete("member call %s" % render(n)[:100])

    def call(self, n, env, pc):
        callee = n.get("callee", "")
        if callee == "FEAT::assertion":
            try:
                self.asserts.append((self.truth(self.rv(self.ev(n["a"][0], env, pc), pc)), pc))
            except Incomplete as e:
                self.assert_problems.append(str(e))
            return None
        if callee == "FEAT::Math::isnan" and len(n["a"]) == 1:
            v = self.scalar(self.rv(self.ev(n["a"][0], env, pc), pc), pc)
            return self.atom("isnan(%s)" % sp.sstr(sexp(v)))
        if callee in ("FEAT::Math::eps", "FEAT::Math::huge", "FEAT::Math::tiny") and not n.get("a"):
            # machine constants: positive, otherwise unknown, symbolic thresholds
            return sp.Symbol(callee.rsplit("::", 1)[-1], positive=True)
        if callee in ("FEAT::Math::sqr", "FEAT::Math::abs", "FEAT::Math::sqrt") and len(n.get("a", [])) == 1:
            v = self.scalar(self.rv(self.ev(n["a"][0], env, pc), pc), pc)
            return {"sqr": v * v, "abs": sp.Abs(v), "sqrt": sp.sqrt(v)}[callee.rsplit("::", 1)[-1]]
        if n.get("ccls") and n.get("ccls") == self.fn.cls and self.fn.cls.startswith("FEAT::LAFEM::Arch::") and n.get("cdecl") in self.by_decl:
            return self.inline(n, env, pc)      # helper of the same Arch struct called by a kernel
        if callee in ("std::fill", "std::fill_n", "std::copy", "std::copy_n") and len(n.get("a", [])) == 3:
            # standard algorithms on raw arrays as the loops they stand for
            a0, a1, a2 = [self.rv(self.ev(x, env, pc), pc) for x in n["a"]]
            if callee in ("std::fill", "std::copy"):
                if not (isinstance(a0, Arr) and isinstance(a1, Arr) and a0.name == a1.name):
                    raise Incomplete("%s: first/last are not offsets into the same raw array (%s)" % (callee, render(n)[:80]))
                count = sexp(a1.off - a0.off)
            else:
                count = self.scalar(a1, pc)
            if callee in ("std::fill", "std::fill_n"):
                dst = a0
                val = self.scalar(a2, pc)
                return self.range_op(dst, count, lambda k_, pc_: val, env, pc, n, callee)
            src, dst = a0, a2
            if not isinstance(src, Arr):
                raise Incomplete("%s: source is not a raw array range" % callee)
            return self.range_op(dst, count, lambda k_, pc_: self.read(Cell(src, (sexp(src.off + k_),)), pc_), env, pc, n, callee)
        if callee == "std::isnan" and len(n.get("a", [])) == 1:
            v = self.scalar(self.rv(self.ev(n["a"][0], env, pc), pc), pc)
            return self.atom("isnan(%s)" % sp.sstr(sexp(v)))
        if callee.startswith("FEAT::LAFEM::Arch::"):
            vals = []
            for a in n.get("a", []):
                v = self.rv(self.ev(a, env, pc), pc)
                vals.append(self.fold_under(v, pc))
            self.events.append({"kind": "arch", "callee": callee, "cfull": n.get("cfull"), "cdecl": n.get("cdecl"),
                                "pn": n.get("pn", []), "args": vals, "pc": pc, "l": n.get("l"), "loops": list(self.loops),
                                "in": self.cur_fn})
            return None
        raise Incomplete("call %s" % render(n)[:100])

    def inline(self, n, env, pc, extra=None):
        f = self.by_decl.get(n.get("cdecl"))
        if f is None or f.body is None:
            raise Incomplete("body of %s not in the fact base" % n.get("cfull"))
        if self.inline_depth > 6:
            raise Incomplete("inlining depth")
        env2 = dict(extra or {})
        for p, a in zip(f.params, n.get("a", [])):
            val = self.rv(self.ev(a, env, pc), pc)
            pty = f.type(p["t"]).replace("const", "").strip()
            if isinstance(val, Cell) and not pty.endswith("&") and not pty.endswith("*") and not re.search(r"Tiny::|ValueType", pty):
                val = self.read(val, pc)
            if pty.endswith("&") and not pty.endswith("&&") and not isinstance(val, Cell):
                raw = self.ev(a, env, pc) if a.get("k") in ("Ref", "Index", "OpCall") else None
                if is_handle(raw):
                    val = raw
            if pty.endswith("&") and (isinstance(val, Cell) or is_handle(val)):
                self.refs.add(p["d"])
            env2[p["d"]] = val
            self.env_pc[p["d"]] = pc
        if len(f.params) != len(n.get("a", [])):
            raise Incomplete("call of %s with default arguments" % f.name)
        saved = (self.cur_fn, self.frame_base)
        self.cur_fn, self.frame_base = f, len(self.loops)
        self.inline_depth += 1
        outer_ret = self.retval
        try:
            self.retval = None
            self.block(f.body, env2, pc, top=True)
            return self.retval
        finally:
            self.retval = outer_ret
            self.inline_depth -= 1
            self.cur_fn, self.frame_base = saved

    # ---- statements ----------------------------------------------------------------------------
    def block(self, n, env, pc, top=False):
        """-> condition under which control reaches the statement after n"""
        k = n.get("k")
        if k == "Block":
            for s in n.get("s", []):
                pc = self.block(s, env, pc, top)
                if pc is sp.false:
                    break
            return pc
        if k == "Decl":
            for v in n["vars"]:
                ty = self.cur_fn.type(v["t"]) or ""
                am = re.match(r"^(?:const\s+)?[\w:<>, ]+?((?:\[\d+\])+)$", ty.strip())
                if am and (v.get("init") is None or v["init"].get("k") == "InitList"):
                    # function-local array of constant extent
                    la = LocalArr(v["n"], v["d"], [int(x) for x in re.findall(r"\[(\d+)\]", am.group(1))])
                    if v.get("init") is not None:
                        self.init_local_array(la, v["init"], env, pc)
                    val = la
                elif v.get("init") is not None:
                    raw = self.ev(v["init"], env, pc)
                    if v.get("ref") and (is_handle(raw) or (isinstance(raw, Cell) and not re.search(r"Tiny::|ValueType", ty))):
                        # reference alias: later reads / writes go to the denoted element (the subscripts are values, fixed at this point)
                        val = raw
                        self.refs.add(v["d"])
                    else:
                        val = self.rv(raw, pc)
                        if isinstance(val, Cell) and not re.search(r"Tiny::|ValueType", ty):
                            val = self.read(val, pc)
                else:
                    val = sp.Symbol("uninit_" + v["n"]) if not re.search(r"Tiny::|ValueType", ty) else TinyVal(sp.Symbol("uninit_" + v["n"]))
                env[v["d"]] = val
                self.env_pc[v["d"]] = pc
                if isinstance(val, TinyVal):
                    self.env_pc[id(val)] = pc
            return pc
        if k == "If":
            c = self.truth(self.rv(self.ev(n["c"], env, pc), pc))
            if c is sp.true:
                return self.block(n["then"], env, pc, top)
            if c is sp.false:
                return self.block(n["else"], env, pc, top) if n.get("else") else pc
            pt = self.block(n["then"], env, sp.And(pc, c), top)
            pe = self.block(n["else"], env, sp.And(pc, sp.Not(c)), top) if n.get("else") else sp.And(pc, sp.Not(c))
            if pt is sp.false:
                return pe
            if pe is sp.false:
                return pt
            r = sp.simplify_logic(sp.Or(pt, pe))
            return pc if sp.simplify_logic(sp.Equivalent(r, pc)) is sp.true else r
        if k == "For":
            return self.loop(n, env, pc)
        if k == "While":
            return self.while_loop(n, env, pc)
        if k == "Return":
            if len(self.loops) > self.frame_base:
                raise Incomplete("return inside a loop")
            if n.get("e") is not None:
                self.retval = self.rv(self.ev(n["e"], env, pc), pc)
            return sp.false
        if k == "Continue":
            if not self.loops:
                raise Incomplete("continue outside a loop")
            return sp.false
        if k == "Break":
            if not self.loops:
                raise Incomplete("break outside a loop")
            lp = self.loops[-1]
            if lp.get("dead_break"):
                return sp.false
            if lp["symbolic"] and lp.get("exit_atom") is None:
                raise Incomplete("break in a symbolic loop that was not prepared for it")
            lp["brk"][0] = sp.Or(lp["brk"][0], pc)
            return sp.false
        if k in ("Null_", "Attributed"):
            return pc
        if k in ("Assign", "OpCall", "MCall", "Call", "Un"):
            self.ev(n, env, pc)
            return pc
        raise Incomplete("statement kind %s (%s)" % (k, render(n)[:60]))

    def init_local_array(self, la, init, env, pc):
        """`T a[n] = {x, y}` (missing trailing elements are value-initialised)"""
        if len(la.dims) != 1:
            raise Incomplete("initialiser list of the multi-dimensional local array %s" % la.name)
        items = init.get("a") or init.get("e") or init.get("s") or []
        if not isinstance(items, list) or len(items) > la.dims[0]:
            raise Incomplete("initialiser of the local array %s" % la.name)
        for i in range(la.dims[0]):
            la.cells[(i,)] = self.scalar(self.rv(self.ev(items[i], env, pc), pc), pc) if i < len(items) else sp.Integer(0)

    # ---- loops ---------------------------------------------------------------------------------
    @staticmethod
    def _step_of(x, dd):
        """+1 / -1 if statement x advances the variable with decl id dd by one, else None"""
        if x is None:
            return None
        if x.get("k") == "Un" and x.get("op") in ("++", "--") and (x.get("e") or {}).get("k") == "Ref" and x["e"].get("d") == dd:
            return 1 if x["op"] == "++" else -1
        if x.get("k") == "Assign" and x.get("op") in ("+=", "-=") and (x.get("lhs") or {}).get("k") == "Ref" and x["lhs"].get("d") == dd \
           and (x.get("rhs") or {}).get("k") == "Int" and x["rhs"].get("v") == "1":
            return 1 if x["op"] == "+=" else -1
        return None

    @staticmethod
    def _ind_side(x):
        """(decl id, k) if the comparison operand x is `i` or `i + k` / `i - k` / `k + i` for a variable i and an integer literal k"""
        def unc(y):
            while y is not None and y.get("k") == "Cast":
                y = y["e"]
            return y or {}
        x = unc(x)
        if x.get("k") == "Ref":
            return x.get("d"), 0
        if x.get("k") == "Bin" and x.get("op") in ("+", "-"):
            a_, b_ = unc(x["lhs"]), unc(x["rhs"])
            if a_.get("k") == "Ref" and b_.get("k") == "Int":
                return a_.get("d"), int(b_["v"]) if x["op"] == "+" else -int(b_["v"])
            if x["op"] == "+" and b_.get("k") == "Ref" and a_.get("k") == "Int":
                return b_.get("d"), int(a_["v"])
        return None, 0

    @staticmethod
    def _modifies(x, dd):
        return x.get("k") in ("Assign", "Un") and ((x.get("lhs") or x.get("e") or {}).get("k") == "Ref") and (x.get("lhs") or x.get("e")).get("d") == dd \
            and x.get("op") in ("=", "+=", "-=", "*=", "/=", "++", "--")

    def while_loop(self, n, env, pc):
        """`while(i < hi) { body; ++i; }` is the loop `for(; i < hi; ++i) body` if the step is the last statement of the body and no
        `continue` can skip it"""
        c, body = n.get("c"), n.get("body")
        d = None
        if c and c.get("k") == "Bin" and c.get("op") == "&&":
            # linear search `while((i < hi) && P(i)) ++i;`: afterwards i is the first position of [i0, hi) at which P fails, or hi
            step = body["s"][0] if body and body.get("k") == "Block" and len(body.get("s", [])) == 1 else body
            for bnd, pred in ((c["lhs"], c["rhs"]), (c["rhs"], c["lhs"])):
                if bnd.get("k") == "Bin" and bnd.get("op") == "<":
                    xd, koff = self._ind_side(bnd["lhs"])
                    if xd is not None and koff == 0 and xd in env and step is not None and self._step_of(step, xd) == 1 and isinstance(env[xd], sp.Expr) \
                       and not any(y.get("k") == "Ref" and y.get("d") == xd for y in walk(bnd["rhs"])):
                        for lp in self.loops:
                            if lp["symbolic"] and xd in lp["outer_decls"]:
                                raise Incomplete("local carried across iterations of a symbolic loop")
                        lo = sexp(self.scalar(env[xd], pc))
                        hi = sexp(self.scalar(self.rv(self.ev(bnd["rhs"], env, pc), pc), pc))
                        self.fresh += 1
                        name = next((y.get("n") for y in walk(bnd["lhs"]) if y.get("k") == "Ref"), "it")
                        ssym = isym("first_%s%d" % (name, self.fresh))
                        F = self.atom("found(%s)" % ssym)
                        self.atom_info[F] = ("found", ssym)
                        # (not P) at an arbitrary position t of the range
                        env[xd] = ssym
                        frame = {"symbolic": True, "var": str(ssym), "sym": ssym, "lo": lo, "hi": hi, "outer_decls": set(), "brk": [sp.false], "exit_atom": None}
                        self.loops.append(frame)
                        try:
                            pval = self.truth(self.rv(self.ev(pred, env, pc), pc))
                        finally:
                            self.loops.pop()
                        self.searches.append({"sym": ssym, "lo": lo, "hi": hi, "found": F, "q": sp.Not(pval)})
                        return pc
        if c and c.get("k") == "Bin":
            for side in ("lhs", "rhs"):
                xd = self._ind_side(c[side])[0]
                if xd is not None and xd in env and self._step_of((body.get("s") or [None])[-1] if body and body.get("k") == "Block" else None, xd):
                    d = xd
        if d is None:
            raise Incomplete("while loop that is not `while(i <cmp> bound) { ...; ++i / --i; }` (%s)" % render(c)[:60])
        if any(x.get("k") == "Continue" for x in walk(body, prune=lambda x: x.get("k") in ("For", "While", "Do", "ForRange"))):
            raise Incomplete("`continue` in a while loop whose step is the last statement of the body")
        stmts = body["s"]
        return self.counted_loop(n, d, None, c, [stmts[-1]], {"k": "Block", "s": stmts[:-1]}, env, pc, live_after=True)

    def loop(self, n, env, pc):
        init, c, inc = n.get("init"), n.get("c"), n.get("inc")
        incs = []

        def split(x):
            if x is not None and x.get("k") == "Bin" and x.get("op") == ",":
                split(x["lhs"])
                split(x["rhs"])
            elif x is not None:
                incs.append(x)
        split(inc)
        # the induction variable is the one the condition compares
        cand = []
        if c and c.get("k") == "Bin":
            for side in ("lhs", "rhs"):
                xd = self._ind_side(c[side])[0]
                if xd is not None and any(self._step_of(y, xd) for y in incs):
                    cand.append(xd)
        if init is not None and init.get("k") == "Decl" and all(v.get("init") is not None for v in init["vars"]):
            self.block(init, env, pc)
            declared = [v["d"] for v in init["vars"]]
            main = [d_ for d_ in cand if d_ in declared]
            if len(main) != 1:
                raise Incomplete("loop condition %s" % render(c))
            return self.counted_loop(n, main[0], [v for v in init["vars"] if v["d"] == main[0]][0]["n"], c, incs, n["body"], env, pc)
        if init is None and len(cand) == 1 and cand[0] in env:
            return self.counted_loop(n, cand[0], None, c, incs, n["body"], env, pc, live_after=True)
        if init is not None and init.get("k") == "Assign" and init.get("op") == "=" and (init.get("lhs") or {}).get("k") == "Ref" and init["lhs"].get("d") in cand:
            self.ev(init, env, pc)
            return self.counted_loop(n, init["lhs"]["d"], None, c, incs, n["body"], env, pc, live_after=True)
        raise Incomplete("loop initialiser %s" % render(init))

    def counted_loop(self, n, d, name, c, incs, body, env, pc, live_after=False):
        """counted loop over an integer or a pointer (range [lo,hi) of the induction variable; upward or downward by one)"""
        if name is None:
            name = next((x.get("n") for x in walk(c) if x.get("k") == "Ref" and x.get("d") == d), "it")
        start = env[d]
        if isinstance(start, Cell):
            start = self.read(start, pc)
        if not isinstance(start, (sp.Expr, Arr)) or d in self.refs:
            raise Incomplete("induction variable %s of the loop is not an integer / pointer value" % name)
        for lp in self.loops:
            if live_after and lp["symbolic"] and d in lp["outer_decls"]:
                raise Incomplete("local carried across iterations of a symbolic loop")
        steps = [self._step_of(x, d) for x in incs]
        main = [x for x, st in zip(incs, steps) if st]
        if len(main) != 1:
            raise Incomplete("loop increment %s" % ", ".join(render(x) for x in incs))
        step = self._step_of(main[0], d)
        if not (c and c.get("k") == "Bin" and c["op"] in ("<", "<=", "!=", ">", ">=")):
            raise Incomplete("loop condition %s" % render(c))
        lhs, rhs, op = c["lhs"], c["rhs"], c["op"]
        if self._ind_side(lhs)[0] != d:
            lhs, rhs, op = rhs, lhs, {"<": ">", ">": "<", "<=": ">=", ">=": "<=", "!=": "!="}[op]
            if self._ind_side(lhs)[0] != d:
                raise Incomplete("loop condition %s" % render(c))
        koff = self._ind_side(lhs)[1]          # condition compares i + koff (idealised integers: i + k < b  <=>  i < b - k)
        if koff and op == "!=":
            raise Incomplete("loop condition %s" % render(c))
        if any(y.get("k") == "Ref" and y.get("d") == d for y in walk(rhs)):
            raise Incomplete("loop condition %s" % render(c))
        if (step > 0 and op not in ("<", "<=", "!=")) or (step < 0 and op not in (">", ">=", "!=")):
            raise Incomplete("loop condition %s does not bound the direction of the step %s" % (render(c), render(main[0])))
        ptrs = []      # pointers advanced in lock-step with the loop variable: p == p0 + (i - lo) in iteration i
        for x in incs:
            if x is main[0]:
                continue
            tgt = (x.get("e") or x.get("lhs") or {})
            dd = tgt.get("d")
            if tgt.get("k") == "Ref" and dd in env and isinstance(env[dd], Arr) and self._step_of(x, dd) == 1 and step > 0:
                ptrs.append(dd)
            else:
                raise Incomplete("loop increment %s" % render(x))
        for x in walk(body):
            if any(self._modifies(x, dd) for dd in ptrs):
                raise Incomplete("pointer advanced by the loop header is also modified in the body")
            if self._modifies(x, d):
                raise Incomplete("loop variable modified in the body")
        pbase = {dd: env[dd] for dd in ptrs}
        bound = self.rv(self.ev(rhs, env, pc), pc)
        if isinstance(bound, Cell):
            bound = self.read(bound, pc)
        # the induction variable as base + t
        if isinstance(start, Arr):
            if not (isinstance(bound, Arr) and bound.name == start.name):
                raise Incomplete("pointer loop %s: start and end are not offsets into the same array" % render(c))
            mk = lambda t: Arr(start.name, t)
            first, bnd = sexp(start.off), sexp(bound.off - koff)
        else:
            if not isinstance(bound, sp.Expr):
                raise Incomplete("loop bound %s" % render(rhs))
            mk = lambda t: t
            first, bnd = sexp(start), sexp(bound - koff)
        if step > 0:
            lo, hi = first, (sexp(bnd + 1) if op == "<=" else bnd)
        else:
            lo, hi = (bnd if op == ">=" else sexp(bnd + 1)), sexp(first + 1)
        if lo.is_Integer and hi.is_Integer:
            if hi - lo > 64:
                raise Incomplete("constant loop too long")
            brk = [sp.false]   # condition under which an earlier iteration left the loop by `break`
            order = list(range(int(lo), int(hi)))
            if step < 0:
                order.reverse()
            for val in order:
                env[d] = mk(sp.Integer(val))
                for dd in ptrs:
                    env[dd] = pbase[dd].shifted(val - int(lo))
                pci = pc if brk[0] is sp.false else sp.simplify_logic(sp.And(pc, sp.Not(brk[0])))
                if pci is sp.false:
                    break
                self.loops.append({"symbolic": False, "var": name, "val": val, "lo": lo, "hi": hi, "outer_decls": (), "brk": brk})
                try:
                    self.block(body, env, pci)
                finally:
                    self.loops.pop()
            for dd in ptrs:
                if brk[0] is not sp.false:
                    raise Incomplete("pointer advanced by a loop that can be left by break")
                env[dd] = pbase[dd].shifted(max(0, int(hi) - int(lo)))
            if live_after:
                if brk[0] is not sp.false:
                    raise Incomplete("loop variable %s is live after a loop that can be left by break" % name)
                env[d] = mk(sp.Integer(max(int(hi), int(lo)) if step > 0 else min(int(lo), int(hi)) - 1)) if order else start
            return pc
        active = {str(lp["sym"]) for lp in self.loops if lp["symbolic"]}
        while name in active:
            name += "_"
        s = isym(name)
        env[d] = mk(s)
        for dd in ptrs:
            env[dd] = pbase[dd].shifted(s - lo)
        inner = {v["d"] for x in walk(body) if x.get("k") == "Decl" for v in x["vars"]}
        outer = {x for x in env if x not in inner and x != d}
        # `break` in a symbolic loop: the generic iteration i runs iff no earlier iteration i' < i left the loop; that fact is a
        # free atom exited(i) (loop-exit summary).  A break whose condition contradicts the loop range is dead and ignored.
        has_break = any(x.get("k") == "Break" for x in walk(body, prune=lambda x: x.get("k") in ("For", "While", "Do", "ForRange", "Switch")))
        exit_atom = None
        if has_break:
            exit_atom = self.atom("exited(%s)" % name)
            self.atom_info[exit_atom] = ("exited", s)
        frame = {"symbolic": True, "var": name, "sym": s, "lo": lo, "hi": hi, "outer_decls": outer, "brk": [sp.false], "exit_atom": exit_atom, "down": step < 0}
        if has_break:
            # dry run to learn the break condition; if it is dead (contradicts lo <= i < hi) the loop is analysed without it
            snap = (dict(self.mem), list(self.stores), list(self.events), list(self.asserts), dict(env))
            self.mem = {k_: list(v_) for k_, v_ in self.mem.items()}
            self.loops.append(frame)
            try:
                self.block(body, env, pc)
            finally:
                self.loops.pop()
            dead = self.dead_in_range(frame["brk"][0], s, lo, hi)
            self.mem, self.stores, self.events, self.asserts = {k_: list(v_) for k_, v_ in snap[0].items()}, snap[1], snap[2], snap[3]
            for k_ in list(env):
                if k_ not in snap[4]:
                    del env[k_]
            env.update(snap[4])
            frame["brk"] = [sp.false]
            if dead:
                frame["exit_atom"] = exit_atom = None
                frame["dead_break"] = True
        self.loops.append(frame)
        try:
            self.block(body, env, pc if exit_atom is None else sp.And(pc, sp.Not(exit_atom)))
        finally:
            self.loops.pop()
        for dd in ptrs:
            if exit_atom is not None:
                raise Incomplete("pointer advanced by a loop that can be left by break")
            env[dd] = pbase[dd].shifted(hi - lo)
        if live_after:
            self.fresh += 1
            env[d] = mk(sp.Symbol("after_loop_%s_%d" % (name, self.fresh), integer=True))      # value after the loop: not modelled
        return pc

    def range_op(self, dst, count, value_at, env, pc, node, what):
        """std::fill / fill_n / copy / copy_n on raw arrays as the loop they stand for: dst[k] = value_at(k), 0 <= k < count"""
        if not isinstance(dst, Arr):
            raise Incomplete("%s: destination is not a raw array range" % what)
        count = sexp(count)
        if count.is_Integer:
            if count > 64:
                raise Incomplete("%s over a long constant range" % what)
            for k_ in range(int(count)):
                self.store(Cell(dst, (sexp(dst.off + k_),)), value_at(sp.Integer(k_), pc), pc, node)
            return None
        self.fresh += 1
        s = isym("t%d" % self.fresh)
        lo, hi = sexp(dst.off), sexp(dst.off + count)
        frame = {"symbolic": True, "var": str(s), "sym": s, "lo": lo, "hi": hi, "outer_decls": set(env), "brk": [sp.false], "exit_atom": None}
        self.loops.append(frame)
        try:
            self.store(Cell(dst, (s,)), value_at(sexp(s - lo), pc), pc, node)
        finally:
            self.loops.pop()
        return None

    def dead_in_range(self, cond, s, lo, hi):
        """True if the break condition implies a literal that contradicts lo <= s < hi (integers)"""
        if cond is sp.false:
            return True
        for a in cond.free_symbols:
            info = self.atom_info.get(a)
            if not info or info[0] != "pos":
                continue
            e = info[1]
            if sp.simplify_logic(sp.Implies(cond, a)) is sp.true:
                # e > 0 claimed; e = s - hi - m (m >= 0)  =>  s >= hi + m + 1 : impossible
                m = sp.expand(e - (s - hi))
                if m.is_number and m <= 0:
                    return True
                m = sp.expand(e - (lo - s))      # e = lo - s - m  => s < lo
                if m.is_number and m <= 0:
                    return True
            if sp.simplify_logic(sp.Implies(cond, sp.Not(a))) is sp.true:
                # not (e > 0) claimed; e = hi - s - m with m <= 0  =>  hi - s <= m <= 0 : impossible
                m = sp.expand((hi - s) - e)
                if m.is_number and m <= 0:
                    return True
                m = sp.expand((s - lo + 1) - e)  # e = s - lo + 1 - m, m <= 0: s - lo + 1 <= 0 impossible
                if m.is_number and m <= 0:
                    return True
        return False

    def run(self):
        env = {}
        for p in self.fn.params:
            env[p["d"]] = self.param_value(p, self.fn)
        self.retval = None
        self.final_pc = self.block(self.fn.body, env, sp.true, top=True)
        return self


# =================================================================================================
# helpers on summaries
# =================================================================================================

def targs(cls):
    """top-level template arguments of a class name string"""
    i = cls.find("<")
    if i < 0:
        return []
    out, depth, cur = [], 0, ""
    for ch in cls[i + 1:]:
        if ch == "<":
            depth += 1
        elif ch == ">":
            if depth == 0:
                break
            depth -= 1
        if ch == "," and depth == 0:
            out.append(cur.strip())
            cur = ""
        else:
            cur += ch
    if cur.strip():
        out.append(cur.strip())
    return out


def base_name(cls):
    return cls.split("<", 1)[0]


def short(name):
    return name.replace("FEAT::LAFEM::", "").replace("FEAT::", "").replace("unsigned long", "u64").replace("unsigned int", "u32").replace(" ", "")


def body_file(fn):
    """file holding the body (out-of-class kernel definitions live in *_generic.hpp)"""
    if fn.name and fn.name.endswith("_generic") and fn.file.endswith(".hpp"):
        g = fn.file[:-4] + "_generic.hpp"
        if os.path.exists(g):
            return g
    return fn.file


def body_line(fn):
    return (fn.body or {}).get("l") or fn.line


def holds(cond, asg):
    if cond is sp.true or cond is True:
        return True
    if cond is sp.false or cond is False:
        return False
    r = cond.subs(asg)
    if r is sp.true:
        return True
    if r is sp.false:
        return False
    raise Incomplete("condition %s not decided by the atoms %s" % (cond, sorted(str(a) for a in asg)))


def fold(val, asg):
    if isinstance(val, sp.Basic):
        return sp.expand(val.subs(asg))
    return val


def atoms_of(*things):
    out = set()
    for t in things:
        if isinstance(t, sp.Basic):
            for s_ in t.free_symbols:
                if s_.is_integer is None and (str(s_).startswith("(") or str(s_).startswith("isnan(") or str(s_).startswith("exited(") or str(s_).startswith("found(") or str(s_).endswith(".empty") or str(s_) in ("ign_nans", "this._ignore_nans")):
                    out.add(s_)
    return out


BENIGN_FALSE = re.compile(r"^\(this\.\w+\.(used_elements|size)==0\)$|^this\.\w+\.empty$")
BENIGN_TRUE = re.compile(r"^\(this\.\w+\.(used_elements|size)>0\)$")


def assignments(atoms):
    """all truth assignments of the atoms; 'nothing to filter' atoms are fixed to the non-trivial case"""
    fixed, free = {}, []
    for a in sorted(atoms, key=str):
        if BENIGN_FALSE.match(str(a)):
            fixed[a] = False
        elif BENIGN_TRUE.match(str(a)):
            fixed[a] = True
        else:
            free.append(a)
    if len(free) > 10:
        raise Incomplete("too many condition atoms: %s" % free)
    for bits in itertools.product([False, True], repeat=len(free)):
        asg = dict(fixed)
        asg.update(zip(free, bits))
        yield asg


def final_value(stores, asg):
    """(stored?, value) of one cell after the ordered guarded stores under a truth assignment"""
    stored, val = False, None
    for s in stores:
        if holds(s["pc"], asg):
            nv = fold(s["val"], asg)
            own = sp.Function(s["arr"])(*s["idx"]) if not stored else val
            if isinstance(nv, sp.Basic) and sp.expand(nv - own) == 0:
                continue          # writes back what the cell already holds: no effect
            stored, val = True, nv
    return stored, val


def reads_array(stores, name):
    """does a stored value (other than the cell's own old value, which is a no-op) or a guard depend on the written array?"""
    def has(e):
        if not isinstance(e, sp.Basic):
            return False
        if any(f.func.__name__ == name for f in e.atoms(sp.Function) if hasattr(f.func, "__name__")):
            return True
        return any(("%s(" % name) in str(a) for a in e.free_symbols if str(a).startswith("isnan(") or str(a).startswith("("))
    for s in stores:
        own = sp.Function(s["arr"])(*s["idx"])
        val = s["val"]
        branches = [val]
        if isinstance(val, sp.Piecewise):
            branches = [b for b, _ in val.args]
            if any(has(c) for _, c in val.args if isinstance(c, sp.Basic)):
                return True
        for b in branches:
            if isinstance(b, sp.Basic) and sp.expand(b - own) == 0:
                continue
            if has(b):
                return True
        if has(s["pc"]):
            return True
    return False


def is_zero(e):
    """True/False for e == 0 identically; raises Incomplete when simplification fails but numeric probes vanish"""
    import random
    if e == 0:
        return True
    r = sp.simplify(e)
    if r == 0:
        return True
    from sympy.core.function import AppliedUndef
    opaque = sorted(r.atoms(AppliedUndef), key=str)
    outer = [f for f in opaque if not any(f is not g and f in g.atoms(AppliedUndef) for g in opaque)]
    r = r.subs({f: sp.Symbol("_t%d" % n_, real=True) for n_, f in enumerate(outer)})
    syms = sorted(r.free_symbols, key=str)
    rnd = random.Random(7)
    small = 0
    for _ in range(4):
        pt = {x: sp.Rational(rnd.randint(2, 19), rnd.randint(2, 7)) * rnd.choice((1, -1) if not x.is_positive else (1,)) for x in syms}
        try:
            val = abs(complex(r.subs(pt).evalf()))
        except Exception:
            raise Incomplete("expression %s could not be evaluated" % r)
        if val < 1e-9:
            small += 1
    if small == 4:
        raise Incomplete("expression %s vanishes at all probes but could not be simplified to 0" % r)
    return False


def fname(e):
    """name of an applied array-read term a(idx), else None"""
    from sympy.core.function import AppliedUndef
    return e.func.__name__ if isinstance(e, AppliedUndef) else None


def sym_loop(s, sym):
    for lp in s["loops"]:
        if lp["symbolic"] and lp["sym"] == sym:
            return lp
    return None


def entry_loop(s, it):
    """(symbolic loop frame, shift) if the entry number `it` of a store is (loop variable) + integer constant, else (None, 0)"""
    if not isinstance(it, sp.Basic):
        return None, 0
    for x in it.free_symbols:
        lp = sym_loop(s, x)
        if lp is not None:
            shift = sp.expand(it - x)
            if shift.is_Integer:
                return lp, shift
    return None, 0


def asg_str(asg):
    return ", ".join("%s=%s" % (k, "T" if v else "F") for k, v in sorted(asg.items(), key=lambda kv: str(kv[0]))) or "-"


# ---- vector kernels -------------------------------------------------------------------------------

class KernelSummary:
    pass


def kernel_summary(facts, fn, by_decl):
    """store summary of an Arch::*Filter*::filter_*_generic kernel, roles taken from the parameter names"""
    ks = KernelSummary()
    ks.fn = fn
    names = [p["n"] for p in fn.params]
    for need in ("v", "sv_indices", "ue"):
        if need not in names:
            raise Incomplete("kernel %s has no parameter named '%s' (role table is keyed by parameter names)" % (fn.full, need))
    ks.values = "sv_elements" if "sv_elements" in names else ("nu_elements" if "nu_elements" in names else None)
    m = re.search(r"_generic<(\d+),", fn.full)
    ks.bs = int(m.group(1)) if m else 1
    ex = Exec(facts, fn, by_decl).run()
    ks.ex = ex
    from sympy.core.function import AppliedUndef
    ks.footprint, ks.coverage = [], []
    ks.cells = {}
    ks.isym = None
    if ex.events:
        raise Incomplete("kernel %s calls %s" % (fn.full, ex.events[0].get("callee")))
    ks.unknown = []
    ranges = set()
    for s in ex.stores:
        where = "line %s: %s[%s]" % (s["l"], s["arr"], ", ".join(str(i) for i in s["idx"]))
        if s["arr"] != "v":
            ks.footprint.append("%s: store to array '%s' (only the filtered vector v may be written)" % (where, s["arr"]))
            continue
        e = s["idx"][0]
        reads = [f for f in e.atoms(AppliedUndef)]
        idxs = [f for f in reads if f.func.__name__ == "sv_indices"]
        if len(s["idx"]) != 1 or len(idxs) != 1:
            range_reads = [f for lp_ in s["loops"] if lp_["symbolic"] and lp_["sym"] in e.free_symbols for f in (lp_["lo"].atoms(AppliedUndef) | lp_["hi"].atoms(AppliedUndef))]
            if not reads and len(s["idx"]) == 1 and not range_reads:
                ks.footprint.append("%s: position is computed from loop counters only, not from an sv_indices[.] entry: dofs that are not constrained are written" % where)
            else:
                ks.unknown.append("%s: position is not recognisably derived from one sv_indices[.] entry" % where)
            continue
        S = idxs[0]
        c = sp.expand(e - ks.bs * S)
        if not c.is_Integer:
            ks.unknown.append("%s: position is not of the form %d*sv_indices[.]+const (remainder %s)" % (where, ks.bs, c))
            continue
        if not (0 <= int(c) < ks.bs):
            ks.footprint.append("%s: position is %d*sv_indices[i]%+d, outside the block of the constrained dof (0<=c<%d): entries of other dofs are written" % (where, ks.bs, int(c), ks.bs))
            continue
        it = S.args[0]
        lp, shift = entry_loop(s, it)
        if lp is None:
            ks.unknown.append("%s: sv_indices is not subscripted by a loop variable (+ constant) (%s)" % (where, it))
            continue
        ranges.add((sp.expand(lp["lo"] + shift), sp.expand(lp["hi"] + shift)))      # range of the entry number it = loop variable + shift
        ks.isym = it
        ks.cells.setdefault(int(c), []).append(s)
    if len(ranges) == 1:
        lo_, hi_ = next(iter(ranges))
        if not (lo_ == 0 and hi_ == isym("ue")):
            ks.coverage.append("the loop over the filter entries runs over [%s,%s) instead of [0,ue)" % (lo_, hi_))
    elif len(ranges) > 1:
        ks.unknown.append("the filter entries are processed by loops over different ranges %s (split loop): coverage of [0,ue) not decided" % sorted(str(r) for r in ranges))
    if not ex.stores:
        ks.coverage.append("kernel performs no store at all")
    for c in range(ks.bs):
        if c not in ks.cells and ks.cells and not ks.unknown:
            ks.coverage.append("component %d of the constrained block is never stored" % c)
    ks.reads_v = reads_array(ex.stores, "v")
    return ks


def unit_form_problems(ks, kind):
    """ks against the spec of a value-imposing ('value') resp. zero-imposing ('zero') unit kernel"""
    probs = []
    ex = ks.ex
    names = [p["n"] for p in ks.fn.params]
    i = ks.isym
    if ks.unknown:
        raise Incomplete("store positions of %s not recognised" % ks.fn.full)
    if i is None:
        return ["no constrained entry is stored"]
    for c in range(ks.bs):
        stores = ks.cells.get(c, [])
        E = sp.Function("sv_elements")(sp.expand(ks.bs * i + c)) if ks.values == "sv_elements" else None
        want = E if kind == "value" else sp.Integer(0)
        if want is None:
            return ["kernel has no sv_elements parameter, cannot impose values"]
        spec_atoms = set()
        ign = nan = None
        if "ign_nans" in names:
            ign = ex.atom("ign_nans")
            nan = ex.atom("isnan(%s)" % sp.sstr(E))
            spec_atoms = {ign, nan}
        atoms = spec_atoms | set().union(*[atoms_of(s["pc"], s["val"]) for s in stores]) if stores else spec_atoms
        for asg in assignments(atoms):
            stored, val = final_value(stores, asg)
            exp_stored = True if ign is None else not (asg[ign] and asg[nan])
            if stored != exp_stored:
                probs.append("component %d, case {%s}: entry is %s but must be %s" % (c, asg_str(asg), "stored" if stored else "left unchanged", "stored" if exp_stored else "left unchanged (NaN filter value with ignore_nans)"))
                break
            if stored and sp.expand(val - want) != 0:
                probs.append("component %d, case {%s}: stored value is %s, a %s-imposing kernel must store %s" % (c, asg_str(asg), val, kind, want))
                break
    return probs


def projection_identities(f, vs, ns):
    """problems of the map v -> f(v) (list of sympy expressions in vs, ns) as the orthogonal projection along ns"""
    probs = []
    bs = len(vs)
    ndot = sum(a * b for a, b in zip(f, ns))
    if not is_zero(ndot):
        probs.append("normal component after filtering is %s (must vanish identically)" % sp.simplify(ndot))
    ff = [e.subs(dict(zip(vs, f)), simultaneous=True) - e for e in f]
    if any(not is_zero(x) for x in ff):
        probs.append("applying the update twice differs from applying it once by %s" % [str(sp.simplify(x)) for x in ff if not is_zero(x)][:1])
    d = [a - b for a, b in zip(f, vs)]
    cross = [d[a] * ns[b] - d[b] * ns[a] for a in range(bs) for b in range(a + 1, bs)]
    if any(not is_zero(x) for x in cross):
        probs.append("the change f(v)-v is not parallel to the normal: tangential components are modified")
    return probs


def normal_region(ex, asg, atoms, sub, ns):
    """Interprets the literals of one guard case as constraints on N = n.n (>= 0).
    -> ('empty', text) | ('zero', text) | ('nonzero', text): the case is infeasible / forces n == 0 / admits non-zero normals."""
    N = sp.Symbol("N", nonnegative=True)
    nn = sum(x * x for x in ns)
    lowers, uppers, texts = [], [], []      # (bound, strict)
    forced_zero = False
    others = []
    for a in sorted(atoms, key=str):
        info = ex.atom_info.get(a)
        if info is None or info[0] not in ("zero", "pos"):
            raise Incomplete("slip kernel is guarded by %s, which is not a comparison" % a)
        e = sp.expand(info[1].subs(sub))
        if e.atoms(sp.Function):
            raise Incomplete("slip guard %s reads data other than the normal of the block" % a)
        c = e.coeff(ns[0], 2)
        g = sp.expand(e - c * nn)
        if c == 0 or not c.is_number or any(x in g.free_symbols for x in ns) or any(x in g.free_symbols for x in sub.values()):
            raise Incomplete("slip guard %s is not a condition on n.n alone" % a)
        bnd = -g / c           # e = c*(N - bnd)
        val = asg[a]
        sgn = 1 if c > 0 else -1
        if info[0] == "zero":
            rel = "==" if val else "!="
        else:               # e > 0  <=>  N > bnd (c>0) / N < bnd (c<0)
            if val:
                rel = ">" if sgn > 0 else "<"
            else:
                rel = "<=" if sgn > 0 else ">="
        texts.append("n.n %s %s" % (rel, bnd))
        others.append((rel, bnd))
    def sign(x):
        x = sp.simplify(x)
        if x.is_zero:
            return 0
        if x.is_positive:
            return 1
        if x.is_negative:
            return -1
        raise Incomplete("sign of the threshold %s is unknown" % x)
    text = " and ".join(texts) or "always"
    # evaluate constraints
    for rel, b in others:
        sb = sign(b)
        if rel == "<" and sb <= 0:
            return "empty", text
        if rel == "<=" and sb < 0:
            return "empty", text
        if rel == "==" and sb < 0:
            return "empty", text
        if (rel == "<=" and sb == 0) or (rel == "==" and sb == 0):
            forced_zero = True
    if forced_zero:
        for rel, b in others:      # must hold at N = 0
            sb = sign(b)
            ok = {"<": sb > 0, "<=": sb >= 0, "==": sb == 0, "!=": sb != 0, ">": sb < 0, ">=": sb <= 0}[rel]
            if not ok:
                return "empty", text
        return "zero", text
    lo_b = [b for rel, b in others if rel in (">", ">=", "==")]
    up_b = [(b, rel) for rel, b in others if rel in ("<", "<=", "==")]
    for l in lo_b:
        for u, rel in up_b:
            d = sp.simplify(u - l)
            if d.is_negative:
                return "empty", text
            if not (d.is_positive or d.is_zero):
                raise Incomplete("order of the thresholds %s and %s is unknown" % (l, u))
    return "nonzero", text


def slip_problems(ks):
    """Per guard case: the stored block must be the orthogonal projection v - (v.n)/(n.n) n (normal-free, idempotent, tangential part kept).
    A case in which the block is NOT stored leaves f = identity; that satisfies the identities only if the case forces n == 0
    (then n.v = 0 trivially and HEAD's 0/0 is avoided) -- a skip for any non-zero normal violates 'vanishing normal component'."""
    i = ks.isym
    if i is None or ks.values != "nu_elements":
        return ["kernel does not look like a slip kernel (no nu_elements role / no stores)"]
    bs = ks.bs
    ex = ks.ex
    old, nrm = [], []
    for c in range(bs):
        st = ks.cells.get(c, [])
        if not st:
            return ["component %d of the block is never stored" % c]
        old.append(sp.Function("v")(st[0]["idx"][0]))
        nrm.append(sp.Function("nu_elements")(sp.expand(bs * i + c)))
    vs = sp.symbols("v0:%d" % bs, real=True)
    ns = sp.symbols("n0:%d" % bs, real=True)
    sub = dict(zip(old, vs))
    sub.update(zip(nrm, ns))
    atoms = set()
    for c in range(bs):
        for s_ in ks.cells[c]:
            atoms |= atoms_of(s_["pc"], s_["val"])
    probs, cache = [], {}
    for asg in assignments(atoms):
        res = [final_value(ks.cells[c], asg) for c in range(bs)]
        nstored = sum(1 for st_, _ in res if st_)
        kind, text = normal_region(ex, asg, atoms, sub, ns)
        if kind == "empty":
            continue
        if nstored == 0:
            if kind == "zero":
                continue        # n == 0: identity satisfies n.f(v) = 0, idempotence, f(v)-v = 0
            probs.append("case {%s}: the block is left unfiltered for non-zero normals (path condition 0 < n.n and %s): its normal component does not vanish; skipping is admissible only for n.n == 0" % (asg_str(asg), text))
            continue
        if nstored != bs:
            probs.append("case {%s}: only %d of %d components of the block are updated" % (asg_str(asg), nstored, bs))
            continue
        if kind == "zero":
            continue            # division by n.n == 0: no admissible normal
        f = tuple(sp.together(val.subs(sub)) for _, val in res)
        extra = set().union(*[e.atoms(sp.Function) for e in f])
        if extra:
            return ["update reads other data than the block of v and its normal: %s" % sorted(str(x) for x in extra)[:3]]
        if f not in cache:
            cache[f] = projection_identities(list(f), vs, ns)
        for p_ in cache[f]:
            msg = p_ if not atoms else "case {%s}: %s" % (asg_str(asg), p_)
            if msg not in probs:
                probs.append(msg)
    return probs


# ---- matrix filter methods ------------------------------------------------------------------------

def matrix_summary(facts, fn, by_decl):
    """store summary of UnitFilter(Blocked)::filter_mat / filter_offdiag_row_mat"""
    ms = KernelSummary()
    ms.fn = fn
    if len(fn.params) != 1:
        raise Incomplete("%s: expected exactly one (matrix) parameter" % fn.full)
    p = fn.params[0]["n"] or "matrix"
    ms.p = p
    ty = fn.type(fn.params[0]["t"])
    m = re.search(r"SparseMatrixBCSR<[^<>]*?,\s*([^,<>]+),\s*([^,<>]+)>", ty)
    ms.bh = ms.bw = None
    if m:
        try:
            ms.bh, ms.bw = int(m.group(1)), int(m.group(2))
        except ValueError:
            raise Incomplete("%s: block shape of %s not resolved" % (fn.full, ty))
    elif "SparseMatrixCSR" not in ty:
        raise Incomplete("%s: matrix type %s not modelled" % (fn.full, ty))
    ex = Exec(facts, fn, by_decl).run()
    ms.ex = ex
    from sympy.core.function import AppliedUndef
    ms.footprint, ms.coverage, ms.unknown = [], [], []
    ms.search_implications = []     # (Q(J), found): an entry J of the searched row with Q(J) exists only if the search succeeded
    ms.cells = {}
    ms.i = ms.j = ms.ix = None
    ms.sv = None
    if ex.events:
        raise Incomplete("%s calls %s" % (fn.full, ex.events[0].get("callee") or ex.events[0].get("name")))
    RP = p + ".row_ptr"
    for s in ex.stores:
        where = "line %s: %s[%s]" % (s["l"], s["arr"], ", ".join(str(i) for i in s["idx"]))
        if s["arr"] not in (p + ".val", p + ".val@pod"):
            ms.footprint.append("%s: store to '%s' (only the values of the filtered matrix may be written)" % (where, s["arr"]))
            continue
        if s["arr"].endswith("@pod") and (ms.bh or 1) * (ms.bw or 1) > 1:
            # scalar view of the values of a blocked matrix: entry (k,l) of block j lives at bh*bw*j + bw*k + l.  The subscript
            # must be of that form for an integer 0 <= c < bh*bw - a block index used as a scalar offset lacks the factor bh*bw
            bsz = ms.bh * ms.bw
            if len(s["idx"]) != 1:
                ms.unknown.append("%s: scalar view of the matrix values with %d subscripts" % (where, len(s["idx"])))
                continue
            e_ = sp.expand(s["idx"][0])
            dec = None
            for c_ in range(bsz):
                q_ = sp.expand((e_ - c_) / bsz)
                if all(co.is_Integer for co in q_.as_coefficients_dict().values()):
                    dec = (q_, c_)
                    break
            if dec is None:
                ms.footprint.append("%s: the scalar (pod) view of the values of a %dx%d-blocked matrix is subscripted with `%s`, which is not %d*(block index)+c: a block "
                                    "index is used as a scalar offset, so entries of other blocks / rows are written and the constrained row is not" % (where, ms.bh, ms.bw, e_, bsz))
                continue
            s = dict(s, arr=p + ".val", idx=(dec[0], sp.Integer(dec[1] // ms.bw), sp.Integer(dec[1] % ms.bw)))
        elif s["arr"].endswith("@pod"):
            s = dict(s, arr=p + ".val")
        j = s["idx"][0]
        srch = [lp_ for lp_ in s["loops"] if lp_.get("search") and lp_["sym"] in j.free_symbols]
        if srch and sp.expand(j - srch[0]["sym"]) == 0:
            # store at the position a linear search stopped at (the first t of [lo,hi) with Q(t)): for the generic position J of
            # that range it is the store `if(Q(J)) ...` - rows hold every column index at most once (CSR invariant), so J is the
            # found position exactly if Q(J)
            sr = srch[0]["search"]
            J = getattr(ms, "jsub", None)
            prev = [lp_ for st_ in ex.stores for lp_ in st_["loops"] if lp_["symbolic"] and not lp_.get("search") and J is not None and lp_["sym"] == J]
            if J is None or not prev or sp.expand(prev[0]["lo"] - sr["lo"]) != 0 or sp.expand(prev[0]["hi"] - sr["hi"]) != 0:
                J = srch[0]["sym"]
            qJ = ex.subst_atoms(sr["q"], srch[0]["sym"], J)
            ms.search_implications.append((qJ, sr["found"]))
            frame = dict(srch[0], sym=J)
            frame.pop("search", None)
            s = dict(s, idx=(J,) + tuple(s["idx"][1:]), pc=sp.simplify_logic(sp.And(s["pc"], qJ)), loops=[lp_ for lp_ in s["loops"] if not lp_.get("search")] + [frame])
            j = J
        # position = (loop variable t) + base: effective range [lo+base, hi+base)
        tsyms = [lp_ for lp_ in s["loops"] if lp_["symbolic"] and lp_["sym"] in j.free_symbols]
        lp = None
        for cand in tsyms:
            if sp.expand(j.diff(cand["sym"]) - 1) == 0 and cand["sym"] not in sp.expand(j - cand["sym"]).free_symbols:
                lp = cand
        if lp is None:
            ms.unknown.append("%s: value position is not (loop variable)+offset" % where)
            continue
        base = sp.expand(j - lp["sym"])
        lo, hi = sp.expand(lp["lo"] + base), sp.expand(lp["hi"] + base)
        ok = fname(lo) == RP and fname(hi) == RP
        if not ok or sp.expand(hi.args[0] - lo.args[0] - 1) != 0:
            terms = [f for f in (lo.atoms(AppliedUndef) | hi.atoms(AppliedUndef))]
            rp_like = terms and all(f.func.__name__ == RP or re.match(r"^this\.\w+\.indices$", f.func.__name__) for f in terms)
            if rp_like:
                ms.footprint.append("%s: position runs over [%s,%s), not over the row segment [row_ptr[ix],row_ptr[ix+1]) of the matrix" % (where, lo, hi))
            else:
                ms.unknown.append("%s: position range [%s,%s) is not expressed through %s" % (where, lo, hi, RP))
            continue
        ix = lo.args[0]
        mm = re.match(r"^this\.(\w+)\.indices$", fname(ix) or "")
        if not mm:
            if not ix.atoms(AppliedUndef):
                ms.footprint.append("%s: filtered row %s is a loop counter, not an entry of the filter's index array: unconstrained rows are overwritten" % (where, ix))
            else:
                ms.unknown.append("%s: filtered row %s is not recognisably an entry of the filter's own index array" % (where, ix))
            continue
        it = ix.args[0]
        lpi, shift = entry_loop(s, it)
        if lpi is None:
            ms.unknown.append("%s: index array is not subscripted by a loop variable (+ constant)" % where)
            continue
        sv = mm.group(1)
        elo, ehi = sp.expand(lpi["lo"] + shift), sp.expand(lpi["hi"] + shift)
        if not (elo == 0 and ehi == isym("this.%s.used_elements" % sv)):
            ms.coverage.append("%s: loop over the filter entries runs over [%s,%s) instead of [0,%s.used_elements())" % (where, elo, ehi, sv))
        ms.i, ms.j, ms.ix, ms.sv = it, j, ix, sv
        ms.jsub = lp["sym"]
        ms.cells.setdefault(tuple(int(x) if x.is_Integer else x for x in s["idx"][1:]), []).append(s)
    if not ex.stores:
        ms.coverage.append("method performs no store at all")
    if ms.sv:
        want = ex.cmp("==", isym("this.%s.size" % ms.sv), isym(p + ".rows"))
        sized = [a for a, _ in ex.asserts if re.search(r"this\.\w+\.size", str(a))]
        if sized and not any(a == want for a in sized):
            ms.footprint.append("row indices come from %s but the method asserts %s (expected %s.size()==%s.rows()): the rows written are not the rows the method believes to constrain" % (ms.sv, [str(a) for a in sized], ms.sv, p))
    ms.reads_val = reads_array(ex.stores, p + ".val") or reads_array(ex.stores, p + ".val@pod")
    return ms


def unit_row_problems(ms, kind):
    """kind 'unit': identity rows, kind 'zero': null rows; NaN filter components are skipped iff _ignore_nans"""
    probs = []
    ex = ms.ex
    if ms.j is None:
        if ms.footprint or ms.unknown:
            return []          # reported by E2.footprint / as analysis-incomplete
        return ["no matrix entry of a constrained row is stored (the method has no effect)"]
    col_eq = ex.cmp("==", sp.Function(ms.p + ".col_ind")(ms.j), ms.ix)
    if ms.bh is None or (ms.bh == 1 and all(len(c) == 0 for c in ms.cells)):
        cells = [()]
    else:
        cells = [(k, l) for k in range(ms.bh) for l in range(ms.bw)]
    blocked_filter = "Blocked" in base_name(ms.fn.cls)
    for cell in cells:
        stores = ms.cells.get(cell, [])
        spec_atoms = set(atoms_of(col_eq))
        ign = nan = None
        if blocked_filter and cell:
            ign = ex.atom("this._ignore_nans")
            nan = ex.atom("isnan(%s)" % sp.sstr(sp.Function("this.%s.elements" % ms.sv)(ms.i, cell[0])))
            spec_atoms |= {ign, nan}
        atoms = spec_atoms.union(*[atoms_of(s["pc"], s["val"]) for s in stores])
        for q_, f_ in ms.search_implications:
            atoms |= atoms_of(q_, f_)
        for asg in assignments(atoms):
            if any(holds(q_, asg) and not holds(f_, asg) for q_, f_ in ms.search_implications):
                continue          # an entry with the searched property exists although the search over the whole row failed: infeasible
            stored, val = final_value(stores, asg)
            exp_stored = True if ign is None else not (asg[ign] and asg[nan])
            name = "entry" if not cell else "block entry (%d,%d)" % cell
            if stored != exp_stored:
                probs.append("%s, case {%s}: %s but must be %s" % (name, asg_str(asg), "stored" if stored else "left unchanged", "stored" if exp_stored else "left unchanged (NaN filter value with ignore_nans)"))
                break
            if not stored:
                continue
            diag = holds(col_eq, asg) and (not cell or cell[0] == cell[1])
            want = sp.Integer(1) if (kind == "unit" and diag) else sp.Integer(0)
            if sp.expand(val - want) != 0:
                probs.append("%s, case {%s}: stored value is %s, a %s row must hold %s there" % (name, asg_str(asg), val, "unit" if kind == "unit" else "null", want))
                break
    for c in ms.cells:
        if c not in cells:
            probs.append("store to unexpected block entry %s" % (c,))
    return probs


# ---- class methods: path to the kernel, slot roles ---------------------------------------------

SLOT = {  # callee parameter name -> (owner, accessor)   [DESIGN A.1, from the declared parameter names]
    "v": ("vec", "elements"),
    "sv_elements": ("sv", "elements"),
    "nu_elements": ("sv", "elements"),   # SlipFilter keeps the per-dof normals used for filtering in _sv (see slip_filter.hpp / SlipFilterAssembler)
    "sv_indices": ("sv", "indices"),
    "ue": ("sv", "used_elements"),
    "ign_nans": ("field", "_ignore_nans"),
}


def zero_count_test(c, is_count, unwrap):
    """condition c is true exactly if the (unsigned) entry count is zero: n == 0, 0 == n, !n, n < 1, n <= 0, 1 > n, 0 >= n"""
    c = unwrap(c)
    if c.get("k") == "Un" and c.get("op") == "!":
        return is_count(c["e"])
    if c.get("k") != "Bin":
        return False
    l, r, op = unwrap(c["lhs"]), unwrap(c["rhs"]), c["op"]
    if is_count(r) and not is_count(l):
        l, r, op = r, l, {"<": ">", ">": "<", "<=": ">=", ">=": "<=", "==": "=="}.get(op)
    if not (is_count(l) and r.get("k") == "Int" and op):
        return False
    return (op, r["v"]) in (("==", "0"), ("<", "1"), ("<=", "0"))


def dispatcher_targets(dfn, by_decl):
    """Arch dispatcher -> (list of generic kernels it forwards to, problems).  Every path must forward, arguments pass
    through to the like-named parameter."""
    if dfn.name.endswith("_generic"):
        return [dfn], []
    probs, targets = [], []
    struct = dfn.cls
    own = {p["n"] for p in dfn.params}
    fw = []

    def unwrap(e):
        while e is not None and (e.get("k") == "Cast" or (e.get("k") in ("Construct", "TempObj") and len(e.get("a", [])) == 1)):
            e = e["e"] if e.get("k") == "Cast" else e["a"][0]
        return e or {}
    # named temporaries: a never re-assigned local initialised with a parameter stands for that parameter
    modified = {(x.get("lhs") or x.get("e") or {}).get("d") for x in dfn.nodes() if x.get("k") in ("Assign", "Un") and x.get("op") in ("=", "+=", "-=", "*=", "/=", "++", "--")}
    alias = {}
    for x in dfn.nodes():
        if x.get("k") == "Var" and x.get("init") is not None and x.get("d") not in modified:
            e = unwrap(x["init"])
            if e.get("k") == "Ref" and e.get("dk") == "param" and e.get("n") in own and e.get("d") not in modified:
                alias[x["d"]] = e["n"]
            elif e.get("k") == "Ref" and e.get("d") in alias:
                alias[x["d"]] = alias[e["d"]]

    def param_of(a):
        a = unwrap(a)
        if a.get("k") == "Ref" and a.get("dk") == "param" and a.get("n") in own:
            return a["n"]
        if a.get("k") == "Ref" and a.get("d") in alias:
            return alias[a["d"]]
        return None
    for c in dfn.calls():
        cal = c.get("callee", "")
        if cal == "FEAT::Backend::get_preferred_backend":
            continue
        if c.get("ccls") == struct and re.search(r"_(generic|cuda|mkl)$", cal):
            fw.append(c)
            for pn, a in zip(c.get("pn", []), c.get("a", [])):
                got = param_of(a)
                if got is not None and got != pn:
                    probs.append("line %s: %s receives the dispatcher's '%s' in parameter slot '%s'" % (c.get("l"), cal.rsplit("::", 1)[-1], render(a), pn))
                elif got is None:
                    raise Incomplete("dispatcher %s passes %s for slot '%s'" % (dfn.full, render(a), pn))
            t = by_decl.get(c.get("cdecl"))
            if t is None:
                raise Incomplete("kernel %s called by %s has no body in the fact base" % (c.get("cfull"), dfn.full))
            if t not in targets:
                targets.append(t)
        else:
            raise Incomplete("dispatcher %s calls %s" % (dfn.full, cal))
    ids = {c["i"] for c in fw}
    # `if(ue == 0) return;` - nothing to filter: an early-out under the emptiness test of the entry count is no missing kernel call
    for x in dfn.nodes():
        if x.get("k") == "If" and not x.get("else"):
            th = x["then"]
            if th.get("k") == "Block" and len(th.get("s", [])) == 1:
                th = th["s"][0]
            if th.get("k") == "Return" and th.get("e") is None and "i" in th:
                if zero_count_test(x["c"], lambda a: param_of(a) == "ue", unwrap):
                    ids.add(th["i"])
                else:
                    cc = unwrap(x["c"])
                    sides = [unwrap(cc.get("lhs")), unwrap(cc.get("rhs"))] if cc.get("k") == "Bin" and cc.get("op") in ("<", "<=", ">", ">=", "==", "!=") else []
                    if len(sides) == 2 and any(param_of(a) == "ue" for a in sides) and any(a.get("k") == "Int" for a in sides):
                        # threshold on the entry count that is not the emptiness test: a definite defect, not an unknown construct
                        probs.append("line %s: the dispatcher returns without calling a kernel under `%s`, which is not the test for an empty filter: filters with that many entries are silently not applied" % (x.get("l"), render(x["c"])[:60]))
                        ids.add(th["i"])
    if dfn.cfg is None:
        raise Incomplete("no CFG for %s" % dfn.full)
    ok, bad = dfn.cfg.must_pass(lambda n: n.get("i") in ids)
    if not ok:
        raise Incomplete("a path through dispatcher %s reaches its exit without calling a kernel (early-out not modelled)" % dfn.full)
    return targets, probs


def method_summary(facts, fn, by_decl):
    ex = Exec(facts, fn, by_decl).run()
    if ex.stores:
        raise Incomplete("%s stores directly to %s" % (fn.full, ex.stores[0]["arr"]))
    return ex


def guard_problems(pc, what, ex=None):
    """pc must hold whenever there is something to filter; -> (violations, incompletes)"""
    viol, inc = [], []
    atoms = atoms_of(pc)
    free = [a for a in atoms if not BENIGN_FALSE.match(str(a)) and not BENIGN_TRUE.match(str(a))]

    def count_threshold(a):
        """atom compares the filter's own entry count with a number (e.g. used_elements() > 1)"""
        info = ex.atom_info.get(a) if ex is not None else None
        if not info or info[0] not in ("zero", "pos"):
            return False
        fs = info[1].free_symbols
        return len(fs) == 1 and re.match(r"^this\.\w+\.(used_elements|size)$", str(next(iter(fs)))) is not None
    for asg in assignments(atoms):
        if not holds(pc, asg):
            if free and all(count_threshold(a) for a in free):
                viol.append("%s is additionally guarded by %s: filters whose entry count falsifies the guard are silently not applied" % (what, [str(a) for a in free]))
            elif free:
                inc.append("%s is guarded by %s, which is not an understood 'nothing to filter' test" % (what, [str(a) for a in free]))
            else:
                viol.append("%s is not executed although the filter has entries (path condition %s)" % (what, pc))
            break
    return viol, inc


def slot_problems(ev, vecparam, ex):
    probs, inc = [], []
    sv_members = set()
    for pn, val in zip(ev["pn"], ev["args"]):
        if pn not in SLOT:
            inc.append("kernel parameter '%s' has no entry in the role table" % pn)
            continue
        owner, acc = SLOT[pn]
        if isinstance(val, Arr) and val.off != 0:
            inc.append("slot '%s' receives a shifted pointer %s" % (pn, val))
            continue
        recognised = isinstance(val, Arr) or isinstance(val, Obj) or (isinstance(val, sp.Symbol) and re.match(r"^(this\.)?\w+(\.\w+)*$", str(val)))
        if not recognised:
            inc.append("argument %s for slot '%s' is not an accessor of the vector or of a member of the filter" % (val, pn))
            continue
        if isinstance(val, Arr) and val.name.endswith("@pod"):
            val = Arr(val.name[:-4], val.off)        # kernels take the scalar view of (blocked) vectors
        if owner == "vec":
            if not (isinstance(val, Arr) and val.name == "%s.%s" % (vecparam, acc)):
                probs.append("slot '%s' receives %s instead of %s.%s() of the vector being filtered" % (pn, val, vecparam, acc))
        elif owner == "sv":
            nm = val.name if isinstance(val, Arr) else (str(val) if isinstance(val, sp.Symbol) else None)
            m = re.match(r"^this\.(\w+)\.(\w+)$", nm or "")
            if not m or m.group(2) != acc:
                probs.append("slot '%s' receives %s instead of the %s() of the filter's own sparse vector" % (pn, val, acc))
            else:
                sv_members.add(m.group(1))
        else:
            if not (isinstance(val, Obj) and val.path == "this." + acc):
                probs.append("slot '%s' receives %s instead of this->%s" % (pn, val, acc))
    if len(sv_members) > 1:
        probs.append("values / indices / count come from different sparse vectors %s: entry i of one is combined with index i of the other" % sorted(sv_members))
    elif len(sv_members) == 1:
        # the method's own size assertion is its stated belief about which sparse vector indexes the vector
        sv = next(iter(sv_members))
        want = ex.cmp("==", isym("this.%s.size" % sv), isym("%s.size" % vecparam))
        sized = [a for a, _ in ex.asserts if re.search(r"this\.\w+\.size", str(a)) and ("%s.size" % vecparam) in str(a)]
        if sized and not any(a == want for a in sized):
            probs.append("kernel is fed from %s but the method asserts %s (expected %s.size()==%s.size())" % (sv, [str(a) for a in sized], sv, vecparam))
    return probs, inc


# ---- mean filters ---------------------------------------------------------------------------------

MEAN_ROLE = {  # method -> (member dotted with the vector, member added to the vector)   [class docs: "subtract to dual integral
               # mean zero" (rhs/def), "primal integral mean" (sol/cor); mean_filter.hpp filter_sol derivation]
    "filter_rhs": ("_vec_prim", "_vec_dual"),
    "filter_def": ("_vec_prim", "_vec_dual"),
    "filter_sol": ("_vec_dual", "_vec_prim"),
    "filter_cor": ("_vec_dual", "_vec_prim"),
}
HAS_SOL_MEAN = ("FEAT::LAFEM::MeanFilter", "FEAT::LAFEM::MeanFilterBlocked")   # members documented "desired solution vector mean"


def mean_problems(facts, fn, by_decl):
    from sympy.core.function import AppliedUndef
    probs, inc = [], []
    if len(fn.params) != 1:
        raise Incomplete("%s: expected one vector parameter" % fn.full)
    vec = fn.params[0]["n"]
    ex = Exec(facts, fn, by_decl).run()
    if ex.stores:
        raise Incomplete("%s stores directly" % fn.full)
    axs = [e for e in ex.events if e["kind"] == "axpy"]
    if len(ex.events) != len(axs):
        raise Incomplete("%s calls a LAFEM::Arch kernel directly" % fn.full)
    if len(axs) == 0:
        return ["the method has no effect on the vector (no axpy with a weighting vector), although the filter is not empty"], inc
    if len(axs) > 1:
        raise Incomplete("%s updates the vector %d times; the combined effect is not modelled" % (fn.full, len(axs)))
    e = axs[0]
    dot_m, add_m = MEAN_ROLE[fn.name]
    if e["recv"] != vec:
        probs.append("axpy is applied to %s, not to the vector being filtered" % e["recv"])
    if not (isinstance(e["x"], Obj) and e["x"].path == "this." + add_m):
        probs.append("%s adds a multiple of %s; the %s must be corrected along this->%s" % (fn.name, getattr(e["x"], "path", e["x"]), "right-hand side / defect" if dot_m == "_vec_prim" else "solution / correction", add_m))
    blocked = isinstance(e["alpha"], TinyVal)
    ncomp = None
    if blocked:
        ta = targs(fn.cls)
        try:
            ncomp = int(ta[-1])
        except (ValueError, IndexError):
            raise Incomplete("%s: block size not resolved from %s" % (fn.full, fn.cls))
    comps = list(range(ncomp)) if blocked else [None]
    alphas = {c: (e["alpha"].get(c) if blocked else e["alpha"]) for c in comps}
    atoms = atoms_of(e["pc"], *alphas.values())
    for a in list(alphas.values()):
        if isinstance(a, sp.Basic):
            for pw in a.atoms(sp.Piecewise):
                for _, cnd in pw.args:
                    if isinstance(cnd, sp.Basic):
                        atoms |= {s_ for s_ in cnd.free_symbols}
    empty_atoms = [a for a in atoms if re.match(r"^this\.\w+\.empty$", str(a))]
    V = sp.Symbol(vec)
    W = sp.Symbol("this." + dot_m)
    FQ = sp.Symbol("this._vec_freq")
    D = sp.Symbol("D")
    free = sorted(atoms, key=str)
    if len(free) > 8:
        raise Incomplete("too many atoms in %s" % fn.full)
    for bits in itertools.product([False, True], repeat=len(free)):
        asg = dict(zip(free, bits))
        if not holds(e["pc"], asg):
            pcatoms = atoms_of(e["pc"])
            if not any(asg[a] for a in pcatoms if a in empty_atoms):
                if all(a in empty_atoms for a in pcatoms):
                    probs.append("case {%s}: the update is skipped although the filter is not empty" % asg_str(asg))
                else:
                    inc.append("the update is guarded by %s, which is not an emptiness test" % sorted(str(a) for a in pcatoms if a not in empty_atoms))
                break
            continue
        stop = False
        for c in comps:
            a = fold(alphas[c], asg)
            if not isinstance(a, sp.Expr):
                raise Incomplete("%s: axpy factor %r" % (fn.full, a))
            P_, Q_ = sorted([sp.Symbol("this._vec_prim"), sp.Symbol("this._vec_dual")], key=str)
            volsym = sp.Symbol("this._volume")
            a = a.subs({sp.Function("dot")(P_, Q_): volsym, sp.Function("dot_blocked")(P_, Q_): volsym})
            fs = a.atoms(AppliedUndef)
            outer = [f for f in fs if not any(f in g.args or any(f in h.atoms(AppliedUndef) for h in g.args) for g in fs if g is not f)]
            integ = [f for f in outer if fname(f) in ("dot", "dot_blocked", "allsum", "triple_dot", "triple_dot_blocked") or (fname(f) == "comp" and fname(f.args[0]) in ("dot_blocked", "triple_dot_blocked", "allsum"))]
            case = "case {%s}%s" % (asg_str(asg), "" if c is None else ", component %d" % c)
            if len(integ) != 1:
                probs.append("%s: the axpy factor %s contains %d integral terms of the vector (exactly one expected)" % (case, a, len(integ)))
                stop = True
                break
            T = integ[0]
            core = T
            if fname(core) == "comp":
                if core.args[1] != c:
                    probs.append("%s: factor uses component %s of the blocked integral" % (case, core.args[1]))
                    stop = True
                    break
                core = core.args[0]
            elif blocked:
                probs.append("%s: factor %s is not built from component %d of a blocked integral" % (case, a, c))
                stop = True
                break
            if fname(core) == "allsum":
                core = core.args[0]
                if fname(core) not in ("triple_dot", "triple_dot_blocked"):
                    raise Incomplete("%s: allreduce of %s" % (fn.full, core))
                ops = set(core.args)
                if ops != {V, W, FQ}:
                    probs.append("%s: global integral is triple_dot over %s; %s needs the vector weighted by this->%s (and the frequency vector)" % (case, sorted(str(o) for o in ops), fn.name, dot_m))
                    stop = True
                    break
            elif fname(core) in ("triple_dot", "triple_dot_blocked"):
                probs.append("%s: a local triple_dot is used without summing it over the communicator" % case)
                stop = True
                break
            else:
                ops = set(core.args)
                if ops != {V, W}:
                    probs.append("%s: the vector is integrated against %s; %s needs the dot product of the vector with this->%s" % (case, sorted(str(o) for o in ops - {V}) or sorted(str(o) for o in ops), fn.name, dot_m))
                    stop = True
                    break
            vol = sp.Symbol("this._volume") if c is None else sp.Function("comp")(sp.Symbol("this._volume"), sp.Integer(c))
            mean = sp.Symbol("this._sol_mean") if c is None else sp.Function("comp")(sp.Symbol("this._sol_mean"), sp.Integer(c))
            a2 = a.subs(T, D)
            c0 = sp.simplify(a2.subs(D, 0))
            if D in c0.free_symbols or not is_zero(a2 - (c0 - D / vol)):
                probs.append("%s: the axpy factor is %s; with <prim,dual>=_volume the filtered vector has the prescribed mean (and a second application changes nothing) only if the factor is c - D/_volume" % (case, a2))
                stop = True
                break
            want0 = mean if (fn.name == "filter_sol" and base_name(fn.cls) in HAS_SOL_MEAN) else sp.Integer(0)
            if not is_zero(c0 - want0):
                probs.append("%s: constant part of the factor is %s, expected %s" % (case, c0, want0))
                stop = True
                break
        if stop:
            break
    return probs, inc


# ---- compositions (E4 MAP) ------------------------------------------------------------------------

MEMBER_LABEL = {"_first": "first", "_rest": "rest", "_filter": "local"}
FILTER_METHODS = ("filter_rhs", "filter_sol", "filter_def", "filter_cor", "filter_mat")


def recv_label(n, by_decl, alias=None):
    """projection of the composite filter a component call is made on (reference / pointer alias locals resolved)"""
    while n.get("k") == "Cast" and n.get("e") is not None:
        n = n["e"]
    if n.get("k") == "Un" and n.get("op") == "*" and (n.get("e") or {}).get("k") == "Ref":
        n = n["e"]          # *p for a pointer alias p
    if n.get("k") == "Ref" and alias is not None and n.get("d") in alias:
        kind, lab = alias[n["d"]]
        return lab if kind == "recv" else None
    if n.get("k") == "Member" and (n.get("b") or {}).get("k") == "This":
        return MEMBER_LABEL.get(n["n"])
    if n.get("k") == "MCall" and (n.get("obj") or {}).get("k") == "This" and not n.get("a"):
        f = by_decl.get(n.get("cdecl"))
        if f is None or f.body is None:
            return None
        st = [s for s in f.body.get("s", [])]
        if len(st) == 1 and st[0].get("k") == "Return":
            e = st[0].get("e") or {}
            if e.get("k") == "Member" and (e.get("b") or {}).get("k") == "This":
                return MEMBER_LABEL.get(e["n"])
        return None
    return None


def arg_label(n, vecparam_d, alias=None):
    """'whole' for the vector parameter itself, else the dotted projection path (first / rest / local / rest.first ...);
    reference / pointer alias locals are resolved"""
    while n.get("k") == "Cast" and n.get("e") is not None:
        n = n["e"]
    if n.get("k") == "Un" and n.get("op") == "*" and (n.get("e") or {}).get("k") == "Ref":
        n = n["e"]
    if n.get("k") == "Ref" and n.get("d") == vecparam_d:
        return "whole"
    if n.get("k") == "Ref" and alias is not None and n.get("d") in alias:
        kind, lab = alias[n["d"]]
        return lab if kind == "arg" else None
    if n.get("k") == "MCall" and not n.get("a") and n.get("n") in ("first", "rest", "local"):
        inner = arg_label(n.get("obj") or {}, vecparam_d, alias)
        if inner is None:
            return None
        return n["n"] if inner == "whole" else inner + "." + n["n"]
    return None


def expected_components(fn):
    b = base_name(fn.cls)
    ta = targs(fn.cls)
    if b in ("FEAT::LAFEM::FilterChain", "FEAT::LAFEM::TupleFilter"):
        return (["first", "rest"] if len(ta) > 1 else ["first"]), ("whole" if b.endswith("FilterChain") else "same"), b.endswith("FilterChain")
    if b == "FEAT::LAFEM::PowerFilter":
        return (["first", "rest"] if int(ta[1]) > 1 else ["first"]), "same", False
    if b == "FEAT::Global::Filter":
        return ["local"], "same", False
    return None


def map_problems(fn, by_decl, as_name=None):
    """-> (violations, incompletes, n_component_calls)"""
    viol, inc = [], []
    if len(fn.params) != 1:
        return viol, ["%s: expected one parameter" % fn.full], 0
    pd = fn.params[0]["d"]
    b = base_name(fn.cls)
    stmts = fn.body.get("s", []) if fn.body and fn.body.get("k") == "Block" else None
    if stmts is None:
        return viol, ["%s: body is not a block" % fn.full], 0
    if b == "FEAT::LAFEM::FilterSequence":
        this_alias = set()       # reference locals bound to *this (`const BaseClass& sequence = *this;`)
        visitor_call = None
        if len(stmts) == 1 and stmts[0].get("k") == "MCall" and (stmts[0].get("obj") or {}).get("k") == "This" and stmts[0].get("ccls") == fn.cls \
           and len(stmts[0].get("a", [])) == 1:
            # visitor form: the traversal lives in one private helper `_apply(Func_&& func)` that calls func(<element>.second) for
            # every element; the method hands it a lambda `[&](const Filter_& f) { f.filter_X(vector); }`
            lam = stmts[0]["a"][0]
            while lam.get("k") in ("Cast", "Construct", "TempObj") and (lam.get("e") is not None or len(lam.get("a", [])) == 1):
                lam = lam["e"] if lam.get("e") is not None else lam["a"][0]
            g = by_decl.get(stmts[0].get("cdecl"))
            lf = by_decl.get(lam.get("op_decl")) if lam.get("k") == "Lambda" else None
            if g is None or lf is None or g.body is None or lf.body is None or len(g.params) != 1 or len(lf.params) != 1:
                return viol, ["%s: body is a call of %s, which is not a traversal helper taking a lambda" % (fn.full, stmts[0].get("n"))], 0
            gst = list(g.body.get("s", []))
            while gst and gst[0].get("k") == "Decl" and all(v.get("ref") and (v.get("init") or {}).get("k") == "Un" and v["init"].get("op") == "*"
                                                            and (v["init"].get("e") or {}).get("k") == "This" for v in gst[0].get("vars", [])):
                this_alias |= {v["d"] for v in gst[0]["vars"]}
                gst = gst[1:]
            lst = [x for x in lf.body.get("s", [])]
            if len(gst) != 1 or gst[0].get("k") not in ("For", "ForRange") or len(lst) != 1 or lst[0].get("k") != "MCall" \
               or (lst[0].get("obj") or {}).get("d") != lf.params[0].get("d"):
                return viol, ["%s: traversal helper %s / its lambda are not `loop { func(element.second); }` and `[&](const Filter_& f) { f.filter_X(v); }`" % (fn.full, g.name)], 0
            hl = gst[0]
            hb = hl["body"]
            if hb.get("k") == "Block" and len(hb.get("s", [])) == 1:
                hb = hb["s"][0]
            if not (hb.get("k") == "OpCall" and hb.get("op") == "()" and len(hb.get("a", [])) == 2 and (hb["a"][0] or {}).get("k") == "Ref"
                    and hb["a"][0].get("d") == g.params[0].get("d")):
                return viol, ["%s: the loop of %s does not call its functor parameter with the current element (%s)" % (fn.full, g.name, render(hb)[:60])], 0
            visitor_call = {"k": "MCall", "n": lst[0].get("n"), "obj": hb["a"][1], "a": lst[0].get("a", []), "l": lst[0].get("l")}
            stmts = [dict(hl, body=visitor_call)]
        if len(stmts) != 1 or stmts[0].get("k") not in ("For", "ForRange"):
            return viol, ["%s: body is not a single loop over the sub-filters" % fn.full], 0
        lp = stmts[0]
        call = lp["body"]
        body_alias = {}       # reference aliases declared in the loop body in front of the call (`auto& flt = it->second;`)
        if call.get("k") == "Block" and len(call.get("s", [])) >= 1:
            pre, call = call["s"][:-1], call["s"][-1]
            for st in pre:
                ok_ = st.get("k") == "Decl" and all(v.get("ref") and v.get("init") is not None and
                                                    all(x.get("k") in ("Ref", "Member", "OpCall", "Un", "Cast", "MCall") and (x.get("k") != "MCall" or x.get("cconst") or x.get("n") in ("at", "operator[]"))
                                                        for x in walk(v["init"])) for v in st.get("vars", []))
                if not ok_:
                    return viol, ["%s: statement `%s` in the loop over the sub-filters is not a reference alias or the sub-filter call" % (fn.full, render(st)[:60])], 0
                for v in st["vars"]:
                    body_alias[v["d"]] = v["init"]

        def unalias(x):
            for _ in range(4):
                y = x
                while y.get("k") == "Cast" and y.get("e") is not None:
                    y = y["e"]
                if y.get("k") == "Ref" and y.get("d") in body_alias:
                    x = body_alias[y["d"]]
                else:
                    break
            return x
        if call.get("k") == "MCall" and call.get("obj") is not None and body_alias:
            o_ = unalias(call["obj"])
            if o_.get("k") == "Member" and o_.get("b") is not None:
                o_ = dict(o_, b=unalias(o_["b"]))
            call = dict(call, obj=o_)
        if lp["k"] == "For":
            init = lp.get("init") or {}
            var = (init.get("vars") or [{}])[0]
            ini = var.get("init") or {}
            ok_init = init.get("k") == "Decl" and ini.get("k") == "MCall" and ini.get("n") in ("begin", "cbegin") and (ini.get("obj") or {}).get("k") == "This" and not ini.get("a")
            c = lp.get("c") or {}
            ok_c = c.get("k") == "OpCall" and c.get("op") == "!=" and len(c.get("a", [])) == 2
            if ok_c:
                sides = c["a"]
                it_side = [x for x in sides if x.get("k") == "Ref" and x.get("d") == var.get("d")]
                end_side = [x for x in sides if x.get("k") == "MCall" and x.get("n") in ("end", "cend") and (x.get("obj") or {}).get("k") == "This" and not x.get("a")]
                ok_c = len(it_side) == 1 and len(end_side) == 1
            inc_ = lp.get("inc") or {}
            ok_inc = inc_.get("k") == "OpCall" and inc_.get("op") == "++" and inc_["a"][0].get("d") == var.get("d")
            idx_loop = False
            if not (ok_init and ok_c and ok_inc):
                okI = init.get("k") == "Decl" and ini.get("k") in ("Int", "Cast") and render(ini).rstrip(")").endswith("0")
                okC = c.get("k") == "Bin" and c.get("op") in ("<", "!=") and (c.get("lhs") or {}).get("d") == var.get("d") and (c.get("rhs") or {}).get("k") == "MCall" and c["rhs"].get("n") == "size" and (c["rhs"].get("obj") or {}).get("k") == "This" and not c["rhs"].get("a")
                okS = (inc_.get("k") == "Un" and inc_.get("op") == "++" and (inc_.get("e") or {}).get("d") == var.get("d"))
                idx_loop = bool(okI and okC and okS)
            if idx_loop:
                o = call.get("obj") or {} if call.get("k") == "MCall" else {}
                bb = o.get("b") or {}
                at_ok = o.get("k") == "Member" and o.get("n") == "second" and (
                    (bb.get("k") == "MCall" and bb.get("n") in ("at", "operator[]") and (bb.get("obj") or {}).get("k") == "This" and len(bb.get("a", [])) == 1 and bb["a"][0].get("d") == var.get("d")) or
                    (bb.get("k") == "OpCall" and bb.get("op") == "[]" and len(bb.get("a", [])) == 2 and bb["a"][1].get("d") == var.get("d")))
                if not (call.get("k") == "MCall" and call.get("n", "").startswith("filter_") and at_ok):
                    return viol, ["%s: index loop body is not `this->at(i).second.filter_X(vector)` (%s)" % (fn.full, render(call)[:80])], 0
                if call["n"] != fn.name:
                    viol.append("line %s: %s applies %s of every sub-filter (method parity broken)" % (call.get("l"), fn.name, call["n"]))
                if len(call.get("a", [])) != 1 or arg_label(call["a"][0], pd) != "whole":
                    viol.append("line %s: sub-filters are applied to %s instead of the vector being filtered" % (call.get("l"), render(call["a"][0]) if call.get("a") else "nothing"))
                return viol, inc, 1
            if not (ok_init and ok_c and ok_inc):
                return viol, ["%s: loop is not `for(it = begin(); it != end(); ++it)` over the filter's own container (%s; %s; %s)" % (fn.full, render(init), render(c), render(inc_))], 0
            elem_d = var.get("d")
        else:
            rng = lp.get("range") or {}
            while rng.get("k") == "Cast" and rng.get("e") is not None:
                rng = rng["e"]
            if not ((rng.get("k") == "Un" and rng.get("op") == "*" and (rng.get("e") or {}).get("k") == "This") or
                    (rng.get("k") == "Ref" and rng.get("d") in this_alias)):
                return viol, ["%s: range-for does not run over *this (%s)" % (fn.full, render(rng))], 0
            elem_d = lp["var"].get("d")
        if not (call.get("k") == "MCall" and call.get("n", "").startswith("filter_")):
            return viol, ["%s: loop body is not a single sub-filter call (%s)" % (fn.full, render(call)[:80])], 0
        o = call.get("obj") or {}
        okrecv = o.get("k") == "Member" and o.get("n") == "second"
        if okrecv:
            bb = o.get("b") or {}
            if bb.get("k") == "OpCall" and bb.get("op") in ("->", "*"):
                bb = bb["a"][0]
            okrecv = bb.get("k") == "Ref" and bb.get("d") == elem_d
        if not okrecv:
            return viol, ["%s: sub-filter call is not made on the current element's filter (%s)" % (fn.full, render(o))], 0
        if call["n"] != fn.name:
            viol.append("line %s: %s applies %s of every sub-filter (method parity broken: a %s vector would be filtered as a %s vector)" % (call.get("l"), fn.name, call["n"], fn.name[7:], call["n"][7:]))
        if len(call.get("a", [])) != 1 or arg_label(call["a"][0], pd) != "whole":
            viol.append("line %s: sub-filters are applied to %s instead of the vector being filtered" % (call.get("l"), render(call["a"][0]) if call.get("a") else "nothing"))
        return viol, inc, 1
    exp = expected_components(fn)
    if exp is None:
        return viol, ["%s: unknown composition class" % fn.full], 0
    comps, argrule, ordered = exp
    role = as_name or fn.name          # the filter operation this function performs (a private helper plays the role of its caller)
    seen = []
    alias = {}       # decl id of a reference / pointer alias local (or of a parameter of an inlined helper) -> ("recv", component label) | ("arg", sub-vector label)

    def const_cond(c):
        """value of an `if constexpr` condition over template constants: True / False / None"""
        def val(e):
            while e is not None and e.get("k") == "Cast":
                e = e.get("e")
            if e is None:
                return None
            if e.get("k") in ("Int", "Bool"):
                return int(e["v"]) if e["k"] == "Int" else int(bool(e["v"]))
            if e.get("k") in ("Ref", "Member") and "v" in e:
                return int(e["v"])
            return None
        c0 = c
        while c0 is not None and c0.get("k") == "Cast":
            c0 = c0.get("e")
        if c0 is not None and c0.get("k") == "Bin" and c0.get("op") in ("==", "!=", "<", ">", "<=", ">="):
            x, y = val(c0["lhs"]), val(c0["rhs"])
            if x is not None and y is not None:
                return {"==": x == y, "!=": x != y, "<": x < y, ">": x > y, "<=": x <= y, ">=": x >= y}[c0["op"]]
        v = val(c0)
        return None if v is None else bool(v)

    def component_call(s, name, rl, al):
        if name != role:
            viol.append("line %s: %s calls %s() on component '%s' (method parity broken)" % (s.get("l"), role, name, rl))
        want_arg = "whole" if argrule == "whole" else rl
        if al != want_arg:
            viol.append("line %s: component '%s' filters %s of the vector, must filter %s" % (s.get("l"), rl, "the " + al + "() part" if al != "whole" else "the whole", "the " + want_arg + "() part" if want_arg != "whole" else "the whole vector"))
        seen.append(rl)

    def bind(callee, args, what):
        """parameters of an inlined helper stand for the component / (sub-)vector they receive; False if an argument is not understood"""
        ok = True
        for prm, a in zip(callee.params, args):
            rl = recv_label(a, by_decl, alias)
            al = arg_label(a, pd, alias)
            if rl is not None:
                alias[prm["d"]] = ("recv", rl)
            elif al is not None:
                alias[prm["d"]] = ("arg", al)
            elif const_cond(a) is None and a.get("k") not in ("Int", "Bool", "Str"):
                inc.append("%s: argument `%s` of %s is neither a component nor a (sub-)vector" % (fn.full, render(a)[:50], what))
                ok = False
        return ok

    def proc(sts, cur, depth):
        for s in sts:
            k = s.get("k")
            if k == "Block":
                proc(s.get("s", []), cur, depth)
                continue
            if k == "Decl":
                # static_assert (no variables) / named aliases of a component or of a sub-vector
                for v in s.get("vars", []):
                    ini = v.get("init")
                    ty = (cur.type(v["t"]) or "").strip()
                    if ini is not None and ini.get("k") == "Un" and ini.get("op") == "&" and ty.rstrip("const ").endswith("*"):
                        ini, is_alias = ini["e"], True
                    else:
                        is_alias = bool(v.get("ref"))
                    rl = recv_label(ini, by_decl, alias) if ini is not None and is_alias else None
                    al = arg_label(ini, pd, alias) if ini is not None and is_alias else None
                    if rl is not None:
                        alias[v["d"]] = ("recv", rl)
                    elif al is not None:
                        alias[v["d"]] = ("arg", al)
                    else:
                        inc.append("%s: statement `%s` is not a component call (nor a reference alias of a component / sub-vector)" % (fn.full, render(s)[:80]))
                continue
            if k == "Call" and s.get("callee") == "FEAT::assertion":
                continue
            if k == "If" and s.get("constexpr"):
                cv = const_cond(s.get("c"))
                if cv is None:
                    inc.append("%s: `if constexpr(%s)` not evaluated" % (fn.full, render(s.get("c"))[:50]))
                else:
                    br = s.get("then") if cv else s.get("else")
                    if br is not None:
                        proc([br], cur, depth)
                continue
            if k == "MCall" and s.get("n", "").startswith("filter_"):
                rl = recv_label(s.get("obj") or {}, by_decl, alias)
                if rl is None:
                    inc.append("%s: component receiver %s not understood" % (fn.full, render(s.get("obj") or {})))
                    continue
                al = arg_label(s["a"][0], pd, alias) if len(s.get("a", [])) == 1 else None
                if al is None:
                    inc.append("%s: component argument %s not understood" % (fn.full, render(s["a"][0]) if s.get("a") else "-"))
                    continue
                component_call(s, s["n"], rl, al)
                continue
            callee = by_decl.get(s.get("cdecl")) if k in ("MCall", "Call") else None
            if callee is not None and callee.body is not None and depth < 4 and callee is not cur:
                own = k == "MCall" and (s.get("obj") or {"k": "This"}).get("k") == "This" and s.get("ccls") == fn.cls
                if own or k == "Call":
                    # private helper of the class / free helper: its statements are executed in place, its parameters bound to what they receive
                    if bind(callee, s.get("a", []), callee.name):
                        proc(callee.body.get("s", []) if callee.body.get("k") == "Block" else [callee.body], callee, depth + 1)
                    continue
                rl = recv_label(s.get("obj") or {}, by_decl, alias) if k == "MCall" else None
                if rl is not None and expected_components(callee) is not None and len(s.get("a", [])) == 1:
                    # a helper of the COMPONENT's class called on the component (`_rest._filter_vec<op>(v)`): it counts as the component's
                    # filter operation if, judged as that operation of its own class, it applies it to all of its components
                    al = arg_label(s["a"][0], pd, alias)
                    v2, i2, _ = map_problems(callee, by_decl, as_name=role)
                    if al is None or i2:
                        inc.append("%s: call `%s` on component '%s' not understood (%s)" % (fn.full, render(s)[:50], rl, (i2 or ["argument"])[0][:120]))
                    elif v2:
                        viol.append("line %s: component '%s' is filtered through %s, which is not its %s: %s" % (s.get("l"), rl, callee.name, role, v2[0][:160]))
                        seen.append(rl)
                    else:
                        component_call(s, role, rl, al)
                    continue
            if k == "For":
                # indexed form: for(i = 0; i < count; ++i) this->get(i).filter_X(vector.get(i));
                r_ = indexed_loop(s, cur)
                if r_ is not None:
                    continue
            inc.append("%s: statement `%s` is not a component call" % (fn.full, render(s)[:80]))

    def indexed_loop(s, cur):
        init, c, inc_ = s.get("init") or {}, s.get("c") or {}, s.get("inc") or {}
        var = (init.get("vars") or [None])[0] if init.get("k") == "Decl" and len(init.get("vars", [])) == 1 else None
        if var is None or const_cond(var.get("init")) is None and (var.get("init") or {}).get("k") != "Int":
            return None
        lo = int((var.get("init") or {}).get("v", "x")) if (var.get("init") or {}).get("k") == "Int" else None

        def cval(e):
            while e is not None and e.get("k") == "Cast":
                e = e.get("e")
            if e is not None and (e.get("k") == "Int" or "v" in e):
                try:
                    return int(e["v"])
                except (TypeError, ValueError):
                    return None
            if e is not None and e.get("k") == "Bin" and e.get("op") in ("+", "-", "*"):
                x_, y_ = cval(e["lhs"]), cval(e["rhs"])
                if x_ is not None and y_ is not None:
                    return x_ + y_ if e["op"] == "+" else (x_ - y_ if e["op"] == "-" else x_ * y_)
            return None
        hi = cval(c.get("rhs")) if c.get("k") == "Bin" and c.get("op") in ("<", "!=") and (c.get("lhs") or {}).get("d") == var.get("d") else None
        step = inc_.get("k") == "Un" and inc_.get("op") == "++" and (inc_.get("e") or {}).get("d") == var.get("d")
        body = s.get("body") or {}
        if body.get("k") == "Block" and len(body.get("s", [])) == 1:
            body = body["s"][0]
        if lo is None or hi is None or not step or body.get("k") != "MCall" or not body.get("n", "").startswith("filter_") or len(body.get("a", [])) != 1:
            return None
        o, a = body.get("obj") or {}, body["a"][0]

        def is_get_i(x, on_this):
            return x.get("k") == "MCall" and x.get("n") == "get" and len(x.get("a", [])) == 1 and (x["a"][0] or {}).get("d") == var.get("d") and \
                (((x.get("obj") or {"k": "This"}).get("k") == "This" and x.get("ccls") == fn.cls) if on_this else arg_label(x.get("obj") or {}, pd, alias) == "whole")
        if is_get_i(o, True) and not is_get_i(a, False) and a.get("k") == "MCall" and a.get("n") == "get" and arg_label(a.get("obj") or {}, pd, alias) == "whole":
            viol.append("line %s: component get(%s) filters the sub-vector get(%s) instead of its own part get(%s)" % (body.get("l"), var.get("n"), render(a["a"][0]) if a.get("a") else "?", var.get("n")))
            seen.extend(comps)
            return True
        if not (is_get_i(o, True) and is_get_i(a, False)):
            return None
        # get(i) of the composite is its i-th component: `return (i == 0) ? _first : _rest.get(i - 1);`
        g = by_decl.get(o.get("cdecl"))
        rets = [x for x in g.nodes() if x.get("k") == "Return"] if g is not None and g.body is not None else []
        okget = False
        if len(rets) == 1 and (rets[0].get("e") or {}).get("k") == "Cond":
            ce = rets[0]["e"]
            th, el = ce.get("then") or {}, ce.get("else") or {}
            okget = th.get("k") == "Member" and MEMBER_LABEL.get(th.get("n")) == "first" and el.get("k") == "MCall" and el.get("n") == "get" \
                and (el.get("obj") or {}).get("k") == "Member" and MEMBER_LABEL.get(el["obj"].get("n")) == "rest"
        if not okget:
            inc.append("%s: get(i) of %s is not recognised as the accessor of the i-th component" % (fn.full, short(fn.cls)))
            return True
        try:
            n_comp = int(targs(fn.cls)[1])
        except (ValueError, IndexError):
            return None
        if body["n"] != role:
            viol.append("line %s: %s calls %s() on every component get(i) (method parity broken)" % (body.get("l"), role, body["n"]))
        if lo != 0 or hi != n_comp:
            viol.append("line %s: the loop applies the components [%d,%d) only; the filter has %d components" % (s.get("l"), lo, hi, n_comp))
            seen.extend(comps[:1])
        else:
            seen.extend(comps)          # component i on sub-vector i, i = 0 .. count-1: every component once, on its own part
        return True

    proc(stmts, fn, 0)
    if inc:
        return viol, inc, len(seen)      # an unmodelled statement may filter the missing component: no 'missing' verdict
    for cpt in comps:
        if seen.count(cpt) == 0:
            viol.append("component '%s' is never filtered by %s" % (cpt, role))
        elif seen.count(cpt) > 1:
            viol.append("component '%s' is filtered %d times by %s" % (cpt, seen.count(cpt), role))
    for cpt in set(seen) - set(comps):
        viol.append("unexpected component '%s'" % cpt)
    if ordered and not viol and seen != comps:
        viol.append("components are applied in the order %s; a filter chain applies its sub-filters in the declared order %s (later filters may overwrite earlier ones)" % (seen, comps))
    return viol, inc, len(seen)


# ---- copy-like operations transfer the state the filter methods read ------------------------------------------------

COPY_OPS = ("move-ctor", "move-assign", "clone()", "clone(other)", "convert(other)")
FILTER_CLASSES = ("FEAT::LAFEM::UnitFilter", "FEAT::LAFEM::UnitFilterBlocked", "FEAT::LAFEM::SlipFilter", "FEAT::LAFEM::MeanFilter",
                  "FEAT::LAFEM::MeanFilterBlocked", "FEAT::Global::MeanFilter", "FEAT::LAFEM::FilterChain", "FEAT::LAFEM::TupleFilter",
                  "FEAT::LAFEM::PowerFilter", "FEAT::LAFEM::FilterSequence", "FEAT::Global::Filter")


def copy_op_kind(f):
    """which copy-like operation of its class a function is (None if it is not one)"""
    ptypes = [f.type(p["t"]).replace("const", "").replace(" ", "") for p in f.params]
    own = f.cls.replace(" ", "")
    sugar = base_name(f.cls).rsplit("::", 1)[-1]

    def is_own(t, suffix):
        t0 = t[:-len(suffix)] if t.endswith(suffix) else None
        return t0 is not None and (t0 == own or t0 == sugar or t0.endswith("::" + sugar) or base_name(t0) == base_name(own).replace(" ", ""))
    if f.d.get("ctor"):
        return "move-ctor" if len(ptypes) == 1 and is_own(ptypes[0], "&&") else None
    if f.name == "operator=" and len(ptypes) == 1:
        return "move-assign"
    if f.name == "clone":
        if len(ptypes) == 1:
            return "clone()"
        if len(ptypes) == 2 and is_own(ptypes[0], "&"):
            return "clone(other)"
    if f.name == "convert" and len(ptypes) == 1:
        return "convert(other)"
    return None


class CopyFlow:
    """may-dataflow of 'which member of the source object defines which member of the target' through one copy-like operation"""

    def __init__(self, facts, by_decl):
        self.facts = facts
        self.by_decl = by_decl
        self.memo = {}
        self.last_defects = {}

    def getter_member(self, n):
        """x.get_foo() / x.local() whose body is `return <own field>;` -> field name"""
        f = self.by_decl.get(n.get("cdecl"))
        if f is None or f.body is None or n.get("a"):
            return None
        st = f.body.get("s", [])
        if len(st) == 1 and st[0].get("k") == "Return":
            e = st[0].get("e") or {}
            while e.get("k") in ("Construct", "TempObj", "Cast") and (len(e.get("a", [])) == 1 or e.get("e") is not None):
                e = e["a"][0] if e.get("a") else e["e"]        # by-value return of a class-type member (copy construction)
            if e.get("k") == "Member" and (e.get("b") or {}).get("k") == "This" and e.get("field"):
                return e["n"]
        return None

    def touches_base(self, g):
        """own method that reads / modifies the std:: base container of the class (e.g. a find-or-append helper)"""
        key = ("tb", g.d["decl"])
        if key not in self.memo:
            self.memo[key] = any(x.get("k") == "MCall" and (x.get("obj") or {}).get("k") == "This" and x.get("ccls") and x["ccls"] != g.cls and x["ccls"].startswith("std::") for x in g.nodes())
        return self.memo[key]

    def is_src(self, n, src):
        if src == "this":
            return n.get("k") == "This" or (n.get("k") == "Un" and n.get("op") == "*" and (n.get("e") or {}).get("k") == "This")
        return n.get("k") == "Ref" and n.get("d") == src

    def target_member(self, n):
        """expression denoting a data member of *this (field access or accessor returning it)"""
        if n.get("k") == "Member" and n.get("field") and (n.get("b") or {}).get("k") == "This":
            return n["n"]
        if n.get("k") == "MCall" and (n.get("obj") or {}).get("k") == "This":
            return self.getter_member(n)
        return None

    def tags(self, n, src, env, fn):
        """set of source-member names (or '*' whole source, '?' unknown, 'p:<decl>' parameter, 'm:<name>' own member) an expression derives from"""
        if n is None or not isinstance(n, dict):
            return set()
        k = n.get("k")
        if self.is_src(n, src):
            return {"*"}
        if k == "Member" and n.get("field"):
            b = n.get("b") or {}
            if self.is_src(b, src):
                return {n["n"]}
            if b.get("k") == "This":
                return {"m:" + n["n"]}
        if k == "MCall" and n.get("obj") is not None and not n.get("a"):
            o = n["obj"]
            if self.is_src(o, src) or o.get("k") == "This":
                g = self.getter_member(n)
                if g is not None:
                    return {g} if self.is_src(o, src) else {"m:" + g}
                if n.get("ccls") and n.get("ccls") != fn.cls and n["ccls"].startswith("std::"):
                    return {"*"} if self.is_src(o, src) else {"m:<base>"}      # container interface of the base class
                if self.is_src(o, src):
                    return {"?"}
        if k == "MCall" and n.get("obj") is not None and n.get("a") and n.get("ccls") and n.get("ccls") != fn.cls and n["ccls"].startswith("std::"):
            o = n["obj"]
            if self.is_src(o, src):
                return {"*"}          # other.at(i), other[i]
            if o.get("k") == "This":
                return {"m:<base>"}
        if k == "Ref":
            if n.get("d") in env:
                return set(env[n["d"]])
            if n.get("dk") == "param":
                return {"p:%s" % n["d"]}
            return set()
        out = set()
        for c in featlib.children(n):
            out |= self.tags(c, src, env, fn)
        return out

    def ctor_map(self, ctor):
        """constructor: member -> set of 'p:<decl>' / 'm:<member>' tags it is initialised / assigned from"""
        key = ("ctor", ctor.d["decl"])
        if key not in self.memo:
            self.memo[key] = self.transfers(ctor, None)[0]
        return self.memo[key]

    def transfers(self, fn, src):
        """-> (dict target member -> tags, list of not-understood constructs).  src: decl id of the source parameter, 'this', or None (plain ctor)"""
        T, unknown = {}, []
        env = {}         # local object / value -> tags or, for objects of the own class, a summary dict under key ('obj', decl)
        objs = {}
        defects = {}     # member -> definite defect of its transfer (partial extent, wrong component)
        elem = {}        # member -> {component: tags}, extent        (component-wise transfer of Tiny members)
        extent = {}
        ival = {}        # loop variable decl -> current constant value while a constant loop is unrolled

        def add(m, tg):
            if tg:
                T.setdefault(m, set()).update(tg)

        for i in fn.d.get("inits", []) or []:
            if i.get("member"):
                add(i["member"], self.tags(i["init"], src, env, fn))
            elif i.get("base"):
                tg = self.tags(i["init"], src, env, fn)
                if tg:
                    add("<base>", tg)

        def own_object_summary(e):
            """summary (member -> tags) of an expression of the own class type built from the source, or None"""
            if e is None:
                return None
            while e.get("k") == "Cast" and e.get("e") is not None:
                e = e["e"]
            kk = e.get("k")
            if kk == "Call" and e.get("callee") in ("std::move", "std::forward") and len(e.get("a", [])) == 1:
                return own_object_summary(e["a"][0])
            if kk == "Ref" and e.get("d") in objs:
                return objs[e["d"]]
            if kk in ("Construct", "TempObj") and e.get("ccls") == fn.cls:
                args = e.get("a", [])
                ctor = self.by_decl.get(e.get("cdecl"))
                if len(args) == 1:
                    inner = own_object_summary(args[0])
                    if inner is not None:
                        return inner          # copy / move construction from an object of the same class
                if ctor is None:
                    return None
                cm = self.ctor_map(ctor)
                pidx = {"p:%s" % p["d"]: k_ for k_, p in enumerate(ctor.params)}
                out = {}
                for m, tg in cm.items():
                    res = set()
                    for t in tg:
                        if t in pidx and pidx[t] < len(args):
                            res |= self.tags(args[pidx[t]], src, env, fn)
                        elif t.startswith("m:"):
                            res.add("derived:" + t[2:])
                        else:
                            res.add(t)
                    out[m] = res
                return out
            return None

        def local_obj_member(e):
            """`obj._m` for a local object of the own class -> (summary dict, member)"""
            if e.get("k") == "Member" and e.get("field") and (e.get("b") or {}).get("k") == "Ref" and e["b"].get("d") in objs:
                return objs[e["b"]["d"]], e["n"]
            return None

        def map_params(callee, args):
            """transfers of an own method (setter / helper) with its parameters replaced by the tags of the arguments"""
            key = ("fn", callee.d["decl"])
            if key not in self.memo:
                self.memo[key] = self.transfers(callee, None)
            cm, unk = self.memo[key]
            pidx = {"p:%s" % p["d"]: k_ for k_, p in enumerate(callee.params)}
            out = {}
            for m, tg in cm.items():
                res = set()
                for t in tg:
                    if t in pidx and pidx[t] < len(args):
                        res |= self.tags(args[pidx[t]], src, env, fn)
                    elif t.startswith("m:"):
                        res.add("derived:" + t[2:])
                    else:
                        res.add(t)
                out[m] = res
            return out, unk

        def const_int(e):
            if e is None:
                return None
            while e.get("k") == "Cast" and e.get("e") is not None:
                e = e["e"]
            if e.get("k") == "Int":
                return int(e["v"])
            if e.get("k") == "Ref" and e.get("d") in ival:
                return ival[e["d"]]
            if e.get("k") in ("Ref", "Member") and "v" in e:
                return int(e["v"])
            if e.get("k") == "Bin" and e.get("op") in ("+", "-"):
                a_, b_ = const_int(e["lhs"]), const_int(e["rhs"])
                if a_ is not None and b_ is not None:
                    return a_ + b_ if e["op"] == "+" else a_ - b_
            return None

        def tiny_elem(e):
            """`x[c]` / `x(c)` on a Tiny::Vector -> (base expr, component, extent) with a constant component, else None"""
            if e.get("k") == "OpCall" and e.get("op") in ("[]", "()") and len(e.get("a", [])) == 2:
                m_ = re.match(r"^FEAT::Tiny::Vector<[^,<>]+,\s*(\d+)", e.get("ccls", "") or "")
                if m_:
                    return e["a"][0], const_int(e["a"][1]), int(m_.group(1))
            return None

        def base_target(e):
            """receiver chain rooted in *this (or a local object of the class) that goes through the container interface of a std:: base class"""
            through_base = False
            cur = e
            for _ in range(12):
                kk_ = cur.get("k")
                if kk_ == "This":
                    return ("this", "<base>") if through_base else None
                if kk_ == "Ref":
                    return ("obj", cur["d"]) if through_base and cur.get("d") in objs else None
                if kk_ == "Member":
                    cur = cur.get("b") or {}
                elif kk_ == "MCall":
                    if cur.get("ccls") and cur["ccls"] != fn.cls and cur["ccls"].startswith("std::"):
                        through_base = True
                    elif cur.get("ccls") == fn.cls:
                        g_ = self.by_decl.get(cur.get("cdecl"))
                        if g_ is not None and g_.body is not None and not copy_op_kind(g_) and self.touches_base(g_):
                            through_base = True          # element handed out by an own look-up helper
                    cur = cur.get("obj") or {"k": "This"}
                elif kk_ == "OpCall" and cur.get("a"):
                    if (cur.get("ccls") or cur.get("callee", "")).startswith("std::"):
                        through_base = True
                    cur = cur["a"][0]
                elif kk_ in ("Un", "Cast"):
                    if kk_ == "Cast" and "deque" in str(cur.get("to", "")) or kk_ == "Cast" and "BaseClass" in str(cur.get("to", "")):
                        through_base = True
                    cur = cur.get("e") or {}
                else:
                    return None
            return None

        def put_base(bt, tg):
            if bt[0] == "this":
                add("<base>", tg)
            else:
                objs[bt[1]].setdefault("<base>", set()).update(tg)

        def visit(n):
            kk = n.get("k")
            if kk == "For":
                init, c_, inc_ = n.get("init") or {}, n.get("c") or {}, n.get("inc") or {}
                var = (init.get("vars") or [None])[0] if init.get("k") == "Decl" and len(init.get("vars", [])) == 1 else None
                lo_ = const_int(var.get("init")) if var else None
                hi_ = const_int(c_.get("rhs")) if c_.get("k") == "Bin" and c_.get("op") in ("<", "<=", "!=") and (c_.get("lhs") or {}).get("d") == (var or {}).get("d") else None
                step = inc_.get("k") == "Un" and inc_.get("op") == "++" and (inc_.get("e") or {}).get("d") == (var or {}).get("d")
                if var is not None and lo_ is not None and hi_ is not None and step and hi_ - lo_ <= 16:
                    if c_["op"] == "<=":
                        hi_ += 1
                    for v_ in range(lo_, hi_):          # constant extent: unrolled, component-wise transfers are recorded per component
                        ival[var["d"]] = v_
                        visit(n["body"])
                    ival.pop(var["d"], None)
                    return
                # data-dependent loop (iteration over a container): may-dataflow through one generic iteration
                if init.get("k") == "Decl":
                    visit(init)
                visit(n["body"])
                return
            if kk == "ForRange":
                v_ = n.get("var") or {}
                env[v_.get("d")] = self.tags(n.get("range"), src, env, fn)
                visit(n["body"])
                return
            if kk == "Block":
                for x in n.get("s", []):
                    visit(x)
                return
            if kk == "If":
                visit(n["then"])
                if n.get("else"):
                    visit(n["else"])
                return
            if kk == "Decl":
                for v in n["vars"]:
                    ini = v.get("init")
                    ty = fn.type(v["t"]).replace("const", "").strip()
                    if ini is not None and ini.get("k") in ("Construct", "TempObj") and ini.get("ccls") == fn.cls:
                        sm = own_object_summary(ini)
                        objs[v["d"]] = sm if sm is not None else {}
                    elif ini is None and base_name(ty) == base_name(fn.cls):
                        objs[v["d"]] = {}
                    else:
                        env[v["d"]] = self.tags(ini, src, env, fn) if ini is not None else set()
                return
            if kk == "Return":
                e = n.get("e")
                if e is None:
                    return
                if e.get("k") == "Un" and e.get("op") == "*" and (e.get("e") or {}).get("k") == "This":
                    return
                if src == "this":
                    sm = own_object_summary(e)
                    if sm is None:
                        unknown.append("returned object `%s` is not built by a constructor / sibling operation of the class" % render(e)[:80])
                    else:
                        for m, tg in sm.items():
                            add(m, tg)
                return
            if kk == "Assign" or (kk == "OpCall" and n.get("op") == "=" and len(n.get("a", [])) == 2):
                lhs = n["lhs"] if kk == "Assign" else n["a"][0]
                rhs = n["rhs"] if kk == "Assign" else n["a"][1]
                m = self.target_member(lhs)
                if m is not None:
                    add(m, self.tags(rhs, src, env, fn))
                    return
                te = tiny_elem(lhs)
                if te is not None and self.target_member(te[0]) is not None:
                    m, comp, ext = self.target_member(te[0]), te[1], te[2]
                    if comp is None:
                        unknown.append("component index of `%s` is not a constant / unrolled loop variable" % render(lhs)[:60])
                        return
                    tg = self.tags(rhs, src, env, fn)
                    for x in walk(rhs):
                        t2 = tiny_elem(x)
                        if t2 is not None and t2[1] is not None and t2[1] != comp and self.tags(t2[0], src, env, fn):
                            defects[m] = "component %d of %s is taken from component %d of the source data (`%s`)" % (comp, m, t2[1], render(rhs)[:60])
                    extent[m] = ext
                    elem.setdefault(m, {}).setdefault(comp, set()).update(tg)
                    return
                bt = base_target(lhs)
                if bt is not None:
                    put_base(bt, self.tags(rhs, src, env, fn))
                    return
                lo_ = local_obj_member(lhs)
                if lo_ is not None:
                    lo_[0].setdefault(lo_[1], set()).update(self.tags(rhs, src, env, fn))
                    return
                if lhs.get("k") == "Ref" and lhs.get("dk") == "local":
                    env[lhs["d"]] = set(env.get(lhs["d"], set())) | self.tags(rhs, src, env, fn)
                    return
                unknown.append("assignment to `%s`" % render(lhs)[:60])
                return
            if kk == "MCall":
                o = n.get("obj") or {}
                m = self.target_member(o)
                if m is not None:
                    tg = set()
                    for a in n.get("a", []):
                        tg |= self.tags(a, src, env, fn)
                    add(m, tg - {"p:%s" % p["d"] for p in fn.params})
                    return
                if (o.get("k") == "This" or (o.get("k") == "Ref" and o.get("d") in objs)) and n.get("ccls") and n["ccls"] != fn.cls and n["ccls"].startswith("std::"):
                    tg = set()
                    for a in n.get("a", []):
                        tg |= self.tags(a, src, env, fn)
                    put_base(("this", "<base>") if o.get("k") == "This" else ("obj", o["d"]), tg - {"p:%s" % p["d"] for p in fn.params})
                    return
                bt = base_target(o)
                if bt is not None:
                    tg = set()
                    for a in n.get("a", []):
                        tg |= self.tags(a, src, env, fn)
                    put_base(bt, tg - {"p:%s" % p["d"] for p in fn.params})
                    return
                lo_ = local_obj_member(o)
                if lo_ is not None:
                    tg = set()
                    for a in n.get("a", []):
                        tg |= self.tags(a, src, env, fn)
                    lo_[0].setdefault(lo_[1], set()).update(tg - {"p:%s" % p["d"] for p in fn.params})
                    return
                if o.get("k") == "Ref" and o.get("d") in objs and n.get("ccls") == fn.cls:
                    # sibling copy-like operation applied to a local object of the class, fed with the source
                    callee = self.by_decl.get(n.get("cdecl"))
                    args = n.get("a", [])
                    if callee is not None and copy_op_kind(callee) in ("clone(other)", "convert(other)") and args and self.is_src(args[0], src):
                        sub, unk = self.transfers(callee, callee.params[0]["d"])
                        unknown.extend(unk)
                        defects.update(self.last_defects)
                        for mm, tg in sub.items():
                            objs[o["d"]].setdefault(mm, set()).update(tg)
                        return
                if o.get("k") == "This" and n.get("ccls") == fn.cls:
                    callee = self.by_decl.get(n.get("cdecl"))
                    args = n.get("a", [])
                    if callee is not None and copy_op_kind(callee) in ("clone(other)", "convert(other)") and args and self.is_src(args[0], src):
                        sub, unk = self.transfers(callee, callee.params[0]["d"])
                        unknown.extend(unk)
                        defects.update(self.last_defects)
                        for mm, tg in sub.items():
                            add(mm, tg)
                        return
                if o.get("k") in ("This", "Ref") and n.get("ccls") == fn.cls and (o.get("k") == "This" or o.get("d") in objs):
                    callee = self.by_decl.get(n.get("cdecl"))
                    if callee is not None and callee.body is not None and callee is not fn and not copy_op_kind(callee):
                        sub, unk = map_params(callee, n.get("a", []))      # setter / private helper of the class
                        unknown.extend(unk)
                        for mm, tg in sub.items():
                            if o.get("k") == "This":
                                add(mm, tg)
                            else:
                                objs[o["d"]].setdefault(mm, set()).update(tg)
                        return
                unknown.append("call `%s`" % render(n)[:80])
                return
            if kk == "Call":
                if n.get("callee") == "FEAT::assertion":
                    return
                if n.get("callee") == "std::swap" and len(n.get("a", [])) == 2:
                    for x, y in ((n["a"][0], n["a"][1]), (n["a"][1], n["a"][0])):
                        m = self.target_member(x)
                        if m is not None:
                            add(m, self.tags(y, src, env, fn))
                    return
                unknown.append("call `%s`" % render(n)[:80])
                return
            if kk in ("Null_",):
                return
            unknown.append("statement `%s` (%s)" % (render(n)[:60], kk))

        if fn.body is not None:
            visit(fn.body)
        # component-wise transfers: every component 0..extent-1 must come from the same-named source member
        for m, comps in elem.items():
            n_ = extent[m]
            missing = [c for c in range(n_) if c not in comps]
            if missing:
                defects.setdefault(m, "only the components %s of %s (extent %d) are transferred, components %s keep their old values" % (sorted(comps), m, n_, missing))
                continue
            bad = [c for c in range(n_) if m not in comps[c] and "*" not in comps[c]]
            if bad and "?" in comps[bad[0]]:
                unknown.append("source of component %d of %s not resolved" % (bad[0], m))
                continue
            if bad:
                defects.setdefault(m, "component %d of %s is defined from the source's %s, not from its %s" % (bad[0], m, sorted(t for t in comps[bad[0]] if not t.startswith("p:")) or "nothing", m))
                continue
            if m not in defects:
                add(m, {m})
        self.last_defects = defects
        return T, unknown


def members_read_by_filters(facts, cls, by_decl):
    """data members of `cls` read (transitively through own methods) by its filter_* methods"""
    work = [f for f in facts.functions if f.cls == cls and f.name and f.name.startswith("filter_") and f.body is not None]
    if not work:
        # no filter_* member of this class is instantiated in the TU (an outer composition reaches its components through a loop or a
        # private helper instead of the component's filter_*): the state is what its other const members (get, first, helpers) read
        work = [f for f in facts.functions if f.cls == cls and f.body is not None and f.d.get("const") and not copy_op_kind(f) and f.tk != "pattern"]
    seen, mem = set(), set()
    while work:
        f = work.pop()
        if f.d["decl"] in seen:
            continue
        seen.add(f.d["decl"])
        for n in f.nodes():
            if n.get("k") == "Member" and n.get("field") and (n.get("b") or {}).get("k") == "This":
                mem.add(n["n"])
            if n.get("k") == "MCall" and (n.get("obj") or {}).get("k") == "This" and n.get("ccls") == cls:
                g = by_decl.get(n.get("cdecl"))
                if g is not None and g.body is not None:
                    work.append(g)
            if n.get("k") == "MCall" and (n.get("obj") or {}).get("k") == "This" and n.get("ccls") and n["ccls"] != cls and n["ccls"].startswith("std::"):
                mem.add("<base>")          # the filter is (derives from) a standard container: its elements are the state
            # ... also when the object itself is traversed / viewed as its container base: `for(x : *this)`,
            # `const BaseClass& seq = *this;`, `static_cast<const BaseClass&>(*this)`
            def deref_this(e):
                while e is not None and e.get("k") == "Cast":
                    e = e.get("e")
                return e is not None and e.get("k") == "Un" and e.get("op") == "*" and (e.get("e") or {}).get("k") == "This"
            if n.get("k") == "ForRange" and deref_this(n.get("range")):
                mem.add("<base>")
            if n.get("k") == "Var" and n.get("init") is not None and deref_this(n["init"]) and n.get("ref") \
               and (f.type(n.get("t")) or "").replace("const ", "").replace("&", "").strip() not in (cls, base_name(cls).rsplit("::", 1)[-1]):
                mem.add("<base>")          # bound to a base class view of the object (the type is not the class itself)
            if n.get("k") == "Cast" and deref_this(n) and re.match(r"^(const )?std::", str(n.get("to") or "")):
                mem.add("<base>")
    return mem


CONTAINER_KILL = ("clear",)
CONTAINER_APPEND = ("push_back", "emplace_back", "push_front", "emplace_front", "insert", "emplace")


def container_reset_problems(fn, flow):
    """Assign-like operation of a class whose state is its std:: base container: the previous elements of the target must be
    dropped (clear() / whole-container assignment) on every path before elements are added or written, and elements are appended
    by a forward traversal of the source.  -> (violations, incompletes, n_events)"""
    viol, inc = [], []
    cfg = fn.cfg
    if cfg is None:
        return viol, ["no CFG for %s" % fn.full], 0
    kills, gens, whole, resizes = [], [], [], []

    def rooted_in_this_base(e):
        through, keyed = False, None
        cur = e
        for _ in range(12):
            kk = cur.get("k")
            if kk == "This":
                return through, keyed
            if kk == "Member":
                cur = cur.get("b") or {}
            elif kk == "MCall":
                if cur.get("ccls") and cur["ccls"] != fn.cls and cur["ccls"].startswith("std::"):
                    through = True
                elif cur.get("ccls") == fn.cls:
                    g = flow.by_decl.get(cur.get("cdecl"))
                    if g is not None and g.body is not None and not copy_op_kind(g) and flow.touches_base(g):
                        through, keyed = True, g.name
                cur = cur.get("obj") or {"k": "This"}
            elif kk == "OpCall" and cur.get("a"):
                if (cur.get("ccls") or cur.get("callee", "")).startswith("std::"):
                    through = True
                cur = cur["a"][0]
            elif kk in ("Un", "Cast"):
                if kk == "Cast" and ("deque" in str(cur.get("to", "")) or "BaseClass" in str(cur.get("to", ""))):
                    through = True
                cur = cur.get("e") or {}
            else:
                return False, None
        return False, None

    def walk_loops(n, loops):
        if not isinstance(n, dict):
            return
        k = n.get("k")
        if k in ("For", "ForRange", "While", "Do"):
            loops = loops + [n]
        if k == "MCall":
            o = n.get("obj") or {"k": "This"}
            std = n.get("ccls") and n["ccls"] != fn.cls and n["ccls"].startswith("std::")
            if o.get("k") == "This" and std and n.get("n") in CONTAINER_KILL:
                kills.append(n)
            elif o.get("k") == "This" and std and n.get("n") == "resize" and n.get("a") and "*" in flow.tags(n["a"][0], fn.params[0]["d"], {}, fn):
                resizes.append(n)
            elif o.get("k") == "This" and std and n.get("n") in CONTAINER_APPEND:
                gens.append(("append", n, loops, None))
            elif o.get("k") != "This":
                thr, keyed = rooted_in_this_base(o)
                if thr and not n.get("cconst"):
                    gens.append(("element", n, loops, keyed))
        if k in ("Assign", "OpCall") and (k == "Assign" or (n.get("op") == "=" and len(n.get("a", [])) == 2)):
            lhs = n["lhs"] if k == "Assign" else n["a"][0]
            if lhs.get("k") in ("Cast", "Un") and rooted_in_this_base(lhs)[0] and lhs.get("k") == "Cast":
                whole.append(n)
            elif lhs.get("k") == "Member" or lhs.get("k") == "OpCall":
                thr, keyed = rooted_in_this_base(lhs)
                if thr:
                    gens.append(("element", n, loops, keyed))
        for c in featlib.children(n):
            walk_loops(c, loops)

    walk_loops(fn.body, [])
    for kind, n, loops, keyed in gens:
        if any(cfg.stmt_dominates(kl["i"], n["i"]) for kl in kills + whole if "i" in kl and "i" in n):
            pass
        elif "i" not in n or cfg.block_of(n["i"]) is None:
            inc.append("statement `%s` not found in the CFG" % render(n)[:60])
        elif kind == "element" and not keyed and any(cfg.stmt_dominates(r_["i"], n["i"]) for r_ in resizes if "i" in r_):
            inc.append("elements are overwritten after resize(<size of the source>) without clear(): whether every element is overwritten completely is not decided (`%s`)" % render(n)[:60])
        else:
            how = ("elements selected by the own look-up helper %s() are overwritten / appended" % keyed) if keyed else ("elements are appended" if kind == "append" else "existing elements are overwritten")
            viol.append("line %s: %s (`%s`) without a clear() / whole-container assignment of the target on every path before it: sub-filters the target held before, and their order, survive the operation (any non-empty target whose names/order differ from the source)" % (n.get("l"), how, render(n)[:70]))
        if kind == "append":
            if not loops:
                inc.append("append outside a loop (`%s`)" % render(n)[:60])
                continue
            lp = loops[-1]
            if lp.get("k") == "ForRange":
                continue
            txt = render(lp.get("init") or {}) + " ; " + render(lp.get("inc") or {})
            if re.search(r"rbegin|crbegin|\(--|--\)", txt):
                viol.append("line %s: elements are appended while the source is traversed backwards (%s): the order of the sub-filters is reversed, 'last filter wins' picks the other filter" % (n.get("l"), txt[:80]))
            elif lp.get("k") != "For" or "++" not in render(lp.get("inc") or {}):
                inc.append("traversal order of the loop around `%s` not recognised" % render(n)[:60])
    return viol, inc, len(gens) + len(whole)


def analyse_copy_ops(ck, facts):
    ck.tu(facts)
    by_decl = {f.d["decl"]: f for f in facts.functions if "decl" in f.d}
    for e in facts.errors_outside_repo():
        ck.incomplete("E0.copy-ops", "TU %s has an error outside the repository: %s:%d %s" % (facts.tu, e["file"], e["line"], e["msg"]))
    ops = {}
    for f in facts.functions:
        if f.tk == "pattern" or base_name(f.cls) not in FILTER_CLASSES:
            continue
        kind = copy_op_kind(f)
        if kind:
            ops.setdefault(f.cls, {})[kind] = f
    broken = {}
    last = None
    for e in facts.errors_in_repo():
        hit = None
        if not e["notes"] and last is not None and last[0] == e["file"] and abs(last[1] - e["line"]) <= 3:
            hit = last[2]          # follow-up error of the same failed instantiation (clang prints the note stack once)
        for cls, d in ops.items():
            for kind, f in d.items():
                if f.file == e["file"] and f.line <= e["line"] <= f.end:
                    hit = (cls, kind, f)
        if hit is None:
            # member whose instantiation failed altogether is not in the fact base: take it from the instantiation note
            for nt in e["notes"]:
                m_ = re.search(r"in instantiation of (?:member function|function template specialization) '(.+)::(clone|convert|operator=)(?:<.*>)?' requested here", nt["msg"])
                if m_ and base_name(m_.group(1)) in FILTER_CLASSES and nt["file"] != facts.tu:
                    continue
                if m_ and base_name(m_.group(1)) in FILTER_CLASSES:
                    cls_, nm = m_.group(1), m_.group(2)
                    kind_ = {"convert": "convert(other)", "operator=": "move-assign"}.get(nm) or ("clone(other)" if "clone()" in ops.get(cls_, {}) and not any(f_.file == e["file"] and f_.line <= e["line"] <= f_.end for f_ in [ops[cls_]["clone()"]]) else "clone()")
                    hit = (cls_, kind_, None)
                    break
        if hit is None:
            ck.incomplete("E0.copy-ops", "front-end error outside a copy-like member: %s:%d %s" % (rel(e["file"]), e["line"], e["msg"]))
            continue
        last = (e["file"], e["line"], hit)
        broken.setdefault((base_name(hit[0]), hit[1]), []).append((e, hit[2]))
    for (b, kind), lst in sorted(broken.items()):
        e, f = lst[0]
        ck.ob("E0.copy-ops", "%s::%s" % (short(b), kind), False,
              "%s::%s cannot be instantiated (%d front-end errors for the component types of the driver): %s" % (short(b), kind, len(lst), e["msg"][:200]), e["file"], e["line"])
    flow = CopyFlow(facts, by_decl)
    for cls in sorted(ops):
        R_ = members_read_by_filters(facts, cls, by_decl)
        for kind in COPY_OPS:
            f = ops[cls].get(kind)
            if f is None:
                continue
            key0 = "%s::%s" % (short(cls), kind)
            if (base_name(cls), kind) in broken:
                continue
            ck.ob("E0.copy-ops", key0, True, "instantiates", f.file, f.line, trivial=True)
            if not R_:
                continue
            src = "this" if kind == "clone()" else f.params[0]["d"]
            T, unknown = flow.transfers(f, src)
            defects = dict(flow.last_defects)
            if "<base>" in R_ and kind in ("move-assign", "clone(other)", "convert(other)"):
                v_, i_, n_ = container_reset_problems(f, flow)
                for x in i_:
                    ck.incomplete("C06.container-reset", "%s: %s" % (key0, x))
                if n_ or v_:
                    ck.ob("C06.container-reset", key0, not v_, "; ".join(v_[:2]) or "%d container writes, each dominated by clear() / whole assignment; appends traverse the source forwards" % n_, f.file, f.line)
            for m in sorted(R_):
                key = "%s/%s" % (key0, m)
                if m in defects:
                    ck.ob("C06.state-transfer", key, False, "%s: %s; the %s filters with different data than the original" % (kind, defects[m], "clone" if kind.startswith("clone") else "target"), f.file, f.line)
                    continue
                tg = T.get(m, set())
                direct = m in tg or "*" in tg
                derived = [t[8:] for t in tg if t.startswith("derived:")]
                if not direct and derived and all((d_ in T.get(d_, set())) for d_ in derived):
                    direct = True      # recomputed by the constructor from members that are themselves transferred
                if direct:
                    ck.ob("C06.state-transfer", key, True, "%s <- source.%s" % (m, m), f.file, f.line)
                elif "?" in tg or unknown:
                    ck.incomplete("C06.state-transfer", "%s: not decided (%s)" % (key, "; ".join(unknown[:2]) or "source accessor not resolved"))
                elif tg - {t for t in tg if t.startswith("p:")}:
                    others = sorted(("the object's own " + t[2:]) if t.startswith("m:") else ("recomputed from " + t[8:]) if t.startswith("derived:") else t for t in tg if not t.startswith("p:"))
                    ck.ob("C06.state-transfer", key, False, "%s of the %s is defined from %s, not from the source's %s: the copy filters with a different %s than the original" % (m, "result" if kind == "clone()" else "target", others, m, m), f.file, f.line)
                else:
                    ck.ob("C06.state-transfer", key, False, "%s is read by %s but %s does not take it over from the source (the other copy-like operations do): the %s keeps a default / stale %s and imposes a different constraint than the original" % (
                        m, ", ".join(sorted({g.name for g in facts.functions if g.cls == cls and g.name and g.name.startswith("filter_") and any(n.get("k") == "Member" and n.get("n") == m for n in g.nodes())})[:4]) or "the filter methods", kind,
                        "clone" if kind.startswith("clone") else "target", m), f.file, f.line)


# =================================================================================================
# the check
# =================================================================================================

ROLE_FORM = {"filter_rhs": "value", "filter_sol": "value", "filter_def": "zero", "filter_cor": "zero"}
FILES = "|".join([R("kernel/lafem/[a-z_]*filter"), R("kernel/lafem/arch/[a-z_]*filter"), R("kernel/global/filter"),
                  R("kernel/global/mean_filter"), "/verif/tu/"])
REPO_TUS = ["kernel/lafem/unit_filter-test.cpp", "kernel/lafem/unit_filter_blocked-test.cpp", "kernel/lafem/slip_filter-test.cpp",
            "kernel/lafem/mean_filter-test.cpp", "kernel/lafem/mean_filter_blocked-test.cpp", "kernel/lafem/meta_filter-test.cpp"]
ANCHOR_RE = re.compile(r"/kernel/(lafem/(arch/)?[a-z_]*filter[a-z_]*\.hpp|global/(filter|mean_filter)\.hpp)$")


def run(tier):
    ck = Check("C06", tier)
    wide = tier != "quick"
    k = 4 if wide else 1
    # instance counts confirmed by hand against tu/c06_filters.cpp (quick: one <double,u64> instantiation set plus the always-parsed
    # float overload of Arch::UnitFilter::filter_rhs; thorough: four sets)
    n_fp, n_cov, n_disp, n_idem = (124, 84, 40, 68) if wide else (32, 22, 11, 18)
    ck.rule("E0.instantiable", "every filter class and every filter_* member named by the property instantiates for the documented vector/matrix types (driver tu/c06_filters.cpp has no front-end error located in the filter headers); input class: any program using that member", 1)
    ck.rule("E2.footprint", "kernels write the vector only at bs*sv_indices[i]+c (0<=c<bs); matrix filters write only values j in [row_ptr[ix],row_ptr[ix+1]) of rows ix taken from the filter's own index array (whose size the method asserts equal to rows()); NoneFilter writes nothing. Broken => an unconstrained entry changes for any filter with >=1 entry", n_fp)
    ck.rule("E2.coverage", "the entry loop runs over all of [0,used_elements), every block component and the whole row segment are stored. Broken => some constrained entry keeps its old value (filters with >=2 entries / block sizes >=2)", n_cov)
    ck.rule("E7.role-kernel", "UnitFilter/UnitFilterBlocked: filter_rhs/filter_sol reach (through same-class forwarding and the Arch dispatcher, on every path that has something to filter, exactly once) a kernel that stores exactly the filter value, filter_def/filter_cor one that stores exactly 0, NaN components skipped iff ignore_nans; SlipFilter methods reach the projection kernel of their block size. Broken => wrong values at constrained entries for any non-empty filter", 20 * k)
    ck.rule("E1.slots", "at the kernel call the slots (by callee parameter names) receive vector.elements(), and elements()/indices()/used_elements() of ONE sparse vector of the filter, the one whose size the method asserts equal to the vector size, and _ignore_nans. Broken => values of entry i imposed at a foreign index (e.g. SlipFilter _nu vs _sv differ as soon as not all vertices are constrained)", 20 * k)
    ck.rule("E1.dispatch", "Arch dispatchers forward every argument to the like-named parameter of a *_generic kernel on every path", n_disp)
    ck.rule("E5.idempotent-form", "stored values and store guards of unit kernels / matrix filters do not read the array being written (=> a second application stores the same values); mean filters are covered by E6.mean-roles, slip by E11.slip-projection", n_idem)
    ck.rule("E11.slip-projection", "slip kernels, block sizes 2 and 3, translated to sympy: the new block has zero normal component, f(f(v))=f(v), and f(v)-v is parallel to the normal -- per guard case of the kernel (Math::eps/huge are positive symbolic constants); a case that leaves the block unstored is admissible only if it forces n.n == 0 (identity is then the projection and 0/0 is avoided). Broken (no division by n.n; skip for n.n < eps) => non-unit / short normals leave a normal component", 4 * k)
    ck.rule("C06.unit-row", "final value of every (block) entry of a filtered row: filter_mat 1 iff col_ind[j]==ix (and k==l inside the block) else 0, filter_offdiag_row_mat 0; rows of NaN components skipped iff ignore_nans. Broken => filtered system does not reproduce the boundary values (any matrix with off-diagonal entries in a constrained row)", 11 * k)
    ck.rule("E6.mean-roles", "MeanFilter / MeanFilterBlocked / Global::MeanFilter: filter_rhs/def add c*_vec_dual with c = -<vector,_vec_prim>/_volume, filter_sol/cor add c*_vec_prim with c = [sol_mean] - <vector,_vec_dual>/_volume (per block component; global: frequency-weighted triple_dot summed over the communicator). Broken => mean not removed / not idempotent whenever prim != dual (any non-uniform mesh)", 16 * k)
    ck.rule("E4.map", "FilterChain, FilterSequence, TupleFilter, PowerFilter, Global::Filter: filter_X applies filter_X (same method) of every component exactly once, to the whole vector (chain/sequence, in declared order) resp. to the like-named sub-vector first()/rest()/local()", 65 * k)

    ck.rule("E0.copy-ops", "move construction / move assignment / clone() / clone(other) / convert(other) of every filter class instantiate (driver tu/c06_copyops.cpp); a copy-like member that cannot be instantiated cannot hand the constraint over", 73)
    ck.rule("C06.state-transfer", "sibling agreement of the copy-like operations: every data member that the filter_* methods of a class read (transitively through its own accessors) is defined, in each of move-ctor / move-assign / clone() / clone(other) / convert(other), from the SAME member of the source (directly, through the class's constructor parameter that initialises it, or recomputed from transferred members). Broken => the copy imposes a different constraint than the original as soon as that member is not at its default (e.g. ignore_nans=true, sol_mean != 0)", 143)
    ck.rule("C06.container-reset", "assign-like operations (move-assign, clone(other), convert(other)) of a filter whose state is its container base (FilterSequence): after the operation the container is a function of the source only - every append / element write is dominated (CFG) by clear() or a whole-container assignment of the target, and appends happen in a forward traversal of the source. Broken => a re-used, non-empty target keeps old sub-filters and its old order; with overlapping sub-filters another prescribed value wins", 6)
    ck.rule("C06.permute-convention", "renumbering: the permute(perm) members of the filters forward to permute(perm) of the sparse vector that holds their entries; all of these "
            "sibling implementations (SparseVector / SparseVectorBlocked, every block size) move a stored entry to the position read from the SAME one of the two position arrays "
            "of the permutation - perm.get_perm_pos() or perm.inverse().get_perm_pos() (followed through named temporaries). Broken => for a permutation that is not an involution the "
            "scalar unit filter and the blocked unit filter (and the vectors both are applied to, which are renumbered with one convention) end up constraining different DOFs", 3)
    ck.rule("C06.store-growth", "the storage path behind add() (the set-element operator of the sparse vector a filter keeps its entries in): when the arrays are "
            "re-allocated, the number of items carried over from an old array equals the position at which the same function appends the next entry to that array "
            "(both are 'valid items in the array': used_elements() for the index array, used_elements()*BlockSize for the value array of a blocked vector - one unit per array). "
            "Broken => a filter that grows past its first allocation (> 1000 entries added one by one) keeps only a part of its prescribed values / normals, the rest is the fill pattern", 6)
    extra = ("-DC06_WIDE",) if wide else ()
    facts = featlib.extract("tu/c06_filters.cpp", files=FILES, extra=extra)
    analyse(ck, facts, "", True)
    analyse_copy_ops(ck, featlib.extract("tu/c06_copyops.cpp", files=FILES))
    analyse_store_growth(ck)
    if wide:
        # breadth: the instantiations the repository's own filter tests produce (same rules, keys prefixed by the TU)
        for t in REPO_TUS:
            tp = R(t)
            if not os.path.exists(tp):
                ck.incomplete("E0.instantiable", "repository TU %s vanished" % t)
                continue
            f2 = featlib.extract(tp, files=FILES)
            analyse(ck, f2, os.path.basename(t)[:-4] + ":", False)
    return finish(ck, wide)


# -------------------------------------------------------------------------------------------------------------------------
# C06.store-growth: the set-element operator the filters' add() forwards to
# -------------------------------------------------------------------------------------------------------------------------
STORE_FILES = "|".join([R("kernel/lafem/sparse_vector"), R("kernel/lafem/[a-z_]*filter"), "/verif/tu/"])
RAW_COPY = re.compile(r"(^|::)(copy|copy_n|memcpy|memmove|uninitialized_copy|uninitialized_copy_n)$")
RAW_ALLOC = re.compile(r"allocate_memory|malloc|operator new")


def _sg_strip(n):
    while isinstance(n, dict) and n.get("k") == "Cast":
        n = n.get("e")
    return n


def _sg_local_init(f, name):
    """initialiser of a local that is declared once and never written afterwards, else None"""
    inits = [v for v in f.nodes() if v.get("k") == "Var" and v.get("n") == name]
    if len(inits) != 1 or inits[0].get("init") is None:
        return None
    for x in f.nodes():
        if x.get("k") == "Assign" and _sg_strip(x.get("lhs")) is not None and _sg_strip(x["lhs"]).get("k") == "Ref" and _sg_strip(x["lhs"]).get("n") == name:
            return None
        if x.get("k") == "Un" and x.get("op") in ("++", "--", "&") and _sg_strip(x.get("e")) is not None and _sg_strip(x["e"]).get("k") == "Ref" and _sg_strip(x["e"]).get("n") == name:
            return None
    return inits[0]["init"]


def _sg_canon(f, e, depth=0):
    """canonical text of an integer expression: casts dropped, named temporaries expanded, sums and products flattened and sorted"""
    e = _sg_strip(e)
    if e is None:
        return "?"
    k = e.get("k")
    if k == "Int":
        return str(e.get("v"))
    if k == "Ref":
        if e.get("dk") == "local" and depth < 6:
            li = _sg_local_init(f, e.get("n"))
            if li is not None:
                return _sg_canon(f, li, depth + 1)
        return e.get("n")
    if k == "Bin" and e.get("op") in ("+", "*"):
        parts, todo = [], [e]
        while todo:
            x = _sg_strip(todo.pop())
            if x is not None and x.get("k") == "Ref" and x.get("dk") == "local" and depth < 6 and _sg_local_init(f, x.get("n")) is not None:
                x = _sg_strip(_sg_local_init(f, x.get("n")))
            if x is not None and x.get("k") == "Bin" and x.get("op") == e["op"]:
                todo += [x["lhs"], x["rhs"]]
            else:
                parts.append(_sg_canon(f, x, depth + 1))
        parts = [p_ for p_ in parts if not (e["op"] == "*" and p_ == "1") and not (e["op"] == "+" and p_ == "0")]
        return "(" + e["op"].join(sorted(parts)) + ")" if len(parts) != 1 else parts[0]
    if k == "Bin":
        return "(%s%s%s)" % (_sg_canon(f, e["lhs"], depth + 1), e["op"], _sg_canon(f, e["rhs"], depth + 1))
    if k in ("MCall", "Call"):
        nm = (e.get("n") or e.get("callee") or "?").rsplit("::", 1)[-1].lstrip("_")      # used_elements() / _used_elements(): one counter
        ob = _sg_strip(e.get("obj"))
        pre = "" if ob is None or ob.get("k") == "This" else _sg_canon(f, ob, depth + 1) + "."
        return "%s%s(%s)" % (pre, nm, ",".join(_sg_canon(f, a, depth + 1) for a in e.get("a", [])))
    if k == "Member":
        b = _sg_strip(e.get("b"))
        return e.get("n") if b is None or b.get("k") == "This" else _sg_canon(f, b, depth + 1) + "." + e.get("n")
    return featlib.render(e)


def _sg_array(f, e, depth=0):
    """(member array name, offset expr or None) for `this->M.at(0)` / `M[0]` / `M.front()` / `M.at(0) + off` / a local bound to one of these"""
    e = _sg_strip(e)
    if e is None:
        return None
    if e.get("k") == "Bin" and e.get("op") == "+":
        for a, b in ((e["lhs"], e["rhs"]), (e["rhs"], e["lhs"])):
            r = _sg_array(f, a, depth + 1)
            if r is not None and r[1] is None:
                return (r[0], b)
        return None
    if e.get("k") == "Ref" and e.get("dk") == "local" and depth < 4:
        li = _sg_local_init(f, e.get("n"))
        return _sg_array(f, li, depth + 1) if li is not None else None
    ob = None
    if e.get("k") == "MCall" and e.get("n") in ("at", "front", "back", "operator[]"):
        ob = _sg_strip(e.get("obj"))
    elif e.get("k") == "OpCall" and e.get("op") == "[]" and e.get("a"):
        ob = _sg_strip(e["a"][0])
    elif e.get("k") == "Index":
        ob = _sg_strip(e.get("b"))
    if ob is not None and ob.get("k") == "Member" and ob.get("field") and (_sg_strip(ob.get("b")) or {}).get("k", "This") == "This":
        return (ob["n"], None)
    return None


def analyse_store_growth(ck):
    rule = "C06.store-growth"
    try:
        facts = featlib.extract("tu/c06_storage.cpp", files=STORE_FILES)
    except (featlib.AnalysisBroken, OSError) as ex:
        ck.incomplete(rule, "driver tu/c06_storage.cpp not extracted: %s" % str(ex)[:160])
        return
    ck.tu(facts)
    for e in (facts.errors_in_repo() + facts.errors_outside_repo())[:3]:
        ck.incomplete(rule, "driver tu/c06_storage.cpp: %s:%d %s" % (rel(e["file"]), e["line"], e["msg"]))
    analyse_permute_convention(ck, facts)
    by_decl = {f.d["decl"]: f for f in facts.functions if "decl" in f.d and f.tk != "pattern" and f.body is not None}
    targets = {}
    for f in facts.functions:
        if f.tk == "pattern" or f.body is None or f.name != "add" or not re.search(r"Filter", f.cls or ""):
            continue
        for n in f.nodes():
            if n.get("k") in ("OpCall", "MCall") and re.search(r"SparseVector", n.get("ccls") or n.get("callee") or "") and n.get("cdecl") in by_decl:
                g = by_decl[n["cdecl"]]
                if any(x.get("k") in ("Call", "MCall") and RAW_ALLOC.search(x.get("callee") or "") for x in g.nodes()):
                    targets.setdefault(n["cdecl"], (g, []))[1].append(re.sub(r"^FEAT::LAFEM::", "", f.cls or "?"))
    if not targets:
        ck.incomplete(rule, "no add() of a filter class reaches an allocating set-element operator of a sparse vector (driver tu/c06_storage.cpp)")
        return
    for decl, (g, users) in sorted(targets.items(), key=lambda kv: kv[1][0].cls):
        cursors, transfers, opaque = {}, [], []
        # the operator and the private helpers of its class it calls (a growth step moved into `_grow()`)
        scope, seen_d = [g], {decl}
        for h in scope:
            for x in h.nodes():
                if x.get("k") == "MCall" and x.get("cdecl") in by_decl and x["cdecl"] not in seen_d and (_sg_strip(x.get("obj")) or {}).get("k", "This") == "This" \
                   and by_decl[x["cdecl"]].cls == g.cls and len(scope) < 8:
                    seen_d.add(x["cdecl"])
                    scope.append(by_decl[x["cdecl"]])
        g0 = g
        for g, n in [(h, n_) for h in scope for n_ in h.nodes()]:
            if n.get("k") == "Assign" and n.get("op") == "=":
                l = _sg_strip(n["lhs"])
                if l is not None and (l.get("k") == "Index" or (l.get("k") == "OpCall" and l.get("op") == "[]")):
                    base = l.get("b") if l.get("k") == "Index" else l["a"][0]
                    idx = l.get("idx") if l.get("k") == "Index" else l["a"][1]
                    arr = _sg_array(g, base)
                    if arr is not None and arr[1] is None:
                        cursors.setdefault(arr[0], set()).add(_sg_canon(g, idx))          # M.at(0)[pos] = val
            if n.get("k") in ("Call", "MCall") and n.get("a") and re.search(r"(^|::)(set_memory|fill_n)$", n.get("callee") or ""):
                d_arr = _sg_array(g, n["a"][0])
                if d_arr is not None and d_arr[1] is not None:
                    cursors.setdefault(d_arr[0], set()).add(_sg_canon(g, d_arr[1]))       # set_memory(M.at(0) + pos, value[, 1])
                continue
            if n.get("k") in ("Call", "MCall") and len(n.get("a", [])) == 3 and re.search(r"(^|::)(copy|copy_n|memcpy|memmove)$", n.get("callee") or "") \
                    and not re.match(r"std::(copy|uninitialized_copy)$", n.get("callee") or ""):
                dst, src, cnt = n["a"]
                if re.search(r"copy_n$", n["callee"]):
                    src, cnt, dst = n["a"]
                d_arr, s_arr = _sg_array(g, dst), _sg_array(g, src)
                if d_arr is not None and d_arr[1] is not None and s_arr is None:
                    cursors.setdefault(d_arr[0], set()).add(_sg_canon(g, d_arr[1]))       # copy(M.at(0) + pos, val, len)
                elif d_arr is not None and d_arr[1] is None and s_arr is None:
                    cursors.setdefault(d_arr[0], set()).add("0")                          # first entry
                elif s_arr is not None and s_arr[1] is None and d_arr is None:
                    transfers.append((s_arr[0], (g, cnt), n))                               # copy(new, M.at(0), count)
                else:
                    opaque.append(n)
            elif n.get("k") in ("Call", "MCall") and RAW_COPY.search(n.get("callee") or "") and len(n.get("a", [])) == 3:
                # std::copy(first, last, dest)
                a0, a1 = _sg_array(g, n["a"][0]), _sg_array(g, n["a"][1])
                if a0 is not None and a1 is not None and a0[0] == a1[0] and a0[1] is None and a1[1] is not None:
                    transfers.append((a0[0], (g, a1[1]), n))
                else:
                    opaque.append(n)
        g = g0
        arrays = sorted({m for m, _, _ in transfers})
        key0 = re.sub(r"^FEAT::LAFEM::", "", g.cls or "?")
        if not transfers:
            ck.incomplete(rule, "%s::operator(): allocates but no transfer of the old array contents was recognised (%d raw copies not understood)" % (key0, len(opaque)))
            ck.rule_counts[rule] = ck.rule_counts.get(rule, 0) + 1
            continue
        for m in arrays:
            key = "%s::operator()/%s" % (key0, m)
            cur = {c for c in cursors.get(m, set()) if c != "0"}
            mine = [(cnt, n) for mm, cnt, n in transfers if mm == m]
            if not cur:
                ck.incomplete(rule, "%s: the position at which the function appends to %s was not recognised" % (key, m))
                ck.rule_counts[rule] = ck.rule_counts.get(rule, 0) + 1
                continue
            bad = [(cnt, n) for cnt, n in mine if _sg_canon(cnt[0], cnt[1]) not in cur]
            ck.ob(rule, key, not bad,
                  ("line %s carries %s items of %s over to the new array, but the function appends to %s at position %s: the two disagree on how many items the array holds "
                   "(reached from add() of %s)" % (bad[0][1].get("l"), _sg_canon(bad[0][0][0], bad[0][0][1]), m, m, " / ".join(sorted(cur)), ", ".join(sorted(set(users))[:3])))
                  if bad else "carried over: %s = append position" % " / ".join(sorted(cur)), g.file, mine[0][1].get("l"))


def analyse_permute_convention(ck, facts):
    rule = "C06.permute-convention"
    by_decl = {f.d["decl"]: f for f in facts.functions if "decl" in f.d and f.tk != "pattern" and f.body is not None}
    targets = {}
    for f in facts.functions:
        if f.tk == "pattern" or f.body is None or f.name != "permute" or not re.search(r"Filter", f.cls or ""):
            continue
        for n in f.nodes():
            if n.get("k") == "MCall" and n.get("n") == "permute" and n.get("cdecl") in by_decl and not re.search(r"Filter", n.get("ccls") or ""):
                targets.setdefault(n["cdecl"], (by_decl[n["cdecl"]], []))[1].append(re.sub(r"^FEAT::LAFEM::", "", f.cls or "?"))
    if not targets:
        ck.incomplete(rule, "no permute() of a filter class forwards to a permute() of its entry container (driver tu/c06_storage.cpp)")
        return

    def source(g, e, depth=0):
        """'forward' / 'inverse' / None for an expression that denotes a permutation object, relative to g's parameter"""
        e = _sg_strip(e)
        if e is None or depth > 6:
            return None
        if e.get("k") == "Ref" and e.get("dk") == "param":
            return "forward"
        if e.get("k") == "Ref" and e.get("dk") == "local":
            li = _sg_local_init(g, e.get("n"))
            return source(g, li, depth + 1) if li is not None else None
        if e.get("k") in ("Construct", "TempObj") and len(e.get("a", [])) == 1:
            return source(g, e["a"][0], depth + 1)
        if e.get("k") == "MCall" and e.get("n") == "inverse" and not e.get("a"):
            s_ = source(g, e.get("obj"), depth + 1)
            return {"forward": "inverse", "inverse": "forward"}.get(s_)
        return None

    def array_kind(g, e, depth=0):
        e = _sg_strip(e)
        if e is None or depth > 6:
            return None
        if e.get("k") == "Ref" and e.get("dk") == "local":
            li = _sg_local_init(g, e.get("n"))
            return array_kind(g, li, depth + 1) if li is not None else None
        if e.get("k") in ("Construct", "TempObj") and len(e.get("a", [])) == 1:
            return array_kind(g, e["a"][0], depth + 1)
        if e.get("k") == "MCall" and e.get("n") in ("get_perm_pos", "get_swap_pos"):
            s_ = source(g, e.get("obj"))
            return (s_ + ("" if e["n"] == "get_perm_pos" else "/swap")) if s_ else None
        return None
    found = {}
    for decl, (g, users) in targets.items():
        kinds, unknown = set(), []
        for n in g.nodes():
            base = idx = None
            if n.get("k") == "Index":
                base = n.get("b")
            elif n.get("k") == "OpCall" and n.get("op") == "[]" and len(n.get("a", [])) == 2:
                base = n["a"][0]
            if base is None:
                continue
            t = g.ntype(_sg_strip(base)) or ""
            if "*" not in t:
                continue
            k_ = array_kind(g, base)
            if k_:
                kinds.add(k_)
        # any use of the permutation that is not one of the two position arrays (apply(), a hand-made inverse ...) is outside the rule
        for n in g.nodes():
            if n.get("k") == "MCall" and n.get("ccls") and "Permutation" in n["ccls"] and n.get("n") not in ("get_perm_pos", "get_swap_pos", "inverse", "size", "empty"):
                unknown.append(n.get("n"))
        found[decl] = (g, users, kinds, unknown)
    conv = {}
    for decl, (g, users, kinds, unknown) in found.items():
        if len(kinds) == 1 and not unknown:
            conv.setdefault(next(iter(kinds)), []).append(g)
    for decl, (g, users, kinds, unknown) in sorted(found.items(), key=lambda kv: kv[1][0].cls):
        key = "%s::permute" % re.sub(r"^FEAT::LAFEM::", "", g.cls or "?")
        if len(kinds) != 1 or unknown:
            ck.incomplete(rule, "%s: the position array the entries are moved with is not a single get_perm_pos() of perm or perm.inverse() (%s%s)" % (
                key, sorted(kinds) or "none recognised", ("; also calls " + ", ".join(sorted(set(unknown)))) if unknown else ""))
            ck.rule_counts[rule] = ck.rule_counts.get(rule, 0) + 1
            continue
        mine = next(iter(kinds))
        others = {k_: [re.sub(r"^FEAT::LAFEM::", "", h.cls or "?") for h in gs] for k_, gs in conv.items() if k_ != mine}
        # the dissenter is the convention held by fewer siblings; with a tie every party is named
        tpl = lambda names: len({re.sub(r"<.*$", "", x) for x in names})        # instantiations of one template are one voice
        bad = bool(others) and tpl([h.cls or "?" for h in conv[mine]]) <= max(tpl(v) for v in others.values())
        ck.ob(rule, key, not bad,
              ("entries are moved with the %s position array of the permutation, but %s: the filters forwarding here (%s) are renumbered differently from their siblings" % (
                  mine, "; ".join("%s use(s) the %s array" % (", ".join(sorted(set(v))[:3]), k_) for k_, v in sorted(others.items())), ", ".join(sorted(set(users))[:3])))
              if bad else "%s position array, like its %d sibling(s)" % (mine, len(conv[mine]) - 1), g.file, g.line)


def analyse(ck, facts, prefix, driver):
    ck.tu(facts)
    by_decl = {f.d["decl"]: f for f in facts.functions if "decl" in f.d}
    fns = [f for f in facts.functions if f.tk != "pattern" and f.body is not None]

    # ---- E0 ------------------------------------------------------------------------------------------
    outside = facts.errors_outside_repo()
    inrepo = facts.errors_in_repo()
    for e in outside:
        ck.incomplete("E0.instantiable", "TU %s has an error outside the repository (driver no longer matches the API?): %s:%d %s" % (facts.tu, e["file"], e["line"], e["msg"]))
    anchored = [e for e in inrepo if ANCHOR_RE.search(e["file"])]
    for e in inrepo:
        if e not in anchored:
            ck.incomplete("E0.instantiable", "front-end error outside the filter headers: %s:%d %s" % (rel(e["file"]), e["line"], e["msg"]))
    if anchored:
        for e in anchored[:6]:
            req = [n for n in e["notes"] if "requested here" in n["msg"]]
            ck.ob("E0.instantiable", prefix + "%s/%s" % (os.path.basename(e["file"]), re.sub(r"\s+", " ", e["msg"])[:60]), False,
                  "%s (instantiated from %s)" % (e["msg"], "; ".join("%s:%d" % (rel(n["file"]), n["line"]) for n in req[:3]) or "driver"), e["file"], e["line"])
    else:
        ck.ob("E0.instantiable", prefix + os.path.basename(facts.tu), True, "%d filter functions instantiated without front-end errors" % len(fns), facts.tu, 1)

    def guarded(rule, key, fn, work):
        """run one obligation; Incomplete -> exit 2 with the construct named"""
        try:
            return work()
        except Incomplete as e:
            ck.incomplete(rule, "%s: %s" % (key, e))
            return None

    # ---- vector kernels --------------------------------------------------------------------------------
    kernels = {}
    for f in fns:
        if re.match(r"^FEAT::LAFEM::Arch::(UnitFilter|UnitFilterBlocked|SlipFilter)::filter_\w+_generic<", f.full):
            key = prefix + short(f.full)
            ks = guarded("E2.footprint", key, f, lambda: kernel_summary(facts, f, by_decl))
            if ks is None:
                continue
            kernels[f.d["decl"]] = ks
            bf, bl = body_file(f), body_line(f)
            for u in ks.unknown:
                ck.incomplete("E2.footprint", "%s: %s" % (key, u))
            ck.ob("E2.footprint", key, not ks.footprint, "; ".join(ks.footprint[:3]) or "all %d stores go to v[%s*sv_indices[i]+c], 0<=c<%d" % (len(ks.ex.stores), ks.bs, ks.bs), bf, bl,
                  sample={"stores": ["%s[%s] = %s if %s" % (s["arr"], s["idx"][0], s["val"], s["pc"]) for s in ks.ex.stores[:4]]})
            ck.ob("E2.coverage", key, not ks.coverage, "; ".join(ks.coverage[:3]) or "i over [0,ue), components 0..%d stored" % (ks.bs - 1), bf, bl)
            if "SlipFilter" in f.full:
                pr = guarded("E11.slip-projection", key, f, lambda: slip_problems(ks))
                if pr is not None:
                    ck.ob("E11.slip-projection", key, not pr, "; ".join(pr) or "block size %d: normal component 0, idempotent, tangential part unchanged (sympy)" % ks.bs, bf, bl,
                          sample={"update": [str(ks.cells[c][0]["val"]) for c in sorted(ks.cells)][:1]})
            else:
                ck.ob("E5.idempotent-form", key, not ks.reads_v, "a stored value or store guard reads v itself" if ks.reads_v else "stored values and guards are independent of v", bf, bl)

    # ---- matrix filters --------------------------------------------------------------------------------
    for f in fns:
        if re.match(r"^FEAT::LAFEM::UnitFilter(Blocked)?<.*>::filter_(mat|offdiag_row_mat)(<\d+>)?$", f.full) and base_name(f.cls) in ("FEAT::LAFEM::UnitFilter", "FEAT::LAFEM::UnitFilterBlocked"):
            key = prefix + short(f.full)
            ms = guarded("E2.footprint", key, f, lambda: matrix_summary(facts, f, by_decl))
            if ms is None:
                continue
            for u in ms.unknown:
                ck.incomplete("E2.footprint", "%s: %s" % (key, u))
            ck.ob("E2.footprint", key, not ms.footprint, "; ".join(ms.footprint[:3]) or "stores only to %s.val()[j...], j in the row segment of rows %s" % (ms.p, ms.ix), f.file, body_line(f))
            ck.ob("E2.coverage", key, not ms.coverage, "; ".join(ms.coverage[:3]) or "all filter entries, whole row segment", f.file, body_line(f))
            ck.ob("E5.idempotent-form", key, not ms.reads_val, "a stored value or guard reads the matrix values being written" if ms.reads_val else "stored values and guards do not read the matrix values", f.file, body_line(f))
            kind = "unit" if f.name == "filter_mat" else "zero"
            pr = guarded("C06.unit-row", key, f, lambda: unit_row_problems(ms, kind))
            if pr is not None:
                ck.ob("C06.unit-row", key, not pr, "; ".join(pr[:2]) or "%s row: %d (block) entries decided over all guard cases" % (kind, max(1, len(ms.cells))), f.file, body_line(f),
                      sample={"cells": {str(c): ["%s if %s" % (s["val"], s["pc"]) for s in st][:3] for c, st in list(ms.cells.items())[:2]}})

    # ---- NoneFilter ------------------------------------------------------------------------------------
    for f in fns:
        if base_name(f.cls) in ("FEAT::LAFEM::NoneFilter", "FEAT::LAFEM::NoneFilterBlocked") and f.name in FILTER_METHODS:
            key = prefix + short(f.full)

            def work():
                ex = Exec(facts, f, by_decl).run()
                return ex
            ex = guarded("E2.footprint", key, f, work)
            if ex is not None:
                bad = ex.stores or ex.events
                ck.ob("E2.footprint", key, not bad, "NoneFilter must not modify its argument but %s" % ("stores to " + ex.stores[0]["arr"] if ex.stores else "calls " + str(ex.events[0].get("callee") or ex.events[0].get("name"))) if bad else "no store, no call", f.file, f.line, trivial=True)

    # ---- dispatchers -----------------------------------------------------------------------------------
    disp = {}
    for f in fns:
        if re.match(r"^FEAT::LAFEM::Arch::(UnitFilter|UnitFilterBlocked|SlipFilter)::filter_(rhs|def)(<.*>)?$", f.full):
            ptypes = ",".join(f.type(p["t"]).replace("const", "").replace(" ", "") for p in f.params[:3])
            key = prefix + short(f.full) + "(" + short(ptypes) + ")"
            r = guarded("E1.dispatch", key, f, lambda: dispatcher_targets(f, by_decl))
            if r is None:
                continue
            disp[f.d["decl"]] = r[0]
            ck.ob("E1.dispatch", key, not r[1], "; ".join(r[1][:3]) or "forwards to %s" % ", ".join(short(t.full) for t in r[0]), f.file, f.line)

    # ---- class methods: role -> kernel -----------------------------------------------------------------
    for f in fns:
        b = base_name(f.cls)
        if b not in ("FEAT::LAFEM::UnitFilter", "FEAT::LAFEM::UnitFilterBlocked", "FEAT::LAFEM::SlipFilter") or f.name not in ROLE_FORM:
            continue
        key = prefix + short(f.full)
        ex = guarded("E7.role-kernel", key, f, lambda: method_summary(facts, f, by_decl))
        if ex is None:
            continue
        vec = f.params[0]["n"] if f.params else "vector"
        want = "projection" if b.endswith("SlipFilter") else ROLE_FORM[f.name]
        probs = []
        arch = [e for e in ex.events if e["kind"] == "arch"]
        if len(arch) != len(ex.events):
            ck.incomplete("E7.role-kernel", "%s: vector updated by %s outside a filter kernel" % (key, [e.get("name") for e in ex.events if e["kind"] != "arch"]))
            continue
        if not arch:
            probs.append("no filter kernel is reached and nothing else is done with the vector: it is returned unfiltered")
        elif len(arch) > 1:
            sig = {(e["cdecl"], str(e["pc"]), tuple(str(a) for a in e["args"])) for e in arch}
            if len(sig) > 1:
                ck.incomplete("E7.role-kernel", "%s: %d different kernel calls are reached (%s); their combined effect is not modelled" % (key, len(arch), ", ".join(e["callee"].rsplit("::", 2)[-1] + "@%s" % e["l"] for e in arch)))
                continue
        slot_p, incs = [], []
        for ev in arch[:1]:
            v_, i_ = guard_problems(ev["pc"], "the kernel call at line %s" % ev["l"], ex)
            probs += v_
            incs += i_
            sp_, i2 = slot_problems(ev, vec, ex)
            slot_p += sp_
            incs += i2
            d = by_decl.get(ev["cdecl"])
            if d is None:
                incs.append("callee %s has no body in the fact base" % ev["cfull"])
                continue
            targets = disp.get(ev["cdecl"])
            if targets is None:
                try:
                    targets = dispatcher_targets(d, by_decl)[0]
                except Incomplete as e:
                    incs.append(str(e))
                    continue
            if not targets:
                probs.append("dispatcher %s forwards to no kernel" % short(d.full))
            for t in targets:
                ks = kernels.get(t.d["decl"])
                if ks is None:
                    incs.append("kernel %s was not summarised" % short(t.full))
                    continue
                if not b.endswith("::UnitFilter"):
                    try:
                        cbs = int(targs(f.cls)[2])
                    except (ValueError, IndexError):
                        incs.append("block size of %s not resolved" % f.cls)
                        continue
                    if cbs != ks.bs:
                        probs.append("kernel %s works on blocks of %d, the filter has BlockSize %d" % (short(t.full), ks.bs, cbs))
                try:
                    if want == "projection":
                        fp = slip_problems(ks)
                    else:
                        fp = unit_form_problems(ks, want)
                except Incomplete as e:
                    incs.append(str(e))
                    continue
                if fp:
                    probs.append("%s (documented: '%s') reaches kernel %s which is not %s: %s" % (f.name, {"value": "imposes the filter values", "zero": "imposes zeros", "projection": "removes the normal component"}[want], short(t.full), {"value": "value-imposing", "zero": "zero-imposing", "projection": "the orthogonal projection"}[want], fp[0]))
        for i_ in incs:
            ck.incomplete("E7.role-kernel", "%s: %s" % (key, i_))
        ck.ob("E7.role-kernel", key, not probs, "; ".join(probs[:3]) or "reaches %s kernel under %s" % (want, arch[0]["pc"] if arch else "-"), f.file, f.line,
              sample={"kernel": arch[0]["cfull"] if arch else None, "guard": str(arch[0]["pc"]) if arch else None})
        if arch:
            ck.ob("E1.slots", key, not slot_p, "; ".join(slot_p[:3]) or "slots %s <- %s" % (arch[0]["pn"], [str(a) for a in arch[0]["args"]]), f.file, arch[0]["l"])

    # ---- mean filters ----------------------------------------------------------------------------------
    for f in fns:
        if base_name(f.cls) in ("FEAT::LAFEM::MeanFilter", "FEAT::LAFEM::MeanFilterBlocked", "FEAT::Global::MeanFilter") and f.name in MEAN_ROLE:
            key = prefix + short(f.full)
            r = guarded("E6.mean-roles", key, f, lambda: mean_problems(facts, f, by_decl))
            if r is None:
                continue
            for i_ in r[1]:
                ck.incomplete("E6.mean-roles", "%s: %s" % (key, i_))
            ck.ob("E6.mean-roles", key, not r[0], "; ".join(r[0][:2]) or "dot with %s, axpy along %s, factor c - D/_volume" % MEAN_ROLE[f.name], f.file, f.line)

    # ---- compositions ----------------------------------------------------------------------------------
    for f in fns:
        if base_name(f.cls) in ("FEAT::LAFEM::FilterChain", "FEAT::LAFEM::FilterSequence", "FEAT::LAFEM::TupleFilter", "FEAT::LAFEM::PowerFilter", "FEAT::Global::Filter") and f.name in FILTER_METHODS:
            key = prefix + short(f.full)
            v_, i_, n_ = map_problems(f, by_decl)
            for x in i_:
                ck.incomplete("E4.map", x)
            if i_ and not v_:
                continue
            if i_:
                n_ = n_      # definite parity / sub-vector violations of recognised calls are still reported
            ck.ob("E4.map", key, not v_, "; ".join(v_[:3]) or "%d component call(s), same method, matching sub-vector" % n_, f.file, f.line)

    return


def finish(ck, wide):
    ck.assume("index sets of a filter contain no duplicates and CSR/BCSR row segments of distinct rows are disjoint (property quantifier: 'duplicates excluded'); stores of different filter entries therefore do not alias; a CSR row stores every column index at most once (used to identify the position a linear search for the diagonal entry stops at with the entry whose column is the row)")
    ck.assume("kernels are analysed as instantiated for the template arguments of the driver (%s; block sizes 2 and 3; BCSR blocks 2x2, 2x3, 3x3, 3x2, 1x2); build configuration without CUDA/MKL, so dispatchers reach the *_generic kernels" % ("double/float x 64/32-bit indices" if wide else "double, 64-bit indices; the thorough tier adds float and 32-bit indices"))
    ck.assume("mean filters: <_vec_prim,_vec_dual> = _volume is taken from the constructors' documentation; rounding is not modelled (symbolic real arithmetic)")
    expl = ("Static analysis of the filter layer as parsed by clang from the instantiation driver tu/c06_filters.cpp: a symbolic executor over the typed statement trees "
            "(constant loops unrolled with break/continue as exit conditions, symbolic loops executed for one generic iteration with a loop-exit atom for `break`, comparisons decided by the loop ranges folded, path conditions as boolean formulae over canonical atoms) summarises each kernel / matrix filter "
            "as guarded stores and each filter method as kernel-call / axpy events with evaluated arguments. Rules: footprint and coverage of the stores (clause 1), role->kernel form with slot roles "
            "by callee parameter names (clause 2), idempotence by form and the slip projection identities in sympy for block sizes 2 and 3 (clause 3), unit/null matrix rows decided on the full truth table of the guards (clause 4), "
            "mean-filter vector roles and the factor c-D/_volume (clause 5), MAP conformance of the five composition classes (clause 6). Additionally (driver tu/c06_copyops.cpp) the copy-like operations of all eleven filter classes: instantiability (E0.copy-ops) and sibling agreement C06.state-transfer - a may-dataflow from the members of the source object through constructor parameters, accessors, setters, sibling clone/convert delegation and std::swap to the members of the target; every member read by the class's filter_* methods must come from the same-named member in each operation. NOT decided: rounding ('zero mean up to rounding'), duplicate indices, rows without a stored diagonal, "
            "CUDA/MKL kernels, filter assembly (which entries are constrained), filter_offdiag_col_mat / filter_weak_matrix_rows, and whether SlipFilter::_sv really holds normals (assembler).")
    return ck.finish(expl, exhaustive=False)
